import TsV.Lemmas.C20_FolderMappings
import TsV.Props.C14_Imports
/-!
# C20_FolderMappings — in a folder run each language reads its own `type_mappings` table

C20: "file-only settings are applied unchanged".  `typeshare.toml` holds one `type_mappings` table per
language; `cli/src/main.rs::language()` gives the back end of the language under generation *its*
table (modelled in `Lemmas/C20_FolderMappings.lean`: `Tables`, `language` — `Model/Config.lean` keeps
the file-only part abstract).  The table is read in three places: the type printer (mapped name), and —
TypeScript and Kotlin only — `ignored_reference_types()`, which the parser uses to keep mapped names out
of the import set.

* `language_reads_own_table`: two configuration files that agree on language `L`'s table give the same
  back-end value, hence the same run (`run_other_tables_irrelevant`) and the same ignore list — whatever
  the five other tables say.  `ignored_own_keys`: the ignore list is the key list of `L`'s own table
  (TypeScript, Kotlin) or empty (the four others, which write no per-type import lines:
  `no_import_lines_elsewhere`).
* (a) `mapped_name_written`: a type `L`'s table maps is printed under the mapped name by `L`'s printer.
* (b) `mapped_not_imported`: in a folder run no import *recorded by the parser* names a type of the
  ignore list (`Clean`), for every file, every crate entry; and the scoped imports handed to the back
  end list an ignored name under crate `b` only if the crate glob-imports `b` (`use b::*;`).
  `mapped_not_imported_named`: without a glob import of `b`, no import line of `b` names a mapped type.
* **false on the model** (`NoImportOfMapped_not_full`): "a mapped type never produces an import line" —
  `use alpha::*;` expands to *every* type of `alpha`, mapped ones included (the expansion is done by
  `used_imports` from `all_types`, after the parser's filter).  The line is harmless (the name exists in
  `alpha`'s module) but contradicts the doc comment of `ignored_reference_types`.
* a type only *another* language's table maps: `run_other_tables_irrelevant` — the run is literally the
  run in which the other tables are empty, so it is imported as usual (`C14.import_complete`).
* `C20_FolderMappings : C20_FolderMappings_full`.
-/
namespace TsV.C20_FolderMappings
open TsV TsV.Syn TsV.Visitor TsV.Pipeline TsV.Collect TsV.C06M TsV.C14I TsV.Generate TsV.Lang

/-! ## 1. its own table -/

theorem language_table (base : LangCfg) (t : Tables) :
    mappingsOf (language base t) = t.of (langOf base) ∧ langOf (language base t) = langOf base := by
  cases base <;> exact ⟨rfl, rfl⟩

/-- **the back end of `L` is a function of `L`'s table only** -/
theorem language_reads_own_table (base : LangCfg) (t t' : Tables) (h : t.of (langOf base) = t'.of (langOf base)) :
    language base t = language base t' := by
  cases base <;> simp only [language, Tables.of, langOf] at h ⊢ <;> rw [h]

/-- … so the whole run is: the five other tables are never read -/
theorem run_other_tables_irrelevant (E : Ext) (base : LangCfg) (t t' : Tables) (h : t.of (langOf base) = t'.of (langOf base))
    (multiFile : Bool) (targetOs : List Str) (pick : List ImportedType → Option ImportedType) (files : List SourceFile) :
    run E (language base t) multiFile targetOs pick files = run E (language base t') multiFile targetOs pick files := by
  rw [language_reads_own_table base t t' h]

/-- the tables in which only `L`'s own table is kept -/
def Tables.only (t : Tables) : TsV.Lang → Tables
  | .typescript => { typescript := t.typescript } | .kotlin => { kotlin := t.kotlin } | .swift => { swift := t.swift }
  | .scala => { scala := t.scala } | .go => { go := t.go } | .python => { python := t.python }

theorem language_only (base : LangCfg) (t : Tables) : language base t = language base (t.only (langOf base)) :=
  language_reads_own_table base t _ (by cases base <;> rfl)

/-- **the ignore list (`ignored_reference_types`) is the key list of the language's own table** for
TypeScript and Kotlin, empty for the others -/
theorem ignored_own_keys (base : LangCfg) (t : Tables) :
    ignoredTypes (language base t) =
      match langOf base with
      | .typescript | .kotlin => (t.of (langOf base)).map (·.1)
      | _ => [] := by
  cases base <;> rfl

/-- Swift, Scala, Go and Python never look at the scoped imports of a job: no per-type import lines -/
theorem no_import_lines_elsewhere (E : Ext) (mf : Bool) (jobs : List Job) :
    (∀ cfg : Scala.Cfg, Scala.generateAll E cfg mf jobs = Scala.generateAll E cfg mf (jobs.map fun j => (j.1, j.2.1, none))) ∧
    (∀ cfg : Go.Cfg, Go.generateAll E cfg mf jobs = Go.generateAll E cfg mf (jobs.map fun j => (j.1, j.2.1, none))) ∧
    (∀ cfg : Python.Cfg, Python.generateAll E cfg mf jobs = Python.generateAll E cfg mf (jobs.map fun j => (j.1, j.2.1, none))) ∧
    (∀ cfg : Swift.Cfg, Swift.generateAll E cfg mf jobs = Swift.generateAll E cfg mf (jobs.map fun j => (j.1, j.2.1, none))) := by
  refine ⟨fun cfg => ?_, fun cfg => ?_, fun cfg => ?_, fun cfg => ?_⟩
  · unfold Scala.generateAll
    induction jobs with
    | nil => rfl
    | cons j js ih => obtain ⟨c, d, i⟩ := j; simp only [List.map_cons, Scala.generateFrom, ih]
  · unfold Go.generateAll
    generalize ([] : Go.Imports) = st
    induction jobs generalizing st with
    | nil => rfl
    | cons j js ih => obtain ⟨c, d, i⟩ := j; simp only [List.map_cons, Go.generateFrom, ih]
  · unfold Python.generateAll
    generalize ({} : Python.St) = st
    induction jobs generalizing st with
    | nil => rfl
    | cons j js ih => obtain ⟨c, d, i⟩ := j; simp only [List.map_cons, Python.generateFrom, ih]
  · unfold Swift.generateAll
    congr 1
    generalize false = st
    induction jobs generalizing st with
    | nil => rfl
    | cons j js ih => obtain ⟨c, d, i⟩ := j; simp only [List.map_cons, Swift.generateFrom, ih]

/-! ## 2. (a) the mapped name is written -/

/-- the text the printer of the language writes for a reference to the type named `T` -/
def simpleText (lc : LangCfg) (gens : List Str) (T : Str) : Outcome Str :=
  match lc with
  | .typescript c => (TypeScript.formatType c gens (.simple T) []).bind fun r => .ok r.1
  | .kotlin c => Kotlin.formatType c gens (.simple T)
  | .swift c => (Swift.formatType c gens (.simple T) false).bind fun r => .ok r.1
  | .scala c => Scala.formatType c gens (.simple T)
  | .go c => (Go.formatType c (.simple T) []).bind fun r => .ok r.1
  | .python c => (Python.formatType c gens (.simple T) {}).bind fun r => .ok r.1

/-- **a type the language's own table maps is written under the mapped name** (all six printers) -/
theorem mapped_name_written (base : LangCfg) (t : Tables) (gens : List Str) (T v : Str)
    (h : mapGet (t.of (langOf base)) T = some v) : simpleText (language base t) gens T = .ok v := by
  cases base <;> simp only [Tables.of, langOf] at h
  · simp [simpleText, language, TypeScript.formatType, h]
  · simp [simpleText, language, Kotlin.formatType, Kotlin.formatSimple, h]
  · simp [simpleText, language, Swift.formatType, Swift.formatSimple, h]
  · simp [simpleText, language, Scala.formatType, h]
  · simp [simpleText, language, Go.formatType, h]
  · simp [simpleText, language, Python.formatType, Python.formatSimple, h]

/-- … and a name only other tables map is written as if no table mapped it -/
theorem other_table_name (base : LangCfg) (t : Tables) (gens : List Str) (T : Str) :
    simpleText (language base t) gens T = simpleText (language base (t.only (langOf base))) gens T := by
  rw [← language_only]

/-! ## 3. (b) the import side -/

/-- the parse context of a folder run of the language -/
def folderCtx (lang : LangCfg) (targetOs : List Str) : ParseContext :=
  { ignoredTypes := ignoredTypes lang, multiFile := true, targetOs }

/-- **no import recorded for a mapped name, and an import entry for one only through a glob**: in a
folder run, (1) no arrival and no crate entry holds an import whose type name is in the ignore list;
(2) if the scoped imports of a job list an ignored name `T` under crate `b`, the crate has the import
`b::*` -/
theorem mapped_not_imported (E : Ext) (lang : LangCfg) (targetOs : List Str)
    (pick : List ImportedType → Option ImportedType) (hp : ValidPick pick) (files : List SourceFile)
    (arrivals : List ParsedData) (h : parseAll E (folderCtx lang targetOs) pick files = .ok arrivals) :
    (∀ a ∈ arrivals, Clean (folderCtx lang targetOs) a) ∧
    (∀ j ∈ jobsWith id (collect arrivals), Clean (folderCtx lang targetOs) j.2.1 ∧
      ∀ imps, j.2.2 = some imps → ∀ b tys, (b, tys) ∈ imps → ∀ T ∈ tys, T ∈ ignoredTypes lang →
        ∃ i ∈ j.2.1.importTypes, i.baseCrate = b ∧ i.typeName = s%"*") := by
  have hA := parseAll_clean E (folderCtx lang targetOs) rfl pick hp files arrivals h
  refine ⟨hA, ?_⟩
  intro j hj
  simp only [jobsWith, id] at hj
  obtain ⟨p, hpm, rfl⟩ := List.mem_map.1 hj
  obtain ⟨c, d⟩ := p
  have hc : Clean (folderCtx lang targetOs) d := crates_clean _ arrivals hA c d hpm
  refine ⟨hc, ?_⟩
  intro imps himps b tys hb T hT hig
  simp only [Option.some.injEq] at himps
  subst himps
  obtain ⟨i, hi, _, x, hx, hbx, hTx⟩ := (C14.usedImports_exact d _ d.importTypes _ b T).1 ⟨tys, hb, hT⟩
  have hclean := hc i hi
  have hnot : i.typeName ≠ T := by
    intro e
    rw [e] at hclean
    have : (folderCtx lang targetOs).ignoredTypes.contains T = true := by simpa [folderCtx] using hig
    rw [this] at hclean
    cases hclean
  refine ⟨i, hi, ?_⟩
  unfold contrib at hx
  split at hx
  · rename_i k names _
    by_cases hs : (i.typeName == s%"*") = true
    · simp only [hs, if_true, Option.some.injEq] at hx
      subst hx
      exact ⟨hbx.symm, eq_of_beq hs⟩
    · simp only [hs, Bool.false_eq_true, if_false] at hx
      split at hx
      · simp only [Option.some.injEq] at hx
        subst hx
        simp only [List.mem_singleton] at hTx
        exact absurd hTx.symm hnot
      · obtain ⟨c', _, hx⟩ := Option.map_eq_some_iff.1 hx
        subst hx
        simp only [List.mem_singleton] at hTx
        exact absurd hTx.symm hnot
  · obtain ⟨c', _, hx⟩ := Option.map_eq_some_iff.1 hx
    subst hx
    simp only [List.mem_singleton] at hTx
    exact absurd hTx.symm hnot

/-- **named imports only: a mapped type produces no import entry** -/
theorem mapped_not_imported_named (E : Ext) (lang : LangCfg) (targetOs : List Str)
    (pick : List ImportedType → Option ImportedType) (hp : ValidPick pick) (files : List SourceFile)
    (arrivals : List ParsedData) (h : parseAll E (folderCtx lang targetOs) pick files = .ok arrivals)
    (j : Job) (hj : j ∈ jobsWith id (collect arrivals)) (b : Str)
    (hng : ∀ i ∈ j.2.1.importTypes, i.baseCrate = b → i.typeName ≠ s%"*")
    (imps : ScopedCrateTypes) (hi : j.2.2 = some imps) (tys : List Str) (hb : (b, tys) ∈ imps) (T : Str)
    (hig : T ∈ ignoredTypes lang) : T ∉ tys := by
  intro hT
  obtain ⟨i, him, hbc, hst⟩ := ((mapped_not_imported E lang targetOs pick hp files arrivals h).2 j hj).2 imps hi b tys hb T hT hig
  exact hng i him hbc hst

/-! ## 4. what is false: a glob import brings the mapped names back -/

/-- "a mapped type never produces an import entry" -/
def NoImportOfMapped_full : Prop :=
  ∀ (E : Ext) (lang : LangCfg) (targetOs : List Str) (pick : List ImportedType → Option ImportedType), ValidPick pick →
    ∀ (files : List SourceFile) (arrivals : List ParsedData), parseAll E (folderCtx lang targetOs) pick files = .ok arrivals →
      ∀ j ∈ jobsWith id (collect arrivals), ∀ imps, j.2.2 = some imps → ∀ b tys, (b, tys) ∈ imps →
        ∀ T ∈ tys, T ∉ ignoredTypes lang

def wE : Ext := { U := UnicodeOps.ascii, parseType := fun _ => none }
def tsAttr : Attr := ⟨.path [s%"typeshare"]⟩
def fld (n t : Str) : Field := ⟨[], some n, .path [] t []⟩
def mkSrc (crate : Str) (items : List Item) : SourceFile :=
  { crateName := crate, fileName := crate, path := crate ++ s%"/src/lib.rs", file := { attrs := [], marker := true, items := items } }

/-- `[typescript.type_mappings] Stamp = "MappedStamp"`, `[kotlin.type_mappings] Token = "OtherKotlin"`, … -/
def wTables : Tables :=
  { typescript := [(s%"Stamp", s%"MappedStamp")], kotlin := [(s%"Token", s%"OtherKotlin")], swift := [(s%"Token", s%"OtherSwift")],
    scala := [(s%"Token", s%"OtherScala")], go := [(s%"Token", s%"OtherGo")], python := [(s%"Token", s%"OtherPython")] }
def wLang : LangCfg := language (.typescript {}) wTables

/-- crate `alpha`: `#[typeshare] struct Stamp { at: u32 }  #[typeshare] struct Token { t: String }` -/
def srcAlpha : SourceFile :=
  mkSrc s%"alpha" [.struct [tsAttr] s%"Stamp" [] (.named [fld s%"at" s%"u32"]),
    .struct [tsAttr] s%"Token" [] (.named [fld s%"t" s%"String"])]
/-- crate `beta`: `use alpha::{Stamp, Token}; #[typeshare] struct Api { s: Stamp, t: Token }` -/
def srcBetaNamed : SourceFile :=
  mkSrc s%"beta" [.use (.path s%"alpha" (.group [.name s%"Stamp", .name s%"Token"])),
    .struct [tsAttr] s%"Api" [] (.named [fld s%"s" s%"Stamp", fld s%"t" s%"Token"])]
/-- crate `beta`: `use alpha::*; #[typeshare] struct Api { s: Stamp, t: Token }` -/
def srcBetaGlob : SourceFile :=
  mkSrc s%"beta" [.use (.path s%"alpha" .glob),
    .struct [tsAttr] s%"Api" [] (.named [fld s%"s" s%"Stamp", fld s%"t" s%"Token"])]

def getOk {α} [Inhabited α] : Outcome α → α
  | .ok a => a
  | _ => default

theorem eq_ok_getOk {α} [Inhabited α] {o : Outcome α} (h : o.isOk = true) : o = .ok (getOk o) := by
  cases o <;> simp_all [Outcome.isOk, getOk]

def arrivalsOf (lang : LangCfg) (files : List SourceFile) : List ParsedData :=
  getOk (parseAll wE (folderCtx lang []) List.head? files)
def importsOf (arrivals : List ParsedData) : List (Str × Option ScopedCrateTypes) :=
  (jobsWith id (collect arrivals)).map fun j => (j.1, j.2.2)

/-- **named imports, TypeScript's table maps `Stamp`, the other five tables map `Token`**: `Token` is
imported as usual, `Stamp` is not; under Kotlin's table (maps `Token`) it is the other way round; under
Swift's the parser filters nothing -/
theorem named_example :
    importsOf (arrivalsOf wLang [srcAlpha, srcBetaNamed]) = [(s%"alpha", some []), (s%"beta", some [(s%"alpha", [s%"Token"])])] ∧
    importsOf (arrivalsOf (language (.kotlin {}) wTables) [srcAlpha, srcBetaNamed]) =
      [(s%"alpha", some []), (s%"beta", some [(s%"alpha", [s%"Stamp"])])] ∧
    importsOf (arrivalsOf (language (.swift {}) wTables) [srcAlpha, srcBetaNamed]) =
      [(s%"alpha", some []), (s%"beta", some [(s%"alpha", [s%"Stamp", s%"Token"])])] :=
  ⟨by decide +kernel, by decide +kernel, by decide +kernel⟩

theorem named_example_tables :
    ignoredTypes wLang = [s%"Stamp"] ∧ ignoredTypes (language (.kotlin {}) wTables) = [s%"Token"] ∧
    simpleText wLang [] s%"Stamp" = .ok s%"MappedStamp" ∧ simpleText wLang [] s%"Token" = .ok s%"Token" := by
  decide +kernel

/-- **glob import**: the mapped `Stamp` is back in the import entry -/
theorem glob_witness :
    (parseAll wE (folderCtx wLang []) List.head? [srcAlpha, srcBetaGlob]).isOk = true ∧
    importsOf (arrivalsOf wLang [srcAlpha, srcBetaGlob]) =
      [(s%"alpha", some []), (s%"beta", some [(s%"alpha", [s%"Stamp", s%"Token"])])] := by
  decide +kernel

/-- **false on the model.** -/
theorem NoImportOfMapped_not_full : ¬ NoImportOfMapped_full := by
  intro h
  have hp := eq_ok_getOk glob_witness.1
  have hmem : (s%"beta", some [(s%"alpha", [s%"Stamp", s%"Token"])]) ∈ importsOf (arrivalsOf wLang [srcAlpha, srcBetaGlob]) := by
    rw [glob_witness.2]; simp
  obtain ⟨j, hj, he⟩ := List.mem_map.1 hmem
  simp only [Prod.mk.injEq] at he
  have := h wE wLang [] List.head? validPick_head [srcAlpha, srcBetaGlob] _ hp j hj _ he.2 s%"alpha" [s%"Stamp", s%"Token"]
    (by simp) s%"Stamp" (by simp)
  exact this (by decide +kernel)

/-! ## the statement at full strength -/

def C20_FolderMappings_full : Prop :=
  (∀ (base : LangCfg) (t t' : Tables), t.of (langOf base) = t'.of (langOf base) →
    language base t = language base t' ∧
    (∀ (E : Ext) (mf : Bool) (os : List Str) (pick : List ImportedType → Option ImportedType) (files : List SourceFile),
      run E (language base t) mf os pick files = run E (language base t') mf os pick files)) ∧
  (∀ (base : LangCfg) (t : Tables),
    ignoredTypes (language base t) =
      (match langOf base with
       | .typescript | .kotlin => (t.of (langOf base)).map (·.1)
       | _ => []) ∧
    (∀ (gens : List Str) (T v : Str), mapGet (t.of (langOf base)) T = some v → simpleText (language base t) gens T = .ok v) ∧
    (∀ (gens : List Str) (T : Str),
      simpleText (language base t) gens T = simpleText (language base (t.only (langOf base))) gens T)) ∧
  (∀ (E : Ext) (lang : LangCfg) (targetOs : List Str) (pick : List ImportedType → Option ImportedType), ValidPick pick →
    ∀ (files : List SourceFile) (arrivals : List ParsedData), parseAll E (folderCtx lang targetOs) pick files = .ok arrivals →
      (∀ a ∈ arrivals, Clean (folderCtx lang targetOs) a) ∧
      (∀ j ∈ jobsWith id (collect arrivals), Clean (folderCtx lang targetOs) j.2.1 ∧
        ∀ imps, j.2.2 = some imps → ∀ b tys, (b, tys) ∈ imps → ∀ T ∈ tys, T ∈ ignoredTypes lang →
          ∃ i ∈ j.2.1.importTypes, i.baseCrate = b ∧ i.typeName = s%"*"))

theorem C20_FolderMappings : C20_FolderMappings_full :=
  ⟨fun base t t' h => ⟨language_reads_own_table base t t' h,
      fun E mf os pick files => run_other_tables_irrelevant E base t t' h mf os pick files⟩,
   fun base t => ⟨ignored_own_keys base t, fun gens T v h => mapped_name_written base t gens T v h,
      fun gens T => other_table_name base t gens T⟩,
   fun E lang os pick hp files arrivals h => mapped_not_imported E lang os pick hp files arrivals h⟩

/-- the hypotheses on the witness: the files parse, `head?` is a valid pick -/
example : (parseAll wE (folderCtx wLang []) List.head? [srcAlpha, srcBetaNamed]).isOk = true ∧ ValidPick List.head? :=
  ⟨by decide +kernel, validPick_head⟩

end TsV.C20_FolderMappings
