import TsV.Lemmas.C06_Multi_Collect
/-!
# C03_FolderErrors — helper lemmas: the error lists along collect / reconcile / `check_parse_errors`

The run's error exit is modelled: `Pipeline.allErrors` (= `check_parse_errors`, the concatenation of
the crates' error lists in map order) and the `if !errs.isEmpty then .ok (.parseErrors errs)` of
`Generate.run`.  The merge is `Pipeline.addAssign` (`errors := a.errors ++ b.errors`).
-/
namespace TsV.C03_FolderErrors
open TsV TsV.Pipeline TsV.Collect TsV.C06M TsV.Generate

/-! ## partitioning a list by a key -/

theorem flatMap_filter_skip {α} (key : α → Str) (d : α) (t : List α) : ∀ ks : List Str, key d ∉ ks →
    (ks.flatMap fun c => (d :: t).filter fun x => key x == c) = ks.flatMap fun c => t.filter fun x => key x == c
  | [], _ => rfl
  | k :: ks, h => by
    have hk : (key d == k) = false := by
      cases hb : key d == k with
      | false => rfl
      | true => exact absurd (List.mem_cons.2 (Or.inl (eq_of_beq hb))) h
    rw [List.flatMap_cons, List.flatMap_cons, List.filter_cons, hk, if_neg (by simp),
      flatMap_filter_skip key d t ks (fun m => h (List.mem_cons_of_mem _ m))]

theorem flatMap_filter_cons {α} (key : α → Str) (d : α) (t : List α) : ∀ ks : List Str, ks.Nodup → key d ∈ ks →
    (ks.flatMap fun c => (d :: t).filter fun x => key x == c).Perm
      (d :: ks.flatMap fun c => t.filter fun x => key x == c)
  | [], _, h => by simp at h
  | k :: ks, hn, h => by
    obtain ⟨hk, hn'⟩ := List.nodup_cons.1 hn
    by_cases e : key d = k
    · subst e
      rw [List.flatMap_cons, List.flatMap_cons, List.filter_cons, beq_self_eq_true, if_pos rfl, List.cons_append,
        flatMap_filter_skip key d t ks hk]
    · have hb : (key d == k) = false := by simpa using e
      have hm : key d ∈ ks := by
        rcases List.mem_cons.1 h with h | h
        · exact absurd h e
        · exact h
      rw [List.flatMap_cons, List.flatMap_cons, List.filter_cons, hb, if_neg (by simp)]
      exact ((flatMap_filter_cons key d t ks hn' hm).append_left _).trans List.perm_middle

/-- the classes of a partition by key, concatenated over a duplicate-free list of all the keys, are a
permutation of the list -/
theorem flatMap_filter_perm {α} (key : α → Str) : ∀ (a : List α) (ks : List Str), ks.Nodup → (∀ d ∈ a, key d ∈ ks) →
    (ks.flatMap fun c => a.filter fun x => key x == c).Perm a
  | [], ks, _, _ => by
    have : (ks.flatMap fun c => ([] : List α).filter fun x => key x == c) = [] := by
      induction ks with
      | nil => rfl
      | cons k ks ih => simp
    rw [this]
  | d :: t, ks, hn, h =>
    (flatMap_filter_cons key d t ks hn (h d List.mem_cons_self)).trans
      ((flatMap_filter_perm key t ks hn fun x hx => h x (List.mem_cons_of_mem _ hx)).cons d)

theorem ssorted_nodup : ∀ {l : List Str}, SSorted l → l.Nodup
  | [], _ => List.nodup_nil
  | x :: t, h => by
    obtain ⟨h1, h2⟩ := List.pairwise_cons.1 h
    refine List.nodup_cons.2 ⟨fun hm => ?_, ssorted_nodup h2⟩
    have := h1 x hm
    rw [Order.lt_irrefl] at this
    exact absurd this (by simp)

/-! ## the error lists -/

/-- the errors of one crate's entry: its files' errors, concatenated in arrival order -/
theorem entry_errors (a : List ParsedData) {c : Str} {v : ParsedData} (h : (c, v) ∈ collect a) :
    v.errors = (arr a c).flatMap (·.errors) := by
  rw [(collect_entry a h).1, merged_errors]
  rfl

theorem flatMap_congr' {α β} {f g : α → List β} : ∀ {l : List α}, (∀ x ∈ l, f x = g x) → l.flatMap f = l.flatMap g
  | [], _ => rfl
  | x :: t, h => by
    rw [List.flatMap_cons, List.flatMap_cons, h x List.mem_cons_self,
      flatMap_congr' fun y hy => h y (List.mem_cons_of_mem _ hy)]

theorem allErrors_collect (a : List ParsedData) :
    allErrors (collect a) = ((collect a).map (·.1)).flatMap fun c => (arr a c).flatMap (·.errors) := by
  unfold allErrors
  rw [List.flatMap_map]
  apply flatMap_congr'
  intro p hp
  exact entry_errors a (c := p.1) (v := p.2) hp

theorem flatMap_perm_of_perm {α β} (f : α → List β) {l l' : List α} (h : l.Perm l') : (l.flatMap f).Perm (l'.flatMap f) := by
  induction h with
  | nil => exact .refl _
  | cons x _ ih => simpa using ih.append_left (f x)
  | swap x y l =>
    simp only [List.flatMap_cons, ← List.append_assoc]
    exact List.Perm.append_right _ List.perm_append_comm
  | trans _ _ ih1 ih2 => exact ih1.trans ih2

/-- **no error is lost, whatever the arrival order**: the errors `check_parse_errors` sees are, as a
multiset, the errors of all the per-file results -/
theorem allErrors_collect_perm (a : List ParsedData) : (allErrors (collect a)).Perm (a.flatMap (·.errors)) := by
  rw [allErrors_collect]
  have h1 : (((collect a).map (·.1)).flatMap fun c => (arr a c).flatMap (·.errors)) =
      (((collect a).map (·.1)).flatMap fun c => a.filter fun d => d.crateName == c).flatMap (·.errors) := by
    rw [List.flatMap_assoc]; rfl
  rw [h1]
  apply flatMap_perm_of_perm
  apply flatMap_filter_perm (fun d : ParsedData => d.crateName) a _ (ssorted_nodup (sorted_keys (collect_sorted a)))
  intro d hd
  exact (collect_key_iff a d.crateName).2 ⟨d, hd, rfl⟩

theorem reconcile_errors (m : List (Str × ParsedData)) :
    (reconcile m).map (fun p => (p.1, p.2.errors)) = m.map fun p => (p.1, p.2.errors) := by
  unfold reconcile
  rw [List.map_map]
  apply List.map_congr_left
  intro p _
  rfl

/-- `reconcile_aliases` does not touch the error lists -/
theorem allErrors_reconcile (m : List (Str × ParsedData)) : allErrors (reconcile m) = allErrors m := by
  have h := congrArg (fun l : List (Str × List (ErrKind × Str)) => l.flatMap (·.2)) (reconcile_errors m)
  simpa [allErrors, List.flatMap_map] using h

theorem allErrors_nil_iff (m : List (Str × ParsedData)) : allErrors m = [] ↔ ∀ p ∈ m, p.2.errors = [] := by
  simp [allErrors, List.flatMap_eq_nil_iff]

theorem allErrors_append (m m' : List (Str × ParsedData)) : allErrors (m ++ m') = allErrors m ++ allErrors m' := by
  simp [allErrors]

end TsV.C03_FolderErrors
