import TsV.Lemmas.C14_Helpers
/-!
# C14, folder output of Swift — the helper `CodableVoid` is defined once, in `Codable.swift`,
exactly when single-file mode would define it

`Swift::post_generation` writes `Codable.swift` (model: the output `<post>/Codable.swift`) iff the
flag `should_emit_codable_void` is set after the last crate; the flag accumulates over the crates
of the run (`runUses`: some module's items make the printer format `()`, `C12L.Swift.used`).

* `C14_Helpers_folder`: in folder output the result is the crate modules, in job order, each
  `begin_file` + the item blocks and *nothing from `end_file`*, followed by
  `("<post>/Codable.swift", writeCodable cfg)` iff some module of the run mentions `CodableVoid`
  (`C14_Helpers_iff` as a membership statement).
* `C14_Helpers_single`: single-file output ends with `writeCodable cfg` iff its module mentions it.
* `C14_Helpers_same` (`C14_Helpers_full`): for a single-file run and a folder run whose modules hold
  the same items, the condition is the same and the helper text is the same `writeCodable cfg` —
  the two modes define the same helper.
* `C14_Helpers_run`: the statements apply to `Generate.run … (.swift cfg)`.
-/
namespace TsV.C14_Helpers
open TsV TsV.Lang TsV.Lang.Swift TsV.C14H TsV.C12L TsV.C12L.Swift

/-- the key under which the model reports what `post_generation` writes -/
def helperPath : Str := s%"<post>/Codable.swift"

/-- what `post_generation` contributes -/
def helperFiles (cfg : Cfg) (uses : Bool) : List (Str × Str) :=
  if uses then [(helperPath, writeCodable cfg)] else []

/-- **folder output**: crate modules without any `end_file` text, then the helper file iff used -/
theorem C14_Helpers_folder (E : Ext) (cfg : Cfg) (jobs : List Job) (res : List (Str × Str))
    (h : generateAll E cfg true jobs = .ok res) :
    ∃ outs, res = outs ++ helperFiles cfg (runUses cfg jobs) ∧
      outs.map (·.1) = jobs.map (·.1) ∧
      ∀ p ∈ jobs.zip outs, p.2.1 = p.1.1 ∧
        ∃ body, IsBody E.U cfg p.1.2.1 body ∧ p.2.2 = beginFile cfg ++ body := by
  unfold generateAll at h
  obtain ⟨outs, st, h1, h2⟩ := bindPair h
  simp only [Outcome.ok.injEq] at h2
  obtain ⟨hst, hm⟩ := generateFrom_modules E.U cfg true jobs false outs st h1
  refine ⟨outs, ?_, hm.names, hm.folder⟩
  rw [← h2, hst]
  simp [postGeneration, helperFiles, helperPath]

/-- the helper file is there iff some module mentions `CodableVoid` (crate names are directory names,
never `<post>/…`), and it is always the same text -/
theorem C14_Helpers_iff (E : Ext) (cfg : Cfg) (jobs : List Job) (res : List (Str × Str))
    (h : generateAll E cfg true jobs = .ok res) (hn : ∀ j ∈ jobs, j.1 ≠ helperPath) :
    ((helperPath, writeCodable cfg) ∈ res ↔ runUses cfg jobs = true) ∧
    ∀ p ∈ res, p.1 = helperPath → p.2 = writeCodable cfg := by
  obtain ⟨outs, rfl, hnames, _⟩ := C14_Helpers_folder E cfg jobs res h
  have hout : ∀ p ∈ outs, p.1 ≠ helperPath := by
    intro p hp he
    have : p.1 ∈ jobs.map (·.1) := by rw [← hnames]; exact List.mem_map_of_mem hp
    obtain ⟨j, hj, hje⟩ := List.mem_map.1 this
    exact hn j hj (hje.trans he)
  constructor
  · constructor
    · intro hm
      rcases List.mem_append.1 hm with hm | hm
      · exact absurd rfl (hout _ hm)
      · unfold helperFiles at hm
        split at hm
        · assumption
        · simp at hm
    · intro hu
      simp [helperFiles, hu]
  · intro p hp he
    rcases List.mem_append.1 hp with hp | hp
    · exact absurd he (hout _ hp)
    · unfold helperFiles at hp
      split at hp
      · simp only [List.mem_singleton] at hp; rw [hp]
      · simp at hp

/-- **single-file output**: the file ends with the helper iff its module mentions `CodableVoid` -/
theorem C14_Helpers_single (E : Ext) (cfg : Cfg) (c : Str) (d : ParsedData)
    (imps : Option Pipeline.ScopedCrateTypes) (res : List (Str × Str))
    (h : generateAll E cfg false [(c, d, imps)] = .ok res) :
    ∃ body, IsBody E.U cfg d body ∧
      res = [(c, beginFile cfg ++ body ++ (if used cfg d then writeCodable cfg else []))] := by
  unfold generateAll at h
  obtain ⟨outs, st, h1, h2⟩ := bindPair h
  simp only [Outcome.ok.injEq] at h2
  obtain ⟨_, hm⟩ := generateFrom_modules E.U cfg false [(c, d, imps)] false outs st h1
  cases hm with
  | @cons _ _ _ _ _ outs' body hb hrest =>
    cases hrest
    refine ⟨body, hb, ?_⟩
    rw [← h2]
    simp [postGeneration, endFile]

/-- the statement at full strength: any folder run, any single-file run whose one module holds the
items of the folder run's modules (in any order) -/
def C14_Helpers_full : Prop :=
  ∀ (E : Ext) (cfg : Cfg) (jobs : List Job) (c : Str) (d : ParsedData) (imps : Option Pipeline.ScopedCrateTypes)
    (resM res1 : List (Str × Str)),
    generateAll E cfg true jobs = .ok resM → generateAll E cfg false [(c, d, imps)] = .ok res1 →
    (itemsOf d).Perm (jobs.flatMap fun j => itemsOf j.2.1) →
    ∃ (uses : Bool) (outs : List (Str × Str)) (body : Str),
      uses = runUses cfg jobs ∧ uses = used cfg d ∧
      resM = outs ++ (if uses then [(helperPath, writeCodable cfg)] else []) ∧
      res1 = [(c, beginFile cfg ++ body ++ (if uses then writeCodable cfg else []))] ∧
      outs.map (·.1) = jobs.map (·.1) ∧
      ∀ p ∈ jobs.zip outs, ∃ b, IsBody E.U cfg p.1.2.1 b ∧ p.2.2 = beginFile cfg ++ b

/-- **C14_Helpers**: the two modes define the same helper, under the same condition -/
theorem C14_Helpers_same : C14_Helpers_full := by
  intro E cfg jobs c d imps resM res1 hM h1 hperm
  obtain ⟨outs, hres, hn, hz⟩ := C14_Helpers_folder E cfg jobs resM hM
  obtain ⟨body, _, hr1⟩ := C14_Helpers_single E cfg c d imps res1 h1
  refine ⟨runUses cfg jobs, outs, body, rfl, (used_eq_runUses cfg d jobs hperm).symm, hres, ?_, hn,
    fun p hp => (hz p hp).2⟩
  rw [hr1, used_eq_runUses cfg d jobs hperm]

/-- the text of the helper declares `CodableVoid` -/
theorem helper_defines (cfg : Cfg) : s%"public struct CodableVoid: " <:+: writeCodable cfg :=
  writeCodable_defines cfg

/-! ## the whole run -/

/-- the jobs `Generate.run` hands to the back end -/
def runJobs (multiFile : Bool) (crates : List (Str × ParsedData)) : List Job :=
  let all := if multiFile then Pipeline.allTypes crates else []
  crates.map fun (c, d) =>
    (c, d, if multiFile then
        some (Pipeline.usedImports d all d.importTypes (Generate.firstOther all d.crateName))
      else none)

/-- a successful Swift run is `generateAll` on the reconciled crates -/
theorem C14_Helpers_run (E : Ext) (cfg : Cfg) (multiFile : Bool) (targetOs : List Str)
    (pick : List ImportedType → Option ImportedType) (files : List Generate.SourceFile) (res : List (Str × Str))
    (h : Generate.run E (.swift cfg) multiFile targetOs pick files = .ok (.outputs res)) :
    ∃ arrivals, Generate.parseAll E { ignoredTypes := [], multiFile, targetOs } pick files = .ok arrivals ∧
      generateAll E cfg multiFile (runJobs multiFile (Pipeline.reconcile (Pipeline.collect arrivals))) = .ok res := by
  unfold Generate.run at h
  obtain ⟨arrivals, ha, h⟩ := (Outcome.bind_eq_ok _ _ _).1 h
  refine ⟨arrivals, ha, ?_⟩
  simp only at h
  split at h
  · simp at h
  · obtain ⟨o, ho, h⟩ := (Outcome.bind_eq_ok _ _ _).1 h
    simp only [Outcome.ok.injEq, Generate.RunResult.outputs.injEq] at h
    subst h
    exact ho

/-- folder output of a whole run -/
theorem C14_Helpers_run_folder (E : Ext) (cfg : Cfg) (targetOs : List Str)
    (pick : List ImportedType → Option ImportedType) (files : List Generate.SourceFile) (res : List (Str × Str))
    (h : Generate.run E (.swift cfg) true targetOs pick files = .ok (.outputs res)) :
    ∃ arrivals outs, Generate.parseAll E { ignoredTypes := [], multiFile := true, targetOs } pick files = .ok arrivals ∧
      res = outs ++ helperFiles cfg (runUses cfg (runJobs true (Pipeline.reconcile (Pipeline.collect arrivals)))) ∧
      outs.map (·.1) = (Pipeline.collect arrivals).map (·.1) := by
  obtain ⟨arrivals, ha, hg⟩ := C14_Helpers_run E cfg true targetOs pick files res h
  obtain ⟨outs, hres, hn, _⟩ := C14_Helpers_folder E cfg _ res hg
  refine ⟨arrivals, outs, ha, hres, ?_⟩
  rw [hn]
  simp [runJobs, Pipeline.reconcile, List.map_map, Function.comp_def]

/-! ## non-vacuity, kernel-checked -/

def mkField (name : Str) (ty : RustType) : RustField :=
  { id := ⟨name, name, false⟩, ty, comments := [], hasDefault := false, decorators := [] }

def mkStruct (name : Str) (fields : List RustField) : RustStruct :=
  { id := ⟨name, name, false⟩, genericTypes := [], fields, comments := [], decorators := {}, isRedacted := false }

/-- crate `a`: `struct A { u: () }`; crate `b`: `struct B { n: u8 }` -/
def crateA : ParsedData := { structs := [mkStruct s%"A" [mkField s%"u" (.prim .unit)]], crateName := s%"a" }
def crateB : ParsedData := { structs := [mkStruct s%"B" [mkField s%"n" (.prim .u8)]], crateName := s%"b" }
def both : ParsedData := { structs := [mkStruct s%"A" [mkField s%"u" (.prim .unit)], mkStruct s%"B" [mkField s%"n" (.prim .u8)]] }

def cfg0 : Cfg := { codablevoidConstraints := [s%"Sendable"] }

/-- only the first crate uses `()`, only the second, neither: the flag accumulates -/
example : runUses cfg0 [(s%"a", crateA, some []), (s%"b", crateB, some [])] = true := by decide +kernel
example : runUses cfg0 [(s%"b", crateB, some []), (s%"a", crateA, some [])] = true := by decide +kernel
example : runUses cfg0 [(s%"b", crateB, some [])] = false := by decide +kernel
example : used cfg0 crateA = true ∧ used cfg0 crateB = false ∧ used cfg0 both = true := by decide +kernel
/-- the hypothesis of `C14_Helpers_same` on the items -/
example : (itemsOf both).Perm (([(s%"a", crateA, some []), (s%"b", crateB, some [])] : List Job).flatMap fun j => itemsOf j.2.1) := by
  simp [itemsOf, both, crateA, crateB]
example : helperFiles cfg0 true =
    [(s%"<post>/Codable.swift", s%"\n/// () isn't codable, so we use this instead to represent Rust's unit type\npublic struct CodableVoid: Codable, Sendable {}\n")] := by
  decide +kernel

def E0 : Ext := { U := .ascii, parseType := fun _ => none }
def itemA : RustItem := .struct (mkStruct s%"A" [mkField s%"u" (.prim .unit)])
def itemB : RustItem := .struct (mkStruct s%"B" [mkField s%"n" (.prim .u8)])

/-- the folder run over `a`, `b` after the ordering pass (each module holds one item, so
`C12L.topsort_single` gives the order; the kernel evaluates the rest) -/
def exRun : Outcome (List (Str × Str)) :=
  (writeItems .ascii cfg0 [itemA] false).bind fun (bodyA, st1) =>
  (writeItems .ascii cfg0 [itemB] st1).bind fun (bodyB, st2) =>
    .ok ([(s%"a", beginFile cfg0 ++ bodyA ++ endFile cfg0 true st1),
          (s%"b", beginFile cfg0 ++ bodyB ++ endFile cfg0 true st2)] ++ postGeneration cfg0 true st2)

theorem exRun_eq : generateAll E0 cfg0 true [(s%"a", crateA, some []), (s%"b", crateB, some [])] = exRun := by
  have hoA : Pipeline.generateOrder crateA = some [itemA] := topsort_single _ (by decide +kernel)
  have hoB : Pipeline.generateOrder crateB = some [itemB] := topsort_single _ (by decide +kernel)
  simp only [generateAll, generateFrom, generate, hoA, hoB, exRun, E0]
  cases writeItems .ascii cfg0 [itemA] false with
  | ok p =>
    obtain ⟨bodyA, st1⟩ := p
    simp only [Outcome.bind]
    cases writeItems .ascii cfg0 [itemB] st1 with
    | ok q => rfl
    | err e => rfl
    | panic e => rfl
  | err e => rfl
  | panic e => rfl

/-- the helper file is written although only crate `a` mentions `CodableVoid`, and the module of
crate `a` does not define it (`struct A` has a `CodableVoid` property; the definition is only in
`Codable.swift`) -/
theorem ex_folder : ∃ res, generateAll E0 cfg0 true [(s%"a", crateA, some []), (s%"b", crateB, some [])] = .ok res ∧
    res = [(s%"a", s%"import Foundation\n\npublic struct A: Codable {\n\tpublic let u: CodableVoid\n\n\tpublic init(u: CodableVoid) {\n\t\tself.u = u\n\t}\n}\n"),
           (s%"b", s%"import Foundation\n\npublic struct B: Codable {\n\tpublic let n: UInt8\n\n\tpublic init(n: UInt8) {\n\t\tself.n = n\n\t}\n}\n"),
           (helperPath, writeCodable cfg0)] := by
  rw [exRun_eq]
  have : exRun = .ok _ := (by decide +kernel : exRun = .ok
    [(s%"a", s%"import Foundation\n\npublic struct A: Codable {\n\tpublic let u: CodableVoid\n\n\tpublic init(u: CodableVoid) {\n\t\tself.u = u\n\t}\n}\n"),
     (s%"b", s%"import Foundation\n\npublic struct B: Codable {\n\tpublic let n: UInt8\n\n\tpublic init(n: UInt8) {\n\t\tself.n = n\n\t}\n}\n"),
     (helperPath, writeCodable cfg0)])
  exact ⟨_, this, rfl⟩

end TsV.C14_Helpers
