import TsV.Lemmas.C07_Backends_Base
/-!
# C07, generation side — Kotlin, Scala, Swift, TypeScript, Python: one `NP` lemma per model function

Kotlin, Scala and Swift have no panic site besides the ordering pass (discharged by
`generateOrder_total`; Scala does not sort at all).  TypeScript's `format_special_type` panics on the
four 64-bit primitives (typescript.rs:137) — unreachable for types without them (`no64`).
Python's `write_enum` has an `unreachable!()` for a non-unit variant of a `RustEnum::Unit`
(python.rs:368) — unreachable for enums that satisfy `enumUnitOk`.
-/
namespace TsV.C07BE

/-! ## Kotlin -/
namespace Kotlin
open TsV TsV.Outcome TsV.Lang TsV.Lang.Kotlin

theorem formatPrim_np (p : Prim) : NP (formatPrim p) := by cases p <;> exact rfl

mutual
  theorem formatType_np (cfg : Cfg) (gens : List Str) : ∀ t : RustType, NP (formatType cfg gens t)
    | .simple id => by simp only [formatType]; np_auto
    | .generic id ps => by
      have := formatTypes_np cfg gens ps
      simp only [formatType]; np_auto
    | .vec r => by have := formatType_np cfg gens r; simp only [formatType]; np_auto
    | .array r _ => by have := formatType_np cfg gens r; simp only [formatType]; np_auto
    | .slice r => by have := formatType_np cfg gens r; simp only [formatType]; np_auto
    | .option r => by have := formatType_np cfg gens r; simp only [formatType]; np_auto
    | .hashMap k v => by
      have := formatType_np cfg gens k
      have := formatType_np cfg gens v
      simp only [formatType]; np_auto
    | .prim p => by simp only [formatType]; exact formatPrim_np p
  theorem formatTypes_np (cfg : Cfg) (gens : List Str) : ∀ ts : List RustType, NP (formatTypes cfg gens ts)
    | [] => by simp only [formatTypes]; np_auto
    | t :: ts => by
      have := formatType_np cfg gens t
      have := formatTypes_np cfg gens ts
      simp only [formatTypes]; np_auto
end

theorem paramFacts_np (cfg : Cfg) (gens : List Str) (a b : Bool) (f : RustField) :
    NP (paramFacts cfg gens a b f) := by
  have := formatType_np cfg gens
  unfold paramFacts; np_auto

theorem paramsFacts_np (cfg : Cfg) (gens : List Str) (a : Bool) : ∀ fs, NP (paramsFacts cfg gens a fs)
  | [] => by simp only [paramsFacts]; np_auto
  | f :: fs => by
    have := paramFacts_np cfg gens a false f
    have := paramsFacts_np cfg gens a fs
    simp only [paramsFacts]; np_auto

theorem caseFacts_np (cfg : Cfg) (e : RustEnum) (k : Str) (v : RustEnumVariant) : NP (caseFacts cfg e k v) := by
  have := formatType_np cfg e.genericTypes
  unfold caseFacts; np_auto

theorem casesFacts_np (cfg : Cfg) (e : RustEnum) (k : Str) : ∀ vs, NP (casesFacts cfg e k vs)
  | [] => by simp only [casesFacts]; np_auto
  | v :: vs => by
    have := caseFacts_np cfg e k v
    have := casesFacts_np cfg e k vs
    simp only [casesFacts]; np_auto

theorem structFacts_np (cfg : Cfg) (rs : RustStruct) : NP (structFacts cfg rs) := by
  have := paramsFacts_np cfg rs.genericTypes
  unfold structFacts; np_auto

theorem aliasFacts_np (cfg : Cfg) (a : RustTypeAlias) : NP (aliasFacts cfg a) := by
  have := paramFacts_np cfg []
  have := formatType_np cfg a.genericTypes
  unfold aliasFacts; np_auto

theorem structsFacts_np (cfg : Cfg) : ∀ ss, NP (structsFacts cfg ss)
  | [] => by simp only [structsFacts]; np_auto
  | s :: ss => by
    have := structFacts_np cfg s
    have := structsFacts_np cfg ss
    simp only [structsFacts]; np_auto

theorem enumFacts_np (cfg : Cfg) (e : RustEnum) : NP (enumFacts cfg e) := by
  have := structsFacts_np cfg
  have := casesFacts_np cfg e
  unfold enumFacts; np_auto

theorem itemFacts_np (cfg : Cfg) (it : RustItem) : NP (itemFacts cfg it) := by
  have := structFacts_np cfg
  have := enumFacts_np cfg
  have := aliasFacts_np cfg
  cases it <;> simp only [itemFacts] <;> np_auto

theorem itemsFacts_np (cfg : Cfg) : ∀ its, NP (itemsFacts cfg its)
  | [] => by simp only [itemsFacts]; np_auto
  | it :: its => by
    have := itemFacts_np cfg it
    have := itemsFacts_np cfg its
    simp only [itemsFacts]; np_auto

theorem generate_np (cfg : Cfg) (d : ParsedData) (imps : Option Pipeline.ScopedCrateTypes) :
    NP (generate cfg d imps) := by
  obtain ⟨out, ho, _⟩ := generateOrder_total d
  have := itemsFacts_np cfg
  simp only [generate, ho]; np_auto

theorem generateFrom_np (cfg : Cfg) : ∀ jobs, NP (generateFrom cfg jobs)
  | [] => by simp only [generateFrom]; np_auto
  | (c, d, imps) :: rest => by
    have := generate_np cfg d imps
    have := generateFrom_np cfg rest
    simp only [generateFrom]; np_auto

theorem generateAll_np (E : Ext) (cfg : Cfg) (multi : Bool) (jobs : List Job) :
    NP (generateAll E cfg multi jobs) := generateFrom_np cfg jobs

end Kotlin

/-! ## Scala -/
namespace Scala
open TsV TsV.Outcome TsV.Lang TsV.Lang.Scala

mutual
  theorem formatType_np (cfg : Cfg) (gens : List Str) : ∀ t : RustType, NP (formatType cfg gens t)
    | .simple id => by simp only [formatType]; np_auto
    | .generic id ps => by
      have := formatTypes_np cfg gens ps
      simp only [formatType]; np_auto
    | .vec r => by have := formatType_np cfg gens r; simp only [formatType]; np_auto
    | .array r _ => by have := formatType_np cfg gens r; simp only [formatType]; np_auto
    | .slice r => by have := formatType_np cfg gens r; simp only [formatType]; np_auto
    | .option r => by have := formatType_np cfg gens r; simp only [formatType]; np_auto
    | .hashMap k v => by
      have := formatType_np cfg gens k
      have := formatType_np cfg gens v
      simp only [formatType]; np_auto
    | .prim p => by cases p <;> simp only [formatType] <;> np_auto
  theorem formatTypes_np (cfg : Cfg) (gens : List Str) : ∀ ts : List RustType, NP (formatTypes cfg gens ts)
    | [] => by simp only [formatTypes]; np_auto
    | t :: ts => by
      have := formatType_np cfg gens t
      have := formatTypes_np cfg gens ts
      simp only [formatTypes]; np_auto
end

theorem paramFacts_np (cfg : Cfg) (gens : List Str) (f : RustField) : NP (paramFacts cfg gens f) := by
  have := formatType_np cfg gens
  unfold paramFacts; np_auto

theorem classFacts_np (cfg : Cfg) (rs : RustStruct) : NP (classFacts cfg rs) := by
  have := mapM'_np _ (paramFacts_np cfg rs.genericTypes)
  unfold classFacts; np_auto

theorem aliasFacts_np (cfg : Cfg) (a : RustTypeAlias) : NP (aliasFacts cfg a) := by
  have := formatType_np cfg a.genericTypes
  unfold aliasFacts; np_auto

theorem caseFacts_np (cfg : Cfg) (e : RustEnum) (v : RustEnumVariant) : NP (caseFacts cfg e v) := by
  have := formatType_np cfg e.genericTypes
  unfold caseFacts; np_auto

theorem innerClasses_np (cfg : Cfg) (e : RustEnum) : NP (innerClasses cfg e) := by
  unfold innerClasses
  exact mapM'_np _ (fun _ => classFacts_np cfg _) _

theorem enumFacts_np (cfg : Cfg) (e : RustEnum) : NP (enumFacts cfg e) := by
  have := innerClasses_np cfg e
  have := mapM'_np _ (caseFacts_np cfg e)
  unfold enumFacts; np_auto

theorem fileFacts_np (cfg : Cfg) (d : ParsedData) : NP (fileFacts cfg d) := by
  have := mapM'_np _ (aliasFacts_np cfg)
  have := mapM'_np _ (classFacts_np cfg)
  have := mapM'_np _ (enumFacts_np cfg)
  unfold fileFacts; np_auto

theorem generate_np (cfg : Cfg) (d : ParsedData) : NP (generate cfg d) := by
  have := fileFacts_np cfg d
  unfold generate; np_auto

theorem generateFrom_np (cfg : Cfg) : ∀ jobs, NP (generateFrom cfg jobs)
  | [] => by simp only [generateFrom]; np_auto
  | (c, d, imps) :: rest => by
    have := generate_np cfg d
    have := generateFrom_np cfg rest
    simp only [generateFrom]; np_auto

theorem generateAll_np (E : Ext) (cfg : Cfg) (multi : Bool) (jobs : List Job) :
    NP (generateAll E cfg multi jobs) := generateFrom_np cfg jobs

end Scala

/-! ## Swift -/
namespace Swift
open TsV TsV.Outcome TsV.Lang TsV.Lang.Swift

mutual
  theorem formatType_np (cfg : Cfg) (gens : List Str) : ∀ (t : RustType) (st : St), NP (formatType cfg gens t st)
    | .simple id, st => by simp only [formatType]; np_auto
    | .generic id ps, st => by
      have := formatTypes_np cfg gens ps
      simp only [formatType]; np_auto
    | .vec r, st => by have := formatType_np cfg gens r; simp only [formatType]; np_auto
    | .array r _, st => by have := formatType_np cfg gens r; simp only [formatType]; np_auto
    | .slice r, st => by have := formatType_np cfg gens r; simp only [formatType]; np_auto
    | .option r, st => by have := formatType_np cfg gens r; simp only [formatType]; np_auto
    | .hashMap k v, st => by
      have := formatType_np cfg gens k
      have := formatType_np cfg gens v
      simp only [formatType]; np_auto
    | .prim p, st => by cases p <;> simp only [formatType] <;> np_auto
  theorem formatTypes_np (cfg : Cfg) (gens : List Str) : ∀ (ts : List RustType) (st : St),
      NP (formatTypes cfg gens ts st)
    | [], st => by simp only [formatTypes]; np_auto
    | t :: ts, st => by
      have := formatType_np cfg gens t
      have := formatTypes_np cfg gens ts
      simp only [formatTypes]; np_auto
end

theorem fieldType_np (cfg : Cfg) (gens : List Str) (f : RustField) (st : St) : NP (fieldType cfg gens f st) := by
  have := formatType_np cfg gens
  unfold fieldType; np_auto

theorem storedProps_np (cfg : Cfg) (gens : List Str) : ∀ fs st, NP (storedProps cfg gens fs st)
  | [], st => by simp only [storedProps]; np_auto
  | f :: fs, st => by
    have := fieldType_np cfg gens f
    have := storedProps_np cfg gens fs
    simp only [storedProps]; np_auto

theorem initParams_np (cfg : Cfg) (gens : List Str) : ∀ fs st, NP (initParams cfg gens fs st)
  | [], st => by simp only [initParams]; np_auto
  | f :: fs, st => by
    have := fieldType_np cfg gens f
    have := initParams_np cfg gens fs
    simp only [initParams]; np_auto

theorem structFacts_np (U : UnicodeOps) (cfg : Cfg) (rs : RustStruct) (st : St) : NP (structFacts U cfg rs st) := by
  have := storedProps_np cfg rs.genericTypes
  have := initParams_np cfg rs.genericTypes
  unfold structFacts; np_auto

theorem writeStruct_np (U : UnicodeOps) (cfg : Cfg) (rs : RustStruct) (st : St) : NP (writeStruct U cfg rs st) := by
  have := structFacts_np U cfg rs
  unfold writeStruct; np_auto

theorem writeAlias_np (U : UnicodeOps) (cfg : Cfg) (a : RustTypeAlias) (st : St) : NP (writeAlias U cfg a st) := by
  have := formatType_np cfg a.genericTypes
  unfold writeAlias; np_auto

theorem algebraicCase_np (U : UnicodeOps) (cfg : Cfg) (e : RustEnum) (v : RustEnumVariant) (st : St) :
    NP (algebraicCase U cfg e v st) := by
  have := formatType_np cfg e.genericTypes
  unfold algebraicCase; np_auto

theorem algebraicCases_np (U : UnicodeOps) (cfg : Cfg) (e : RustEnum) : ∀ vs st, NP (algebraicCases U cfg e vs st)
  | [], st => by simp only [algebraicCases]; np_auto
  | v :: vs, st => by
    have := algebraicCase_np U cfg e v
    have := algebraicCases_np U cfg e vs
    simp only [algebraicCases]; np_auto

theorem anonymousStructs_np (U : UnicodeOps) (cfg : Cfg) (e : RustEnum) : ∀ ps st, NP (anonymousStructs U cfg e ps st)
  | [], st => by simp only [anonymousStructs]; np_auto
  | (id, fields) :: rest, st => by
    have := structFacts_np U cfg
    have := anonymousStructs_np U cfg e rest
    simp only [anonymousStructs]; np_auto

theorem enumFacts_np (U : UnicodeOps) (cfg : Cfg) (e : RustEnum) (st : St) : NP (enumFacts U cfg e st) := by
  have := anonymousStructs_np U cfg e
  have := algebraicCases_np U cfg e
  unfold enumFacts; np_auto

theorem writeEnum_np (U : UnicodeOps) (cfg : Cfg) (e : RustEnum) (st : St) : NP (writeEnum U cfg e st) := by
  have := enumFacts_np U cfg e
  unfold writeEnum; np_auto

theorem writeItem_np (U : UnicodeOps) (cfg : Cfg) (it : RustItem) (st : St) : NP (writeItem U cfg it st) := by
  have := writeStruct_np U cfg
  have := writeEnum_np U cfg
  have := writeAlias_np U cfg
  cases it <;> simp only [writeItem] <;> np_auto

theorem writeItems_np (U : UnicodeOps) (cfg : Cfg) : ∀ its st, NP (writeItems U cfg its st)
  | [], st => by simp only [writeItems]; np_auto
  | it :: its, st => by
    have := writeItem_np U cfg it
    have := writeItems_np U cfg its
    simp only [writeItems]; np_auto

theorem generate_np (U : UnicodeOps) (cfg : Cfg) (multi : Bool) (d : ParsedData) (st : St) :
    NP (generate U cfg multi d st) := by
  obtain ⟨out, ho, _⟩ := generateOrder_total d
  have := writeItems_np U cfg
  simp only [generate, ho]; np_auto

theorem generateFrom_np (U : UnicodeOps) (cfg : Cfg) (multi : Bool) : ∀ jobs st, NP (generateFrom U cfg multi jobs st)
  | [], st => by simp only [generateFrom]; np_auto
  | (c, d, imps) :: rest, st => by
    have := generate_np U cfg multi d
    have := generateFrom_np U cfg multi rest
    simp only [generateFrom]; np_auto

theorem generateAll_np (E : Ext) (cfg : Cfg) (multi : Bool) (jobs : List Job) :
    NP (generateAll E cfg multi jobs) := by
  have := generateFrom_np E.U cfg multi jobs
  unfold generateAll; np_auto

end Swift

/-! ## TypeScript -/
namespace TypeScript
open TsV TsV.Outcome TsV.Lang TsV.Lang.TypeScript

theorem special_np (cfg : Cfg) (gens : List Str) (t : RustType) (st : CustomMap)
    (k : CustomMap → Outcome (Str × CustomMap)) (hk : ∀ st, NP (k st)) : NP (special cfg gens t st k) := by
  unfold special; np_auto

mutual
  /-- the only panic of `format_type` (typescript.rs:137) needs a 64-bit primitive -/
  theorem formatType_np (cfg : Cfg) (gens : List Str) : ∀ (t : RustType) (st : CustomMap),
      no64 t = true → NP (formatType cfg gens t st)
    | .simple id, st, _ => by simp only [formatType]; np_auto
    | .generic id ps, st, h => by
      have := formatTypes_np cfg gens ps st (by simpa [no64] using h)
      simp only [formatType]; np_auto
    | .vec r, st, h => by
      have := fun st => formatType_np cfg gens r st (by simpa [no64] using h)
      simp only [formatType]; apply special_np; np_auto
    | .array r _, st, h => by
      have := fun st => formatType_np cfg gens r st (by simpa [no64] using h)
      simp only [formatType]; apply special_np; np_auto
    | .slice r, st, h => by
      have := fun st => formatType_np cfg gens r st (by simpa [no64] using h)
      simp only [formatType]; apply special_np; np_auto
    | .option r, st, h => by
      have := fun st => formatType_np cfg gens r st (by simpa [no64] using h)
      simp only [formatType]; apply special_np; np_auto
    | .hashMap k v, st, h => by
      have h' : no64 k = true ∧ no64 v = true := by simpa [no64] using h
      have := fun st => formatType_np cfg gens k st h'.1
      have := fun st => formatType_np cfg gens v st h'.2
      simp only [formatType]; apply special_np; np_auto
    | .prim p, st, h => by
      simp only [formatType]; apply special_np
      cases p <;> simp [no64, Prim.is64] at h <;> np_auto
  theorem formatTypes_np (cfg : Cfg) (gens : List Str) : ∀ (ts : List RustType) (st : CustomMap),
      no64List ts = true → NP (formatTypes cfg gens ts st)
    | [], st, _ => by simp only [formatTypes]; np_auto
    | t :: ts, st, h => by
      have h' : no64 t = true ∧ no64List ts = true := by simpa [no64List] using h
      have := fun st => formatType_np cfg gens t st h'.1
      have := fun st => formatTypes_np cfg gens ts st h'.2
      simp only [formatTypes]; np_auto
end

theorem fieldFacts_np (cfg : Cfg) (gens : List Str) (f : RustField) (st : CustomMap) (h : no64 f.ty = true) :
    NP (fieldFacts cfg gens f st) := by
  have := fun st => formatType_np cfg gens f.ty st h
  unfold fieldFacts; np_auto

theorem writeFields_np (cfg : Cfg) (gens : List Str) : ∀ (fs : List RustField) (st : CustomMap),
    fs.all (fun f => no64 f.ty) = true → NP (writeFields cfg gens fs st)
  | [], st, _ => by simp only [writeFields]; np_auto
  | f :: fs, st, h => by
    have h' : no64 f.ty = true ∧ fs.all (fun f => no64 f.ty) = true := by simpa using h
    have := fun st => fieldFacts_np cfg gens f st h'.1
    have := fun st => writeFields_np cfg gens fs st h'.2
    simp only [writeFields]; np_auto

theorem writeStruct_np (cfg : Cfg) (rs : RustStruct) (st : CustomMap)
    (h : rs.fields.all (fun f => no64 f.ty) = true) : NP (writeStruct cfg rs st) := by
  have := fun st => writeFields_np cfg rs.genericTypes rs.fields st h
  unfold writeStruct; np_auto

theorem writeAlias_np (cfg : Cfg) (a : RustTypeAlias) (st : CustomMap) (h : no64 a.ty = true) :
    NP (writeAlias cfg a st) := by
  have := fun st => formatType_np cfg a.genericTypes a.ty st h
  unfold writeAlias; np_auto

theorem writeConst_np (U : UnicodeOps) (cfg : Cfg) (c : RustConst) (st : CustomMap) (h : no64 c.ty = true) :
    NP (writeConst U cfg c st) := by
  have := fun st => formatType_np cfg [] c.ty st h
  unfold writeConst; np_auto

theorem writeVariant_np (cfg : Cfg) (e : RustEnum) (tag content : Str) (v : RustEnumVariant) (st : CustomMap)
    (h : variantNo64 v = true) : NP (writeVariant cfg e tag content v st) := by
  cases v with
  | unit i c => simp only [writeVariant]; np_auto
  | tuple i c ty =>
    have := fun st => formatType_np cfg e.genericTypes ty st h
    simp only [writeVariant]; np_auto
  | anonymousStruct i c fs =>
    have := fun st => writeFields_np cfg e.genericTypes fs st h
    simp only [writeVariant]; np_auto

theorem writeVariants_np (cfg : Cfg) (e : RustEnum) (tag content : Str) : ∀ (vs : List RustEnumVariant)
    (st : CustomMap), vs.all variantNo64 = true → NP (writeVariants cfg e tag content vs st)
  | [], st, _ => by simp only [writeVariants]; np_auto
  | v :: vs, st, h => by
    have h' : variantNo64 v = true ∧ vs.all variantNo64 = true := by simpa using h
    have := fun st => writeVariant_np cfg e tag content v st h'.1
    have := fun st => writeVariants_np cfg e tag content vs st h'.2
    simp only [writeVariants]; np_auto

theorem writeEnum_np (cfg : Cfg) (e : RustEnum) (st : CustomMap) (h : e.variants.all variantNo64 = true) :
    NP (writeEnum cfg e st) := by
  have := fun tag content st => writeVariants_np cfg e tag content e.variants st h
  unfold writeEnum; np_auto

theorem writeItem_np (U : UnicodeOps) (cfg : Cfg) (it : RustItem) (st : CustomMap) (h : itemNo64 it = true) :
    NP (writeItem U cfg it st) := by
  cases it with
  | struct s => exact writeStruct_np cfg s st h
  | enum e => exact writeEnum_np cfg e st h
  | alias a => exact writeAlias_np cfg a st h
  | const c => exact writeConst_np U cfg c st h

theorem writeItems_np (U : UnicodeOps) (cfg : Cfg) : ∀ (its : List RustItem) (st : CustomMap),
    (∀ it ∈ its, itemNo64 it = true) → NP (writeItems U cfg its st)
  | [], st, _ => by simp only [writeItems]; np_auto
  | it :: its, st, h => by
    have := fun st => writeItem_np U cfg it st (h it (by simp))
    have := fun st => writeItems_np U cfg its st (fun x hx => h x (by simp [hx]))
    simp only [writeItems]; np_auto

theorem generate_np (U : UnicodeOps) (cfg : Cfg) (d : ParsedData) (imps : Option Pipeline.ScopedCrateTypes)
    (st : CustomMap) (h : dataNo64 d = true) : NP (generate U cfg d imps st) := by
  obtain ⟨out, ho, _⟩ := generateOrder_total d
  have := fun st => writeItems_np U cfg out st (order_no64 h ho)
  simp only [generate, ho]; np_auto

theorem generateFrom_np (U : UnicodeOps) (cfg : Cfg) : ∀ (jobs : List Job) (st : CustomMap),
    jobsNo64 jobs = true → NP (generateFrom U cfg jobs st)
  | [], st, _ => by simp only [generateFrom]; np_auto
  | (c, d, imps) :: rest, st, h => by
    have h' : dataNo64 d = true ∧ jobsNo64 rest = true := by simpa [jobsNo64] using h
    have := fun st => generate_np U cfg d imps st h'.1
    have := fun st => generateFrom_np U cfg rest st h'.2
    simp only [generateFrom]; np_auto

theorem generateAll_np (E : Ext) (cfg : Cfg) (multi : Bool) (jobs : List Job) (h : jobsNo64 jobs = true) :
    NP (generateAll E cfg multi jobs) := generateFrom_np E.U cfg jobs [] h

end TypeScript

/-! ## Python -/
namespace Python
open TsV TsV.Outcome TsV.Lang TsV.Lang.Python

theorem special_np (cfg : Cfg) (t : RustType) (st : St) (k : St → Outcome (Str × St))
    (hk : ∀ st, NP (k st)) : NP (special cfg t st k) := by
  unfold special; np_auto

mutual
  theorem formatType_np (cfg : Cfg) (gens : List Str) : ∀ (t : RustType) (st : St), NP (formatType cfg gens t st)
    | .simple id, st => by simp only [formatType]; np_auto
    | .generic id ps, st => by
      have := formatTypes_np cfg gens ps
      simp only [formatType]; np_auto
    | .vec r, st => by
      have := formatType_np cfg gens r
      simp only [formatType]; apply special_np; np_auto
    | .array r _, st => by
      have := formatType_np cfg gens r
      simp only [formatType]; apply special_np; np_auto
    | .slice r, st => by
      have := formatType_np cfg gens r
      simp only [formatType]; apply special_np; np_auto
    | .option r, st => by
      have := formatType_np cfg gens r
      simp only [formatType]; apply special_np; np_auto
    | .hashMap k v, st => by
      have := formatType_np cfg gens k
      have := formatType_np cfg gens v
      simp only [formatType]; apply special_np; np_auto
    | .prim p, st => by
      simp only [formatType]; apply special_np
      cases p <;> np_auto
  theorem formatTypes_np (cfg : Cfg) (gens : List Str) : ∀ (ts : List RustType) (st : St),
      NP (formatTypes cfg gens ts st)
    | [], st => by simp only [formatTypes]; np_auto
    | t :: ts, st => by
      have := formatType_np cfg gens t
      have := formatTypes_np cfg gens ts
      simp only [formatTypes]; np_auto
end

theorem fieldFacts_np (E : Ext) (cfg : Cfg) (gens : List Str) (f : RustField) (st : St) :
    NP (fieldFacts E cfg gens f st) := by
  have := formatType_np cfg gens
  unfold fieldFacts; np_auto

theorem fieldsFacts_np (E : Ext) (cfg : Cfg) (gens : List Str) : ∀ fs st, NP (fieldsFacts E cfg gens fs st)
  | [], st => by simp only [fieldsFacts]; np_auto
  | f :: fs, st => by
    have := fieldFacts_np E cfg gens f
    have := fieldsFacts_np E cfg gens fs
    simp only [fieldsFacts]; np_auto

theorem structFacts_np (E : Ext) (cfg : Cfg) (rs : RustStruct) (st : St) : NP (structFacts E cfg rs st) := by
  have := fieldsFacts_np E cfg rs.genericTypes rs.fields
  unfold structFacts; np_auto

theorem writeStruct_np (E : Ext) (cfg : Cfg) (rs : RustStruct) (st : St) : NP (writeStruct E cfg rs st) := by
  have := structFacts_np E cfg rs
  unfold writeStruct; np_auto

theorem aliasFacts_np (cfg : Cfg) (a : RustTypeAlias) (st : St) : NP (aliasFacts cfg a st) := by
  have := formatType_np cfg a.genericTypes
  unfold aliasFacts; np_auto

theorem constFacts_np (E : Ext) (cfg : Cfg) (c : RustConst) (st : St) : NP (constFacts E cfg c st) := by
  have := formatType_np cfg []
  unfold constFacts; np_auto

/-- python.rs:368 (`unreachable!()`) needs a non-unit variant -/
theorem unitMembers_np (E : Ext) : ∀ vs : List RustEnumVariant, vs.all Parser.variantIsUnit = true →
    NP (unitMembers E vs)
  | [], _ => by simp only [unitMembers]; np_auto
  | .unit id cs :: vs, h => by
    have := unitMembers_np E vs (by simpa [Parser.variantIsUnit] using h)
    simp only [unitMembers]; np_auto
  | .tuple _ _ _ :: vs, h => by simp [Parser.variantIsUnit] at h
  | .anonymousStruct _ _ _ :: vs, h => by simp [Parser.variantIsUnit] at h

theorem innerFacts_np (E : Ext) (cfg : Cfg) (e : RustEnum) : ∀ ps st, NP (innerFacts E cfg e ps st)
  | [], st => by simp only [innerFacts]; np_auto
  | (id, fs) :: rest, st => by
    have := structFacts_np E cfg
    have := innerFacts_np E cfg e rest
    simp only [innerFacts]; np_auto

theorem variantFacts_np (E : Ext) (cfg : Cfg) (e : RustEnum) (tag content : Str) (v : RustEnumVariant) (st : St) :
    NP (variantFacts E cfg e tag content v st) := by
  have := formatType_np cfg e.genericTypes
  unfold variantFacts; np_auto

theorem variantsFacts_np (E : Ext) (cfg : Cfg) (e : RustEnum) (tag content : Str) :
    ∀ vs st, NP (variantsFacts E cfg e tag content vs st)
  | [], st => by simp only [variantsFacts]; np_auto
  | v :: vs, st => by
    have := variantFacts_np E cfg e tag content v
    have := variantsFacts_np E cfg e tag content vs
    simp only [variantsFacts]; np_auto

theorem unionFacts_np (E : Ext) (cfg : Cfg) (e : RustEnum) (tag content : Str) (st : St) :
    NP (unionFacts E cfg e tag content st) := by
  have := innerFacts_np E cfg e
  have := variantsFacts_np E cfg e tag content
  unfold unionFacts; np_auto

theorem writeEnum_np (E : Ext) (cfg : Cfg) (e : RustEnum) (st : St) (h : enumUnitOk e = true) :
    NP (writeEnum E cfg e st) := by
  have := innerFacts_np E cfg e
  have := unionFacts_np E cfg e
  unfold writeEnum
  unfold enumUnitOk at h
  split
  · rename_i hk
    rw [hk] at h
    have := unitMembers_np E e.variants h
    np_auto
  · np_auto

theorem writeItem_np (E : Ext) (cfg : Cfg) (it : RustItem) (st : St) (h : itemUnitOk it = true) :
    NP (writeItem E cfg it st) := by
  have := writeStruct_np E cfg
  have := aliasFacts_np cfg
  have := constFacts_np E cfg
  cases it with
  | enum e => exact writeEnum_np E cfg e st h
  | struct s => simp only [writeItem]; np_auto
  | alias a => simp only [writeItem]; np_auto
  | const c => simp only [writeItem]; np_auto

theorem writeItems_np (E : Ext) (cfg : Cfg) : ∀ (its : List RustItem) (st : St),
    (∀ it ∈ its, itemUnitOk it = true) → NP (writeItems E cfg its st)
  | [], st, _ => by simp only [writeItems]; np_auto
  | it :: its, st, h => by
    have := fun st => writeItem_np E cfg it st (h it (by simp))
    have := fun st => writeItems_np E cfg its st (fun x hx => h x (by simp [hx]))
    simp only [writeItems]; np_auto

theorem generate_np (E : Ext) (cfg : Cfg) (d : ParsedData) (st : St) (h : dataUnitOk d = true) :
    NP (generate E cfg d st) := by
  obtain ⟨out, ho, _⟩ := generateOrder_total d
  have := fun st => writeItems_np E cfg out st (order_unitOk h ho)
  simp only [generate, ho]; np_auto

theorem generateFrom_np (E : Ext) (cfg : Cfg) : ∀ (jobs : List Job) (st : St),
    jobsUnitOk jobs = true → NP (generateFrom E cfg jobs st)
  | [], st, _ => by simp only [generateFrom]; np_auto
  | (c, d, imps) :: rest, st, h => by
    have h' : dataUnitOk d = true ∧ jobsUnitOk rest = true := by simpa [jobsUnitOk] using h
    have := fun st => generate_np E cfg d st h'.1
    have := fun st => generateFrom_np E cfg rest st h'.2
    simp only [generateFrom]; np_auto

theorem generateAll_np (E : Ext) (cfg : Cfg) (multi : Bool) (jobs : List Job) (h : jobsUnitOk jobs = true) :
    NP (generateAll E cfg multi jobs) := generateFrom_np E cfg jobs {} h

end Python

end TsV.C07BE
