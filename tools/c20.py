"""C20 — CLI options override typeshare.toml; generated config files round-trip (cli/src/config.rs, main.rs)."""
import errno, itertools, os, re, stat, subprocess, threading, time, tomllib
from common import *
import l2

NEEDS = ("cli", "runner")

# option name, CLI flag, (toml section, key), index in the model's shared record, language that shows it
OPTS = [("swift-prefix", "--swift-prefix", ("swift", "prefix"), 0, "swift"),
        ("kotlin-prefix", "--kotlin-prefix", ("kotlin", "prefix"), 1, "kotlin"),
        ("java-package", "--java-package", ("kotlin", "package"), 2, "kotlin"),
        ("kotlin-module", "--module-name", ("kotlin", "module_name"), 3, None),
        ("scala-package", "--scala-package", ("scala", "package"), 4, "scala"),
        ("scala-module", "--scala-module-name", ("scala", "module_name"), 5, None),
        ("go-package", "--go-package", ("go", "package"), 6, "go")]
SRC = "#[typeshare]\npub struct Foo {\n    pub a: Bar,\n    pub url: Url,\n    pub id: u8,\n}\n\n#[typeshare]\npub struct Bar {\n    pub b: Vec<u8>,\n    pub labels: HashMap<String, String>,\n    pub opt: Option<String>,\n}\n"


# identifiers that contain the acronym spellings used by the file-only part
SRC_ACR = SRC + "\n#[typeshare]\npub struct OAuthClient {\n    pub oauth_scope: String,\n    pub client_id: u8,\n    pub ipv6_addr: String,\n    pub mac_os_api: Url,\n    pub unit: Option<()>,\n}\n"


# generic items, with and without constraints of their own, for the Swift file-only settings
SRC_GEN = SRC + ("\n#[typeshare(swiftGenericConstraints = \"T: Equatable & Hashable\")]\npub struct Annotated<T, U> {\n    pub t: T,\n    pub u: U,\n}\n"
                 "\n#[typeshare(swiftGenericConstraints = \"K: Comparable\")]\n#[serde(tag = \"t\", content = \"c\")]\npub enum Choice<K> {\n    One(K),\n    Two { k: K },\n}\n"
                 "\n#[typeshare]\npub struct PlainGeneric<V> {\n    pub v: V,\n}\n")


def toml_text(shared, tables):
    """shared: {(section,key): value}; tables: {section: {key: value}} of file-only settings"""
    secs = {}
    for (sec, key), v in shared.items():
        secs.setdefault(sec, {})[key] = v
    for sec, kv in tables.items():
        secs.setdefault(sec, {}).update(kv)

    def val(v):
        if isinstance(v, bool):
            return "true" if v else "false"
        if isinstance(v, str):
            return json.dumps(v)
        if isinstance(v, list):
            return "[" + ", ".join(json.dumps(x) for x in v) + "]"
        raise TypeError(v)
    out = []
    for sec, kv in secs.items():
        plain = {k: v for k, v in kv.items() if not isinstance(v, dict)}
        out.append("[%s]" % sec)
        for k, v in plain.items():
            out.append("%s = %s" % (k, val(v)))
        for k, v in kv.items():
            if isinstance(v, dict):
                out.append("[%s.%s]" % (sec, k))
                for kk, vv in v.items():
                    out.append("%s = %s" % (json.dumps(kk), val(vv)))
        out.append("")
    return "\n".join(out)


def observe(lang, text):
    """what the generated code shows of the effective settings"""
    if lang == "swift":
        m = re.search(r"public struct (\w*)Foo\b", text)
        return {"swift-prefix": m.group(1) if m else None}
    if lang == "kotlin":
        m = re.search(r"data class (\w*)Foo\b", text)
        p = re.search(r"^package (\S+)", text, re.M)
        return {"kotlin-prefix": m.group(1) if m else None, "java-package": p.group(1) if p else ""}
    if lang == "scala":
        p = re.search(r"^package (\S+)", text, re.M)
        return {"scala-package-parent": p.group(1) if p else ""}
    if lang == "go":
        p = re.search(r"^package (\S+)", text, re.M)
        return {"go-package": p.group(1) if p else ""}
    return {}


def run(check):
    rng = check.rng
    check.rule = ("for each of the 7 settings that exist both as an option and in typeshare.toml: the 2x2 matrix {option absent, "
                  "present} x {key absent, present}, config found by -c and by ancestor-directory search, observed in generated "
                  "code (prefix, package line) for the language that shows it and in the TOML written by -g; random file-only "
                  "tables (type_mappings, default_decorators, generic constraints, uppercase_acronyms, no_pointer_slice) observed "
                  "in generated code; the kind of file-system object the configuration path is (regular, `..` / relative path, hard / "
                  "symbolic links, FIFO, /dev/stdin, inherited pipe; missing, dangling, directory, loop) x language x settings x "
                  "option x shape of the text, judged against the run with the same text in a regular file; -g never overwrites "
                  "(also onto links, directories, FIFOs); the written file reloads to the same output; what else lies along the "
                  "ancestor chain between the working directory and the typeshare.toml that is to be found (`.git` directory / file, "
                  "Cargo.toml, .hg, .typeshare, typeshare.toml as a directory, look-alike names, an empty typeshare.toml closer by, "
                  "$HOME) x 1-6 levels x kind of working directory (plain, through symbolic links, `.` / `..` components) x where the "
                  "input lies x language x settings x option: the nearest regular typeshare.toml decides, alone; the options of the *other* languages added to the command line (each alone, "
                  "all together, before / after the language's own option, `--opt v` / `--opt=v` / `-x v` / `-xv` / `-x=v`, empty values) x "
                  "language x {own option absent, present} x {key absent, present} x {-c, ancestor search}, the refused cells (Go / Scala "
                  "without a package) included: same exit status and same bytes as the run without them; non-trivial = at "
                  "least one of option / key is present")
    cases = []
    for name, flag, (sec, key), idx, lang in OPTS:
        for cli_present, file_present, discover in itertools.product([False, True], [False, True], ["-c", "ancestor"]):
            # value kinds: ordinary words; the empty string given explicitly (an option / key that is present but empty is
            # still present); the option repeating the file's value
            kinds = [("word", "word")]
            if cli_present:
                kinds.append(("empty", "word"))
            if file_present:
                kinds.append(("word", "empty"))
            if cli_present and file_present:
                kinds.append(("same", "word"))
            for vk in kinds:
                cases.append((name, flag, sec, key, idx, lang, cli_present, file_present, discover, vk))
    reps = 3 if check.thorough else 1
    for rep in range(reps):
        for (name, flag, sec, key, idx, lang, cli_present, file_present, discover, vk) in cases:
            cli_val = "Cli%d" % rng.randint(0, 99) if "package" not in name else "com.cli%d.pk" % rng.randint(0, 99)
            file_val = "File%d" % rng.randint(0, 99) if "package" not in name else "org.file%d.pk" % rng.randint(0, 99)
            if vk[0] == "empty":
                cli_val = ""
            if vk[1] == "empty":
                file_val = ""
            if vk[0] == "same":
                cli_val = file_val
            shared = {(sec, key): file_val} if file_present else {}
            # the other settings the languages need to run at all live in the file too
            tables = {"typescript": {"type_mappings": {"Url": "string"}}}
            with Scratch() as sc:
                sc.write("ws/proj/src/lib.rs", SRC)
                have_file = file_present or rng.random() < 0.5
                cfg_path = "ws/typeshare.toml"
                if have_file and discover == "-c":
                    # the explicitly named file lives elsewhere; a different typeshare.toml is discoverable from the working
                    # directory: -c must win over discovery
                    cfg_path = "cfg/explicit.toml"
                    decoy = {(sec, key): ("Decoy%d" % rng.randint(0, 99) if "package" not in name else "net.decoy%d.pk" % rng.randint(0, 99))}
                    sc.write("ws/typeshare.toml", toml_text(decoy, {"typescript": {"type_mappings": {"Url": "DecoyUrl"}}}))
                    check.count("explicit -c next to a discoverable typeshare.toml")
                if have_file and discover == "ancestor":
                    # a second typeshare.toml farther up the ancestor chain: the nearest one must win
                    far = {(sec, key): ("Far%d" % rng.randint(0, 99) if "package" not in name else "net.far%d.pk" % rng.randint(0, 99))}
                    sc.write("typeshare.toml", toml_text(far, {"typescript": {"type_mappings": {"Url": "FarUrl"}}}))
                    check.count("two typeshare.toml files on the ancestor chain")
                if have_file:
                    sc.write(cfg_path, toml_text(shared, tables))
                langs = [lang] if lang else ["typescript"]
                for L in langs:
                    args = ["--lang", L, "-o", sc.path("out." + EXT[L])]
                    if cli_present:
                        args += [flag, cli_val]
                    extra = []
                    if L == "go" and name != "go-package":
                        extra = ["--go-package", "proto"]
                    if L == "scala" and name != "scala-package":
                        extra = ["--scala-package", "com.example"]
                    cwd = sc.path("ws/proj")
                    if discover == "-c" and have_file:
                        args += ["-c", sc.path(cfg_path)]
                    r = run_cli(args + extra + [sc.path("ws/proj/src")], cwd=cwd)
                    file7 = [""] * 7
                    if file_present:
                        file7[idx] = file_val
                    cli7 = [None] * 7
                    if cli_present:
                        cli7[idx] = cli_val
                    if extra:
                        cli7[[o[1] for o in OPTS].index(extra[0])] = extra[1]
                    ma = model([[S("config"), file7 if have_file else None, cli7, L == "go"]], with_unicode=False)[0]
                    check.saw((name, cli_present, file_present, discover, vk, L, rep), nontrivial=cli_present or file_present)
                    check.count("%s cli=%s file=%s" % (name, int(cli_present), int(file_present)))
                    check.count("values option:%s key:%s" % (vk[0] if cli_present else "-", vk[1] if file_present else "-"))
                    want = cli_val if cli_present else file_val if file_present else ""
                    problem = None
                    if "err" in ma:
                        if r["rc"] == 0:
                            problem = "the run succeeds although no Go package is configured"
                    elif r["rc"] != 0:
                        # Scala without any package name cannot generate at all (a C07 finding, not a precedence matter)
                        if not (L == "scala" and ma["ok"][4] == ""):
                            problem = "exit status %s: %s" % (r["rc"], r["err"][-300:])
                    else:
                        text = open(sc.path("out." + EXT[L]), encoding="utf-8").read()
                        obs = observe(L, text)
                        eff = ma["ok"][idx]
                        shown = {"swift-prefix": eff, "kotlin-prefix": eff, "java-package": eff, "go-package": eff,
                                 "scala-package-parent": eff.rsplit(".", 1)[0] if "." in eff else ""}
                        k = name if name != "scala-package" else "scala-package-parent"
                        if lang and k in obs and obs[k] != shown[k]:
                            problem = "generated %s code shows %s = %r, effective setting is %r" % (L, k, obs[k], shown[k])
                        if eff != want:
                            problem = "model: effective %r, precedence rule gives %r" % (eff, want)
                    if problem:
                        check.violation("%s (option %s, key %s, found by %s): %s" % (name, "given" if cli_present else "absent",
                                        "present" if file_present else "absent", discover, problem),
                                        case={"option": name, "cli": cli_val if cli_present else None,
                                              "file": file_val if file_present else None, "lang": L, "discover": discover},
                                        impl={"rc": r["rc"], "stderr": r["err"][-500:]}, model=ma, failing_input=True)
                        return
    file_only(check)
    generate_config(check)
    if not check.has_failing():
        existing_output(check)
    if not check.has_failing():
        folder_mode_part(check)
    if not check.has_failing():
        folder_mappings_part(check)
    if not check.has_failing():
        config_object_kind_part(check)
    if not check.has_failing():
        generate_onto_object_part(check)
    if not check.has_failing():
        ancestor_chain_part(check)
    if not check.has_failing():
        foreign_options_part(check)
    check.exhaustive = True
    check.extra["exhaustive_scope"] = "7 settings x {option absent, present} x {key absent, present} x {-c, ancestor search}"
    check.assumptions += ["TOML (de)serialisation by the `toml` crate and option parsing by `clap` are external; they are exercised through the real binary",
                          "kotlin/scala module_name are not used by any printer; they are observed only in the TOML written by -g"]


def existing_output(check):
    """the effective setting must show in the file the binary leaves behind also when the destination already holds the output
    of an earlier run made under the *other* source of the setting (typeshare.toml value vs an option of the same length)"""
    pairs = [("swift", "prefix", "--swift-prefix", "Toml", "Clap"), ("kotlin", "prefix", "--kotlin-prefix", "Fk", "Ok"),
             ("kotlin", "package", "--java-package", "com.file.pkg", "com.clap.pkg"), ("scala", "package", "--scala-package", "org.file.x", "org.clap.y"),
             ("go", "package", "--go-package", "filepkg", "clappkg")]
    for L, key, flag, file_val, cli_val in pairs:
        with Scratch() as sc:
            sc.write("ws/proj/src/lib.rs", SRC)
            sc.write("ws/typeshare.toml", toml_text({}, {L: {key: file_val}}))
            out = sc.path("ws/out." + EXT[L])
            base = ["--lang", L, "-o", out] + [a for a in lang_args(L) if not (L in ("kotlin", "scala", "go") and key == "package")]
            if key == "package":
                base = ["--lang", L, "-o", out]
            r1 = run_cli(base + [sc.path("ws/proj/src")], cwd=sc.path("ws/proj"))
            first = open(out, encoding="utf-8").read() if r1["rc"] == 0 and os.path.exists(out) else None
            r2 = run_cli(base + [flag, cli_val, sc.path("ws/proj/src")], cwd=sc.path("ws/proj"))
            second = open(out, encoding="utf-8").read() if r2["rc"] == 0 and os.path.exists(out) else None
            fresh = sc.path("ws/fresh." + EXT[L])
            r3 = run_cli(["--lang", L, "-o", fresh] + base[4:] + [flag, cli_val, sc.path("ws/proj/src")], cwd=sc.path("ws/proj"))
            third = open(fresh, encoding="utf-8").read() if r3["rc"] == 0 and os.path.exists(fresh) else None
            check.saw(("existing-output", L, key), nontrivial=True)
            check.count("existing-output")
            if first is None or third is None:
                continue
            if second != third or (file_val in (second or "") and file_val not in third):
                check.violation("%s: with typeshare.toml %s = %r an earlier run left its output in the destination; the run with %s %s "
                                "leaves %s, a fresh destination gets the option's value"
                                % (L, key, file_val, flag, cli_val, "the file's value in the output" if second and file_val in second else "something else"),
                                case={"lang": L, "key": key, "file": file_val, "option": [flag, cli_val]},
                                impl={"after_first_run": first[-1200:], "after_second_run": (second or "")[-1200:], "fresh": third[-1200:]},
                                failing_input=True)
                return


def folder_mode_part(check):
    """the effective package reaches every module of a folder run unchanged - the second and third crate's file like the first -
    whether it comes from the option or from typeshare.toml"""
    expect = {"kotlin": lambda pk, c: "package %s.%s" % (pk, c), "scala": lambda pk, c: "package %s" % pk.rsplit(".", 1)[0],
              "go": lambda pk, c: "package %s" % pk}
    for L, key, flag, val in (("kotlin", "package", "--java-package", "com.x"), ("scala", "package", "--scala-package", "org.y.z"),
                              ("go", "package", "--go-package", "gpk")):
        for source in ("option", "file"):
            with Scratch() as sc:
                for c in ("alpha", "beta", "gamma"):
                    sc.write("ws/%s/src/lib.rs" % c, "#[typeshare]\npub struct In%s { pub a: u8 }\n" % c.title())
                args = ["--lang", L, "-d", sc.path("out")]
                if source == "option":
                    args += [flag, val]
                else:
                    sc.write("ws/typeshare.toml", toml_text({}, {L: {key: val}}))
                r = run_cli(args + [sc.path("ws")], cwd=sc.path("ws"))
                outs = {fn: open(os.path.join(sc.path("out"), fn), encoding="utf-8").read() for fn in sorted(os.listdir(sc.path("out")))} \
                    if os.path.isdir(sc.path("out")) else {}
            check.saw(("folder-mode", L, source), nontrivial=True)
            check.count("folder-mode")
            for c in ("alpha", "beta", "gamma"):
                text = outs.get("%s.%s" % (c, EXT[L]), "")
                want = expect[L](val, c)
                if r["rc"] != 0 or not re.search(r"(?m)^%s$" % re.escape(want), text):
                    got = [l for l in text.split("\n") if l.startswith("package ")][:2]
                    check.violation("%s -d with %s %s = %r: the module of crate `%s` should carry `%s`, it has %s"
                                    % (L, source, key, val, c, want, got), case={"lang": L, "source_of_setting": source, "value": val, "crate": c},
                                    impl={"rc": r["rc"], "files": {k: v[:600] for k, v in outs.items()}}, failing_input=True)
                    return


def folder_mappings_part(check):
    """file-only settings are applied unchanged in folder mode too, and each language reads *its own* table: the type_mappings tables
    of the six languages have different key sets here (the language under test maps `Stamp`, all others map `Token`), the types are
    defined in one crate and used in another.  The binary's files equal what the back end writes in-process when it is handed the
    very table of its language (definitions, mapped names and import lines alike)"""
    A = "#[typeshare]\npub struct Stamp { pub at: u32 }\n#[typeshare]\npub struct Token { pub t: String }\n#[typeshare]\npub struct Plain { pub p: u8 }\n"
    B = ("use alpha::{Stamp, Token, Plain};\n#[typeshare]\npub struct Api { pub s: Stamp, pub t: Vec<Token>, pub p: Plain }\n"
         "#[typeshare]\npub type Tokens = HashMap<String, Token>;\n")
    for L in LANGS:
        for own, others in (("Stamp", "Token"), ("Token", "Stamp"), (None, "Token")):
            tables = {M: {"type_mappings": ({own: "Mapped" + own} if own else {}) if M == L else {others: "Other" + M.title()}} for M in LANGS}
            with Scratch() as sc:
                sc.write("ws/alpha/src/lib.rs", A)
                sc.write("ws/beta/src/lib.rs", B)
                sc.write("ws/typeshare.toml", toml_text({}, tables))
                r = run_cli(["--lang", L, "-d", sc.path("out")] + lang_args(L) + [sc.path("ws")], cwd=sc.path("ws"))
                outs = {fn: open(os.path.join(sc.path("out"), fn), encoding="utf-8").read() for fn in sorted(os.listdir(sc.path("out")))} \
                    if os.path.isdir(sc.path("out")) else {}
            check.saw(("folder-mappings", L, own, others), nontrivial=True)
            check.count("folder-mappings-" + L)
            cfg = dict(tables[L], version_header=True, prefix="", module_name="",
                       package={"go": "proto", "scala": "com.example", "kotlin": "com.example"}.get(L, ""))
            direct = runner([{"op": "generate", "lang": L, "config": cfg, "multi_file": True, "target_os": [],
                              "files": [{"src": A, "crate": "alpha", "file_name": "x", "path": "ws/alpha/src/lib.rs"},
                                        {"src": B, "crate": "beta", "file_name": "x", "path": "ws/beta/src/lib.rs"}]}])[0]
            case = {"lang": L, "toml": toml_text({}, tables), "sources": {"alpha/src/lib.rs": A, "beta/src/lib.rs": B}, "mode": "-d"}
            if "ok" not in direct:
                if r["rc"] == 0:
                    check.violation("%s -d: the binary succeeds where the back end, handed the file's own table, fails (%s)" % (L, direct),
                                    case=case, impl={"rc": r["rc"], "files": outs}, model=direct, failing_input=True)
                    return
                continue
            if r["rc"] != 0:
                check.violation("%s -d with per-language type_mappings tables: exit %s %s" % (L, r["rc"], r["err"][-300:]), case=case,
                                impl={"rc": r["rc"]}, model=direct, failing_input=True)
                return
            for crate, want in direct["ok"].items():
                if crate.startswith("<"):
                    continue
                got = [t for fn, t in outs.items() if fn.lower().startswith(crate.lower() + ".")]
                if len(got) != 1 or got[0] != want:
                    check.violation("%s -d: the module of crate `%s` written under a typeshare.toml whose [%s.type_mappings] maps %s and whose other "
                                    "languages' tables map %s differs from the back end run with exactly the %s table: %s"
                                    % (L, crate, L, own or "nothing", others, L, l2.text_diff(want, got[0] if got else "")),
                                    case=case, impl={"files": outs}, model=direct, failing_input=True)
                    return


# ----------------------------------------------------------------------------- what kind of file-system object the path is

def run_cli_fed(args, cwd, stdin_bytes=None, stdin_file=None, fifos=(), fd_pipe=None, timeout=20):
    """run the rebuilt binary with a configuration that is *served* rather than stored: `stdin_bytes` are written to a pipe that
    is the child's standard input, `stdin_file` is opened as its standard input, each (path, bytes) of `fifos` gets a writer that
    connects as soon as somebody opens the FIFO for reading (and never blocks when nobody does), `fd_pipe` bytes are written to an
    anonymous pipe whose read end the child inherits - the text `@FD@` in `args` is replaced by its number (what the shell's
    `<(cat typeshare.toml)` does).  Returns dict(rc, err, timed_out, served): `served` tells per writer how many bytes were taken."""
    e = dict(ENV)
    e["RUST_LOG"] = "info"
    e.pop("RUST_BACKTRACE", None)
    stop = threading.Event()
    served = {}
    threads = []
    close_after = []
    kw = {"stdin": subprocess.DEVNULL}
    pass_fds = ()
    if stdin_bytes is not None:
        kw["stdin"] = subprocess.PIPE
    elif stdin_file is not None:
        f = open(stdin_file, "rb")
        close_after.append(f)
        kw["stdin"] = f

    def write_all(fd, data, label):
        n = 0
        try:
            while n < len(data):
                n += os.write(fd, data[n:n + 65536])
        except OSError:
            pass                        # the reader went away (EPIPE): `served` says how far it got
        finally:
            served[label] = n
            os.close(fd)

    def fifo_writer(path, data):
        while not stop.is_set():
            try:
                fd = os.open(path, os.O_WRONLY | os.O_NONBLOCK)
            except OSError as ex:
                if ex.errno in (errno.ENXIO, errno.ENOENT):   # nobody has it open for reading (yet)
                    time.sleep(0.002)
                    continue
                served[path] = "open failed: %s" % ex
                return
            os.set_blocking(fd, True)
            write_all(fd, data, path)
            return
        served.setdefault(path, "never opened for reading")

    for path, data in fifos:
        t = threading.Thread(target=fifo_writer, args=(path, data), daemon=True)
        threads.append(t)
    if fd_pipe is not None:
        r, w = os.pipe()
        args = [a.replace("@FD@", str(r)) for a in args]
        pass_fds = (r,)
        threads.append(threading.Thread(target=write_all, args=(w, fd_pipe, "fd"), daemon=True))
    p = subprocess.Popen([CLI_BIN] + list(args), cwd=cwd, env=e, stdout=subprocess.PIPE, stderr=subprocess.PIPE,
                         pass_fds=pass_fds, **kw)
    if fd_pipe is not None:
        os.close(r)                     # only the child holds the read end now: a writer never outlives it
    for t in threads:
        t.start()
    timed_out = False
    try:
        out, err = p.communicate(input=stdin_bytes, timeout=timeout)
    except subprocess.TimeoutExpired:
        timed_out = True
        p.kill()
        out, err = p.communicate()
    stop.set()
    for t in threads:
        t.join(5)
    for f in close_after:
        f.close()
    return dict(rc=None if timed_out else p.returncode, err=err.decode("utf-8", "replace"), timed_out=timed_out, served=served)


# kinds of object that carry the configuration text: the settings used must be those of the text behind the path
CARRIERS = ["regular", "path-with-dotdot", "relative-path", "relative-path-with-dotdot", "hard-link", "symlink-absolute",
            "symlink-relative", "symlink-chain", "symlink-through-linked-directory", "fifo", "dev-stdin-pipe", "dev-stdin-file",
            "inherited-pipe-dev-fd", "inherited-pipe-proc-self-fd"]
# kinds of object that carry no text at all: a diagnostic and a non-zero exit status
NO_TEXT = ["missing", "dangling-symlink", "directory", "symlink-to-directory", "symlink-loop"]
# kinds for the discovered ./typeshare.toml that the search accepts (it must then be *used*) ...
FOUND = ["regular", "hard-link", "symlink-absolute", "symlink-relative", "symlink-chain"]
# ... and kinds it may pass over - then the next typeshare.toml up the chain decides, not the defaults
PASSED_OVER = ["directory", "dangling-symlink", "symlink-to-directory", "symlink-loop", "fifo"]


def place_config(sc, kind, where, text):
    """make the object of the given kind that stands for the configuration `text`; `where` is the path (relative to the scratch
    directory) the binary is to find it at (for kinds that need one).  Returns (value for -c, keyword arguments for run_cli_fed)"""
    data = text.encode("utf-8")
    store = "store/%s.real" % where.replace("/", "_")
    at = sc.path(where)
    os.makedirs(os.path.dirname(at), exist_ok=True)
    if kind == "regular":
        sc.write(where, text)
        return at, {}
    if kind == "path-with-dotdot":
        sc.write(where, text)
        os.makedirs(sc.path("store/deep/er"), exist_ok=True)
        return os.path.join(sc.path("store/deep/er"), "..", "..", "..", where.replace("/", "/./")), {}
    if kind == "relative-path":                     # resolved against the working directory (ws/proj)
        sc.write(where, text)
        return os.path.relpath(at, sc.path("ws/proj")), {}
    if kind == "relative-path-with-dotdot":
        sc.write(where, text)
        return os.path.join("src", "..", os.path.relpath(at, sc.path("ws/proj"))), {}
    if kind == "hard-link":
        sc.write(store, text)
        os.link(sc.path(store), at)
        return at, {}
    if kind == "symlink-absolute":
        sc.write(store, text)
        os.symlink(sc.path(store), at)
        return at, {}
    if kind == "symlink-relative":
        sc.write(store, text)
        os.symlink(os.path.relpath(sc.path(store), os.path.dirname(at)), at)
        return at, {}
    if kind == "symlink-chain":
        sc.write(store, text)
        os.symlink(sc.path(store), sc.path(store + ".hop"))
        os.symlink(os.path.relpath(sc.path(store + ".hop"), os.path.dirname(at)), at)
        return at, {}
    if kind == "symlink-through-linked-directory":
        sc.write(store, text)
        os.symlink(sc.path("store"), at + ".dir")
        return os.path.join(at + ".dir", os.path.basename(store)), {}
    if kind == "fifo":
        os.mkfifo(at)
        return at, {"fifos": [(at, data)]}
    if kind == "dev-stdin-pipe":
        return "/dev/stdin", {"stdin_bytes": data}
    if kind == "dev-stdin-file":
        sc.write(store, text)
        return "/dev/stdin", {"stdin_file": sc.path(store)}
    if kind == "inherited-pipe-dev-fd":
        return "/dev/fd/@FD@", {"fd_pipe": data}
    if kind == "inherited-pipe-proc-self-fd":
        return "/proc/self/fd/@FD@", {"fd_pipe": data}
    if kind == "missing":
        return at, {}
    if kind == "dangling-symlink":
        os.symlink(sc.path("store/nowhere.toml"), at)
        return at, {}
    if kind == "directory":
        os.makedirs(at)
        sc.write(where + "/typeshare.toml", text)    # what is *in* the directory is not what was named
        return at, {}
    if kind == "symlink-to-directory":
        os.makedirs(sc.path(store + ".d"))
        os.symlink(sc.path(store + ".d"), at)
        return at, {}
    if kind == "symlink-loop":
        os.symlink(at + ".back", at)
        os.symlink(at, at + ".back")
        return at, {}
    raise ValueError(kind)


def random_settings(rng, L):
    """a typeshare.toml with settings for every language (each language's values are its own); which of the keys that show in the
    output of `L` are present is drawn at random.  Returns (tables, values of L's section that must show, cli flags, file7, cli7)"""
    n = rng.randint(100, 999)
    mine = {"swift": ["prefix", "type_mappings", "default_decorators"], "kotlin": ["prefix", "package", "type_mappings"],
            "scala": ["package", "type_mappings"], "typescript": ["type_mappings"],
            "go": ["package", "type_mappings", "uppercase_acronyms", "no_pointer_slice"], "python": ["type_mappings"]}
    full = {}
    for M in LANGS:
        tag = "%s%d" % (M[:2].title(), n)
        full[M] = {"prefix": "Px" + tag, "package": "org.%s%d.pk" % (M[:2], n) if M != "go" else "pk%s%d" % (M[:2], n),
                   "type_mappings": {"Url": "Mapped" + tag, "Stamp": "When" + tag},
                   "default_decorators": ["Deco" + tag, "Sendable"], "uppercase_acronyms": ["id", "url", "api"],
                   "no_pointer_slice": True}
    tables = {}
    for M in LANGS:
        keys = [k for k in mine[M] if rng.random() < (0.75 if M == L else 0.4)]
        if M == L and not keys:
            keys = [rng.choice(mine[M])]
        if keys:
            tables[M] = {k: full[M][k] for k in keys}
    flags = []
    opts = [o for o in OPTS if o[4] == L]
    cli7 = [None] * 7
    if opts and rng.random() < 0.5:
        name, flag, (sec, key), idx, _ = rng.choice(opts)
        cli7[idx] = "Cli%d" % n if "package" not in name else "com.cli%d.pk" % n if L != "go" else "clipk%d" % n
        flags = [flag, cli7[idx]]
    # Scala cannot generate without a package at all (a C07 matter): it always has one from somewhere
    if L == "scala" and "package" not in tables.get("scala", {}) and not flags:
        tables.setdefault("scala", {})["package"] = full["scala"]["package"]
    file7 = [tables.get(sec, {}).get(key, "") for _, _, (sec, key), _, _ in OPTS]
    return tables, flags, file7, cli7


SRC_OBJ = SRC_ACR + "\n#[typeshare]\npub struct Logged {\n    pub at: Stamp,\n    pub tags: Option<Vec<String>>,\n}\n"


def config_object_kind_part(check):
    """Dimension: *what kind of file-system object* the configuration path is - for the path given with -c: a regular file, the
    same file reached through `..` / `.` components, by a path relative to the working directory, by a hard link, by an absolute /
    relative / chained symbolic link or through a symbolic link to its directory, a FIFO somebody writes the text into, /dev/stdin
    fed through a pipe or redirected from a file, an inherited pipe named /dev/fd/N or /proc/self/fd/N (the shell's `<(...)`);
    and objects without any text: a missing path, a dangling symbolic link, a directory, a link to a directory, a link loop.  For the
    discovered ./typeshare.toml: regular, hard link, the three link kinds (accepted by the search), and directory / dangling link /
    link loop / FIFO named typeshare.toml in the working directory with a regular typeshare.toml one level up.  Crossed with:
    the six languages, random subsets of prefix / package / type_mappings / default_decorators / uppercase_acronyms /
    no_pointer_slice in every language's section, an option on the command line or none, and the size and shape of the text (a few
    lines; 0 bytes; comments only; more than a pipe holds at once; no final newline).
    Demanded: the settings used are those of the text behind the path - the run leaves exactly the output (and the kind of exit
    status) of the run that gets the same text as a regular file with the same options, whose shared settings are in turn
    judged by the precedence rule - or, where there is no text, a diagnostic and a non-zero exit status.  Never silently the
    defaults; never a hang."""
    rng = check.rng
    shapes = ["plain", "plain", "empty", "comments-only", "larger-than-a-pipe", "no-final-newline"]
    rounds = 3 if check.thorough else 1
    for rnd in range(rounds):
        for L in LANGS:
            # quick: every language sees two shapes and a third of the kinds each, every kind is seen by two languages at least
            for shape in (shapes if check.thorough else ["plain", rng.choice(shapes[2:])]):
                tables, flags, file7, cli7 = random_settings(rng, L)
                text = toml_text({}, tables)
                if shape == "empty":
                    text, file7 = "", [""] * 7
                elif shape == "comments-only":
                    text, file7 = "# typeshare.toml\n\n   # nothing set\n", [""] * 7
                elif shape == "larger-than-a-pipe":
                    text = "".join("# %05d %s\n" % (i, "-" * 90) for i in range(rng.randint(700, 1500))) + text
                elif shape == "no-final-newline":
                    text = text.rstrip("\n")
                if shape in ("empty", "comments-only") and L == "scala" and not flags:
                    cli7[4] = "com.cli.pk"
                    flags = ["--scala-package", cli7[4]]
                if check.thorough:
                    kinds = [("-c", k) for k in CARRIERS + NO_TEXT] + [("search", k) for k in FOUND + PASSED_OVER]
                else:
                    always = ["regular", "fifo", "dev-stdin-pipe", "inherited-pipe-dev-fd"]
                    kinds = [("-c", k) for k in always + rng.sample([k for k in CARRIERS if k not in always], 4) + rng.sample(NO_TEXT, 2)] + \
                            [("search", k) for k in rng.sample(FOUND, 2) + rng.sample(PASSED_OVER, 2)]
                if object_kind_group(check, L, shape, text, tables, flags, file7, cli7, kinds):
                    return


def object_kind_group(check, L, shape, text, tables, flags, file7, cli7, kinds):
    """one configuration text x one command line, handed over as each of `kinds`; True when a violation was reported"""
    ext = EXT[L]

    def one(sc, tag, args, cwd, **fed):
        out = sc.path("out/%s.%s" % (tag, ext))
        os.makedirs(os.path.dirname(out), exist_ok=True)
        r = run_cli_fed(["--lang", L, "-o", out] + flags + args + [sc.path("ws/proj/src")], cwd=cwd, **fed)
        r["output"] = open(out, encoding="utf-8").read() if os.path.exists(out) else None
        return r

    def same(a, b):
        return (a["rc"] == 0) == (b["rc"] == 0) and not a["timed_out"] and not b["timed_out"] and a["output"] == b["output"]

    with Scratch() as sc:
        sc.write("ws/proj/src/lib.rs", SRC_OBJ)
        cwd = sc.path("ws/proj")
        # the references: the text as a regular file outside the working directory's ancestor chain; no configuration at all;
        # the text of the typeshare.toml one level up (used by the passed-over kinds)
        sc.write("ref/cfg.toml", text)
        ref = one(sc, "ref", ["-c", sc.path("ref/cfg.toml")], cwd)
        dflt = one(sc, "dflt", [], cwd)
        far_tables = {M: dict(kv) for M, kv in tables.items()}
        far_tables.setdefault(L, {})["type_mappings"] = {"Url": "FarUrl", "Stamp": "FarStamp"}
        far_text = toml_text({}, far_tables)
        sc.write("ref/far.toml", far_text)
        far = one(sc, "far", ["-c", sc.path("ref/far.toml")], cwd)
        base_case = {"lang": L, "options": flags, "shape_of_text": shape, "toml": text if len(text) < 3000 else text[:200] + "\n# ... %d bytes ...\n" % len(text) + text[-1500:],
                     "source": SRC_OBJ, "working_directory": "ws/proj", "input": "ws/proj/src"}

        # the reference itself is judged by the precedence rule (several shared keys and an option at once) and against the model
        ma = model([[S("config"), file7, cli7, L == "go"]], with_unicode=False)[0]
        want7 = [c if c is not None else f for c, f in zip(cli7, file7)]
        problem = None
        if ref["timed_out"]:
            problem = "the run with the text as a regular file does not end"
        elif L == "go" and want7[6] == "":
            if ref["rc"] == 0:
                problem = "the run succeeds although no Go package is configured"
        elif ref["rc"] != 0:
            problem = "exit status %s with the text as a regular file: %s" % (ref["rc"], ref["err"][-300:])
        else:
            obs = observe(L, ref["output"])
            for name, flag, (sec, key), idx, lang in OPTS:
                k = name if name != "scala-package" else "scala-package-parent"
                w = want7[idx] if name != "scala-package" else (want7[idx].rsplit(".", 1)[0] if "." in want7[idx] else "")
                if lang == L and k in obs and obs[k] != w:
                    problem = "generated %s code shows %s = %r, the precedence rule gives %r (option %r, file %r)" % (
                        L, k, obs[k], w, cli7[idx], file7[idx])
            for rust, mapped in tables.get(L, {}).get("type_mappings", {}).items() if shape not in ("empty", "comments-only") else []:
                if mapped not in ref["output"]:
                    problem = "type mapping %s -> %s of the file is not applied" % (rust, mapped)
        check.saw(("object-kind-reference", L, shape, bool(flags), text[-200:]), nontrivial=ref["output"] != dflt["output"])
        check.count("object-kind reference: %s text, option %s" % (shape, "given" if flags else "absent"))
        if problem:
            check.violation("configuration as a regular file given with -c (%s, %s text): %s" % (L, shape, problem),
                            case=dict(base_case, kind="regular"), impl={"rc": ref["rc"], "stderr": ref["err"][-500:], "output": (ref["output"] or "")[-1500:]},
                            model=ma, failing_input=True)
            return True
        if ("err" in ma) != (L == "go" and want7[6] == "") or ("ok" in ma and ma["ok"] != want7):
            check.violation("model: effective settings %s for file %s and options %s, the precedence rule gives %s" % (ma, file7, cli7, want7),
                            case=dict(base_case, kind="regular"), model=ma, failing_input=False,
                            broken="TsV.Props.C20: effective settings of the model differ from option-else-file-else-default")

        def describe(got):
            """how `got` relates to the references, in words"""
            if got["timed_out"]:
                return "the run does not end (killed after 20 s)"
            if got["rc"] != 0:
                return "exit status %s: %s" % (got["rc"], last_words(got["err"]))
            if same(got, dflt) and not same(dflt, ref):
                lost = sorted(v for v in re.findall(r"\w+\d{3}\b", text) if v in (ref["output"] or "") and v not in (got["output"] or ""))
                return ("exit status 0 and exactly the output of a run without any configuration file: the file's settings %s are "
                        "silently replaced by the defaults%s" % (lost[:6], " (the option is applied)" if flags else ""))
            return "exit status 0 and another output: " + l2.text_diff(ref["output"] or "", got["output"] or "")

        for how, kind in kinds:
            with_text = kind in CARRIERS if how == "-c" else kind in FOUND
            # every object lives in a directory of its own; for the search it is ./typeshare.toml of the working directory, which is
            # then a fresh one (ws/<n>/proj) with a copy of the sources' path given absolutely
            tag = "%s-%s" % (how.strip("-"), kind)
            if how == "-c":
                value, fed = place_config(sc, kind, "given/%s/cfg.toml" % kind, text)
                # a different, discoverable typeshare.toml must not be what is used instead
                got = one(sc, tag, ["-c", value], cwd, **fed)
                allowed = [("the text behind the path", ref)] if with_text else []
            else:
                wd = "ws-%s/proj" % kind
                os.makedirs(sc.path(wd))
                allowed = [("the text behind the path", ref)] if with_text else [("the typeshare.toml one level up", far)]
                if not with_text:
                    sc.write("ws-%s/typeshare.toml" % kind, far_text)
                value, fed = place_config(sc, kind, wd + "/typeshare.toml", text)
                if kind == "fifo":
                    allowed.append(("the text written into the FIFO", ref))
                got = one(sc, tag, [], sc.path(wd), **fed)
            check.saw(("object-kind", how, kind, L, shape, bool(flags), text[-200:]), nontrivial=not same(ref, dflt) or not with_text)
            check.count("object-kind %s %s" % (how, kind))
            check.count("object-kind lang %s" % L)
            case = dict(base_case, kind=kind, found_by=how, config_argument=value if how == "-c" else None,
                        replay="write `toml` to cfg.toml; regular: typeshare --lang %s %s -c cfg.toml -o ref.%s src; this kind: %s"
                               % (L, " ".join(flags), ext, REPLAY.get(kind, kind) % {"L": L, "f": " ".join(flags), "e": ext}))
            impl = {"rc": got["rc"], "stderr": got["err"][-600:], "output": (got["output"] or "")[-1500:], "bytes_taken_by_the_reader": got["served"],
                    "regular_file_run": {"rc": ref["rc"], "output": (ref["output"] or "")[-1500:]}}
            if with_text or how == "search":
                ok = any(same(got, a) for _, a in allowed)
                # an object without text may also be refused with a diagnostic
                if not ok and not with_text and got["rc"] not in (0, None) and got["err"].strip() and got["output"] is None:
                    ok = True
                if not ok:
                    check.violation("%s, configuration %s, being %s (%s text%s): the run should use %s - as the run with the same text in a regular "
                                    "file does (exit status %s) - but: %s"
                                    % (L, "given with -c" if how == "-c" else "discovered as ./typeshare.toml", kind_words(kind), shape,
                                       ", option %s" % " ".join(flags) if flags else "", " or ".join(a for a, _ in allowed), ref["rc"], describe(got)),
                                    case=case, impl=impl, model=ma, failing_input=True)
                    return True
            else:
                # nothing to read behind the name given with -c: a diagnostic, a non-zero exit status, no output
                if got["timed_out"] or got["rc"] == 0 or not got["err"].strip() or got["output"] is not None:
                    check.violation("%s, -c names a %s: expected a diagnostic and a non-zero exit status, but: %s%s"
                                    % (L, kind_words(kind), describe(got) if got["rc"] in (0, None) else "exit status %s, stderr %r" % (got["rc"], last_words(got["err"])),
                                       "; an output file was written" if got["output"] is not None else ""),
                                    case=case, impl=impl, failing_input=True)
                    return True
    return False


KIND_WORDS = {"fifo": "a FIFO (named pipe) that a writer puts the text into", "dev-stdin-pipe": "/dev/stdin, the text piped into the process",
              "dev-stdin-file": "/dev/stdin, redirected from the file", "inherited-pipe-dev-fd": "/dev/fd/N of an inherited pipe (`<(cat file)`)",
              "inherited-pipe-proc-self-fd": "/proc/self/fd/N of an inherited pipe", "regular": "a regular file",
              "missing": "path that does not exist", "directory": "directory", "dangling-symlink": "dangling symbolic link",
              "symlink-to-directory": "symbolic link to a directory", "symlink-loop": "symbolic link that leads back to itself"}


def kind_words(kind):
    return KIND_WORDS.get(kind, "a " + kind.replace("symlink", "symbolic link").replace("-", " "))


def last_words(err):
    """the last two lines of the diagnostics, without the time stamps"""
    lines = [re.sub(r"^\[\d{4}-[^\]]*\] ", "", l) for l in err.strip().split("\n") if l.strip()]
    return " / ".join(lines[-2:])[-400:]


REPLAY = {"fifo": "mkfifo p; cat cfg.toml > p & typeshare --lang %(L)s %(f)s -c p -o out.%(e)s src",
          "dev-stdin-pipe": "cat cfg.toml | typeshare --lang %(L)s %(f)s -c /dev/stdin -o out.%(e)s src",
          "dev-stdin-file": "typeshare --lang %(L)s %(f)s -c /dev/stdin -o out.%(e)s src < cfg.toml",
          "inherited-pipe-dev-fd": "typeshare --lang %(L)s %(f)s -c <(cat cfg.toml) -o out.%(e)s src   # bash: /dev/fd/N",
          "inherited-pipe-proc-self-fd": "exec 7< <(cat cfg.toml); typeshare --lang %(L)s %(f)s -c /proc/self/fd/7 -o out.%(e)s src",
          "directory": "mkdir d; typeshare --lang %(L)s %(f)s -c d -o out.%(e)s src",
          "dangling-symlink": "ln -s nowhere.toml l; typeshare --lang %(L)s %(f)s -c l -o out.%(e)s src"}


def generate_onto_object_part(check):
    """-g never overwrites: the same dimension for the *target* of -g.  Whatever already exists under the name - a symbolic link to
    a configuration file (absolute, relative), a hard link to one, a directory, a link to a directory, a FIFO - is left as it is,
    with a non-zero exit status and without waiting for anybody; a dangling link is either refused or the configuration is created
    behind it, the link itself stays"""
    kinds = ["symlink-absolute", "symlink-relative", "hard-link", "directory", "symlink-to-directory", "fifo", "dangling-symlink", "symlink-loop"]
    keep = "[swift]\nprefix = \"Pinned\"\n"

    def look(root):
        out = {}
        for d, dirs, files in os.walk(root):
            for f in files + dirs:
                p = os.path.join(d, f)
                st = os.lstat(p)
                out[os.path.relpath(p, root)] = (stat.S_IFMT(st.st_mode), os.readlink(p) if stat.S_ISLNK(st.st_mode) else None,
                                                 open(p, "rb").read() if stat.S_ISREG(st.st_mode) else None,
                                                 st.st_mtime_ns if stat.S_ISREG(st.st_mode) else None)
        return out

    for kind in kinds:
        for explicit in (True, False):
            with Scratch() as sc:
                sc.write("ws/proj/src/lib.rs", SRC)
                os.makedirs(sc.path("ws/pre"))
                value, fed = place_config(sc, kind, "ws/pre/typeshare.toml", keep)
                before = look(sc.dir)
                r = run_cli_fed(["-g"] + (["-c", value] if explicit else []) + ["--swift-prefix", "Other", sc.path("ws/proj/src")],
                                cwd=sc.path("ws/pre"), timeout=10)
                after = look(sc.dir)
            check.saw(("generate-onto", kind, explicit), nontrivial=True)
            check.count("generate-config onto %s" % kind)
            changed = sorted(k for k in set(before) | set(after) if before.get(k) != after.get(k))
            if kind == "dangling-symlink" and r["rc"] == 0:
                # created behind the link: nothing that existed was overwritten
                changed = [k for k in changed if k in before]
            if r["timed_out"] or changed or (r["rc"] == 0 and kind != "dangling-symlink"):
                check.violation("-g with the target (%s) being an existing %s: %s" % (
                    "named by -c" if explicit else "./typeshare.toml", kind.replace("-", " "),
                    "the run does not end" if r["timed_out"] else "changed: %s" % changed if changed else "exit status 0, nothing written"),
                    case={"kind": kind, "explicit": explicit, "existing_configuration": keep},
                    impl={"rc": r["rc"], "stderr": r["err"][-400:], "changed": changed}, failing_input=True)
                return


# ----------------------------------------------------------------------------- what lies along the ancestor chain

def _put(path, text=""):
    os.makedirs(os.path.dirname(path), exist_ok=True)
    with open(path, "w", encoding="utf-8", newline="") as f:
        f.write(text)


def _git_directory(d, decoy):
    _put(d + "/.git/HEAD", "ref: refs/heads/main\n")
    _put(d + "/.git/config", "[core]\n\trepositoryformatversion = 0\n\tbare = false\n")
    os.makedirs(d + "/.git/objects")
    os.makedirs(d + "/.git/refs/heads")


def _lookalikes(d, decoy):
    for n in ("Typeshare.toml", ".typeshare.toml", "typeshare.toml.bak", "typeshare.tml", "typeshare.yaml", "typeshare.toml~", "typeshare"):
        _put(os.path.join(d, n), decoy)


def _project_files(d, decoy):
    _put(d + "/package.json", "{\"name\": \"x\", \"private\": true}\n")
    _put(d + "/go.mod", "module example.com/x\n\ngo 1.21\n")
    _put(d + "/rust-toolchain.toml", "[toolchain]\nchannel = \"stable\"\n")
    _put(d + "/.editorconfig", "root = true\n")
    _put(d + "/Cargo.lock", "version = 3\n")
    _put(d + "/.gitmodules", "[submodule \"x\"]\n\tpath = x\n\turl = ../x.git\n")


# things a directory on the chain may hold besides (or instead of) a regular typeshare.toml: label -> (names it creates, builder).
# None of them is a regular file called typeshare.toml, so none of them takes part in the search or ends it
ALONG = {
    "nothing": ((), lambda d, decoy: None),
    "`.git` directory (repository root / nested checkout)": ((".git",), _git_directory),
    "`.git` empty directory": ((".git",), lambda d, decoy: os.makedirs(d + "/.git")),
    "`.git` file (submodule / linked worktree)": ((".git",), lambda d, decoy: _put(d + "/.git", "gitdir: ../.git/modules/%s\n" % os.path.basename(d))),
    "Cargo.toml of a package": (("Cargo.toml",), lambda d, decoy: _put(d + "/Cargo.toml", "[package]\nname = \"%s\"\nversion = \"0.1.0\"\nedition = \"2021\"\n" % os.path.basename(d))),
    "Cargo.toml of a workspace": (("Cargo.toml",), lambda d, decoy: _put(d + "/Cargo.toml", "[workspace]\nmembers = [\"*\"]\nresolver = \"2\"\n")),
    "`.hg` directory": ((".hg",), lambda d, decoy: _put(d + "/.hg/requires", "revlogv1\nstore\n")),
    "`.svn` and `.jj` directories": ((".svn", ".jj"), lambda d, decoy: (os.makedirs(d + "/.svn"), os.makedirs(d + "/.jj/repo"))),
    "`.typeshare` directory holding a typeshare.toml": ((".typeshare",), lambda d, decoy: (_put(d + "/.typeshare/typeshare.toml", decoy), _put(d + "/.typeshare/config.toml", decoy))),
    "`.typeshare` file": ((".typeshare",), lambda d, decoy: _put(d + "/.typeshare", decoy)),
    "typeshare.toml that is a directory (holding a typeshare.toml)": (("typeshare.toml",), lambda d, decoy: _put(d + "/typeshare.toml/typeshare.toml", decoy)),
    "typeshare.toml that is an empty directory": (("typeshare.toml",), lambda d, decoy: os.makedirs(d + "/typeshare.toml")),
    "look-alike names (Typeshare.toml, .typeshare.toml, typeshare.toml.bak ...)": (
        ("Typeshare.toml", ".typeshare.toml", "typeshare.toml.bak", "typeshare.tml", "typeshare.yaml", "typeshare.toml~", "typeshare"), _lookalikes),
    "`.gitignore` and `.ignore` that list typeshare.toml": ((".gitignore", ".ignore"), lambda d, decoy: (_put(d + "/.gitignore", "typeshare.toml\n/target\n"), _put(d + "/.ignore", "typeshare.toml\n"))),
    "other projects' root files (package.json, go.mod, rust-toolchain.toml, .editorconfig root, Cargo.lock, .gitmodules)": (
        ("package.json", "go.mod", "rust-toolchain.toml", ".editorconfig", "Cargo.lock", ".gitmodules"), _project_files),
    "the home directory ($HOME)": ((), None),
}
# those of them that hold a configuration text of their own (whose values must never show)
WITH_TEXT = ["`.typeshare` directory holding a typeshare.toml", "`.typeshare` file", "typeshare.toml that is a directory (holding a typeshare.toml)",
             "look-alike names (Typeshare.toml, .typeshare.toml, typeshare.toml.bak ...)"]
# a *regular* typeshare.toml closer to the working directory than the one with the settings: it is the nearest, so it decides - alone
CLOSER = ["an empty typeshare.toml closer by", "a comments-only typeshare.toml closer by", "a typeshare.toml with other settings closer by"]
NO_FILE = "no regular typeshare.toml anywhere (look-alikes and a typeshare.toml directory only)"
WORKDIRS = ["plain", "plain", "reached through a symbolic link to it", "reached through a symbolic link to an ancestor",
            "spelled with `.` and `..` components"]
INPUTS = ["src (relative)", ". (relative)", "absolute path below the working directory", "a directory elsewhere with a typeshare.toml of its own above it"]
LEVEL_NAMES = ["mono", "services", "rust", "crates", "app", "core", "backend", "vendor", "shared", "model", "pkg", "w"]


def nearest_typeshare_toml(cwd):
    """the documented rule, evaluated on the file system: `typeshare.toml` in the current directory or the nearest of its parent
    directories.  The current directory is the process's (a directory, not a spelling: symbolic links resolved), a candidate
    counts when it is a regular file (possibly behind a link)"""
    d = os.path.realpath(cwd)
    while True:
        p = os.path.join(d, "typeshare.toml")
        if os.path.isfile(p):
            return p
        up = os.path.dirname(d)
        if up == d:
            return None
        d = up


def listing(root, skip=()):
    """{relative path: what it is} of everything under root, for the replay"""
    out = {}
    for d, dirs, files in os.walk(root):
        dirs[:] = sorted(x for x in dirs if os.path.relpath(os.path.join(d, x), root) not in skip)
        for x in list(dirs):
            p = os.path.join(d, x)
            if os.path.islink(p):
                out[os.path.relpath(p, root)] = "symbolic link -> " + os.readlink(p)
                dirs.remove(x)
            elif not os.listdir(p):
                out[os.path.relpath(p, root) + "/"] = "empty directory"
        for x in sorted(files):
            p = os.path.join(d, x)
            if os.path.islink(p):
                out[os.path.relpath(p, root)] = "symbolic link -> " + os.readlink(p)
            else:
                t = open(p, encoding="utf-8", errors="replace").read()
                out[os.path.relpath(p, root)] = t if len(t) < 1500 else t[:1500] + "..."
    return out


def first_difference(a, b, label_a, label_b):
    """first differing line of two texts, in words"""
    la, lb = a.split("\n"), b.split("\n")
    for i, (x, y) in enumerate(zip(la, lb)):
        if x != y:
            return "line %d: %s %r, %s %r" % (i + 1, label_a, x, label_b, y)
    return "%d vs %d lines; extra: %r" % (len(la), len(lb), (la[len(lb):] or lb[len(la):])[:3])


def ancestor_chain_part(check):
    """Dimension: *what else lies along the ancestor chain* between the working directory and the directory that holds the
    typeshare.toml to be discovered (no -c).  The file sits 1-6 levels above the working directory; every directory from there
    down to the working directory (and the one above) may hold: a `.git` directory (full or empty) or a `.git` *file* (submodule,
    linked worktree), a package's or a workspace's Cargo.toml, `.hg`, `.svn` / `.jj`, a `.typeshare` directory or file, a
    *directory* called typeshare.toml (empty, or holding a typeshare.toml), look-alike names (Typeshare.toml, .typeshare.toml,
    typeshare.toml.bak ...), .gitignore / .ignore files that list typeshare.toml, other ecosystems' root files, or be $HOME; a regular
    typeshare.toml - empty, comments only, or with other settings - may lie closer by, another one farther up.  Crossed with: how
    the working directory is reached (plainly, through a symbolic link to it or to one of its ancestors - with a typeshare.toml
    next to the link - or spelled with `.` / `..`), where the input lies (relative, `.`, absolute, or elsewhere below a
    typeshare.toml of its own), the six languages, random settings in every language's section and an option on the command
    line or none.
    Demanded (docs/src/usage/configuration.md: "a file called typeshare.toml in your current directory or any of its parent
    directories"): the settings used are those of the *nearest* regular file of that name found by walking up from the working
    directory, taken alone - an empty one closer by means the defaults, nothing is merged in from farther up, and nothing else on
    the way (a repository, workspace or home boundary, a directory of that name) ends the search or stands in for the file.
    Judged on the output: prefix / package per the precedence rule, the file's mapped names and decorators present, no value of
    any other typeshare.toml-like text present, and the output is exactly that of the run in the same directory with
    `-c <that nearest file>`.  Never silently the defaults while such a file exists."""
    rng = check.rng
    between = [k for k in ALONG if k != "nothing"] + CLOSER
    per_lang = len(between) + 3 if check.thorough else 9
    deck = []
    for rnd in range(4 if check.thorough else 1):
        for L in LANGS:
            with Scratch() as sc:
                plans = []
                for i in range(per_lang):
                    if not deck:
                        # every kind of thing is the primary one between the working directory and the file once per pass through the
                        # deck, the repository markers twice
                        deck = between + ["nothing", NO_FILE, "`.git` directory (repository root / nested checkout)", "`.git` file (submodule / linked worktree)"]
                        rng.shuffle(deck)
                    plans.append(chain_scenario(check, sc, "s%d" % i, L, deck.pop()))
                answers = model([[S("config"), pl["file7"], pl["cli7"], L == "go"] for pl in plans], with_unicode=False)
                for pl, ma in zip(plans, answers):
                    if chain_judge(check, sc, L, pl, ma):
                        return


def chain_scenario(check, sc, tag, L, primary):
    """build one tree below <scratch>/<tag>/ - settings, option and everything else drawn anew - and say how to run in it"""
    rng = check.rng
    tables, flags, _, cli7 = random_settings(rng, L)
    text = toml_text({}, tables)
    used = set(re.findall(r"\d{3}", text + " ".join(flags)))
    texts = {}                          # path relative to the scenario -> text of every typeshare.toml-like file but the nearest

    def other_settings(rel):
        while True:
            t, _, _, _ = random_settings(rng, L)
            tx = toml_text({}, t)
            if not set(re.findall(r"\d{3}", tx)) & used:
                used.update(re.findall(r"\d{3}", tx))
                texts[rel] = tx
                return tx

    dist = rng.randint(1, 6)
    names = rng.sample(LEVEL_NAMES, dist + 1)
    levels = ["top"]                    # levels[1] holds the file, levels[-1] is the working directory
    for n in names:
        levels.append(levels[-1] + "/" + n)
    root = os.path.join(os.path.realpath(sc.dir), tag)
    at = lambda rel: os.path.join(root, rel)
    for lv in levels:
        os.makedirs(at(lv), exist_ok=True)
    env = {}
    along = []                          # (levels above the working directory, what)

    def place(level, what):
        d = at(levels[level])
        above = len(levels) - 1 - level
        if what in CLOSER:
            if os.path.lexists(d + "/typeshare.toml"):
                return
            if what.startswith("an empty"):
                _put(d + "/typeshare.toml", "")
            elif what.startswith("a comments-only"):
                _put(d + "/typeshare.toml", "# typeshare.toml\n\n   # nothing set here\n")
            else:
                _put(d + "/typeshare.toml", other_settings(levels[level] + "/typeshare.toml"))
        elif what == "the home directory ($HOME)":
            if "HOME" in env:
                return
            env["HOME"] = d
        else:
            made, build = ALONG[what]
            if any(os.path.lexists(os.path.join(d, m)) for m in made):
                return
            build(d, other_settings(levels[level] + "/(" + what + ")") if what in WITH_TEXT else "")
        along.append((above, what))
        check.count("ancestor-chain along the way: " + what)

    have_file = primary != NO_FILE
    if have_file:
        _put(at(levels[1] + "/typeshare.toml"), text)
        texts[levels[1] + "/typeshare.toml"] = text
    else:
        place(rng.randint(1, dist + 1), "look-alike names (Typeshare.toml, .typeshare.toml, typeshare.toml.bak ...)")
        place(rng.randint(1, dist + 1), "typeshare.toml that is a directory (holding a typeshare.toml)")
    # the primary thing lies strictly below the file's directory: anywhere from the working directory up to just below the file
    if primary not in ("nothing", NO_FILE):
        place(rng.randint(2, dist + 1), primary)
    # more of them anywhere from the directory above the file's down to the working directory (next to the file too)
    if primary != "nothing":
        for level in range(0, dist + 2):
            if rng.random() < 0.3:
                what = rng.choice([k for k in ALONG if k != "nothing"] + (CLOSER if level >= 2 and have_file and rng.random() < 0.3 else []))
                place(level, what)
    # another typeshare.toml farther up than the file
    if have_file and rng.random() < 0.5 and not os.path.lexists(at("top/typeshare.toml")):
        _put(at("top/typeshare.toml"), other_settings("top/typeshare.toml"))
        check.count("ancestor-chain: another typeshare.toml farther up")

    # how the working directory is reached
    workdir = rng.choice(WORKDIRS)
    wd_real = at(levels[-1])
    cwd = wd_real
    if workdir == "reached through a symbolic link to it":
        _put(at("links/typeshare.toml"), other_settings("links/typeshare.toml"))
        os.symlink(wd_real, at("links/wd"))
        cwd = at("links/wd")
    elif workdir == "reached through a symbolic link to an ancestor":
        k = rng.randint(1, dist)       # the linked ancestor: the file's directory ... the parent of the working directory
        _put(at("links/typeshare.toml"), other_settings("links/typeshare.toml"))
        os.symlink(os.path.relpath(at(levels[k]), at("links")), at("links/in"))
        cwd = os.path.join(at("links/in"), os.path.relpath(wd_real, at(levels[k])))
    elif workdir == "spelled with `.` and `..` components":
        os.makedirs(at(levels[-1] + "/src"), exist_ok=True)
        cwd = rng.choice([wd_real + "/.", wd_real + "/src/..", os.path.dirname(wd_real) + "/./" + os.path.basename(wd_real) + "/"])
    env["PWD"] = cwd                    # as a shell that has done `cd <that spelling>` hands it on

    # where the input lies
    where = rng.choice(INPUTS)
    if where.startswith("a directory elsewhere"):
        _put(at("elsewhere/proj/src/lib.rs"), SRC_OBJ)
        _put(at("elsewhere/typeshare.toml"), other_settings("elsewhere/typeshare.toml"))
        inp = at("elsewhere/proj/src")
    else:
        _put(at(levels[-1] + "/src/lib.rs"), SRC_OBJ)
        inp = {"src (relative)": "src", ". (relative)": ".", "absolute path below the working directory": wd_real + "/src"}[where]

    # what the documented rule finds, and what that file says
    found = nearest_typeshare_toml(cwd)
    found_text = open(found, encoding="utf-8").read() if found else None
    parsed = tomllib.loads(found_text) if found else {}
    file7 = [parsed.get(sec, {}).get(key, "") for _, _, (sec, key), _, _ in OPTS] if found else None
    flags, cli7 = list(flags), list(cli7)
    if L == "scala" and not (file7 or [""] * 7)[4] and cli7[4] is None:
        # Scala cannot generate without a package at all (a C07 matter): it always has one from somewhere
        cli7[4] = "com.cli.pk"
        flags += ["--scala-package", cli7[4]]
    if found:
        texts.pop(os.path.relpath(found, root), None)
    check.count("ancestor-chain distance of the configured file: %d" % dist)
    check.count("ancestor-chain working directory: " + workdir)
    check.count("ancestor-chain input: " + where)
    check.count("ancestor-chain lang %s, option %s" % (L, "given" if flags else "absent"))
    check.count("ancestor-chain nearest file: " + ("none" if not found else "empty" if not found_text else "comments only" if not parsed
                                                   else "the configured one" if found_text == text else "other settings closer by"))
    return dict(tag=tag, root=root, cwd=cwd, env=env, input=inp, flags=flags, cli7=cli7, file7=file7, found=found, found_text=found_text,
                parsed=parsed, others=texts, dist=dist, along=sorted(along), workdir=workdir, where=where, primary=primary,
                file_at=levels[1] + "/typeshare.toml" if have_file else None, wd=levels[-1])


def chain_judge(check, sc, L, pl, ma):
    """run the binary in the tree of `pl` and judge what it wrote; True when a violation with a failing input was reported"""
    ext = EXT[L]
    root, cwd = pl["root"], pl["cwd"]
    rel = lambda p: p[len(root) + 1:] if p.startswith(root + "/") else os.path.relpath(p, root)     # keeps `.` / `..` spellings

    def one(name, extra):
        out = sc.path("%s-out/%s.%s" % (pl["tag"], name, ext))
        os.makedirs(os.path.dirname(out), exist_ok=True)
        r = run_cli(["--lang", L, "-o", out] + pl["flags"] + extra + [pl["input"]], cwd=cwd, env=pl["env"])
        r["output"] = open(out, encoding="utf-8").read() if os.path.exists(out) else None
        return r

    def same(a, b):
        return (a["rc"] == 0) == (b["rc"] == 0) and not a["timed_out"] and not b["timed_out"] and a["output"] == b["output"]

    tree = listing(root)
    sc.write("%s-out/empty.toml" % pl["tag"], "")
    got = one("discovered", [])
    ref = one("named", ["-c", pl["found"] or sc.path("%s-out/empty.toml" % pl["tag"])])
    dflt = one("defaults", ["-c", sc.path("%s-out/empty.toml" % pl["tag"])]) if pl["found_text"] else ref
    want7 = [c if c is not None else f for c, f in zip(pl["cli7"], pl["file7"] or [""] * 7)]
    mine = pl["parsed"].get(L, {})

    # the property, judged on what the discovered-configuration run wrote
    problems = []
    out = got["output"] or ""
    if got["timed_out"]:
        problems.append("the run does not end")
    elif L == "go" and want7[6] == "":
        if got["rc"] == 0:
            problems.append("the run succeeds although no Go package is configured")
    elif got["rc"] != 0:
        problems.append("exit status %s: %s" % (got["rc"], last_words(got["err"])))
    else:
        obs = observe(L, out)
        for name, flag, (sec, key), idx, lang in OPTS:
            k = name if name != "scala-package" else "scala-package-parent"
            w = want7[idx] if name != "scala-package" else (want7[idx].rsplit(".", 1)[0] if "." in want7[idx] else "")
            if lang == L and k in obs and obs[k] != w:
                problems.append("the generated code shows %s = %r; the precedence rule gives %r (option: %r, nearest file: %r)"
                                % (k, obs[k], w, pl["cli7"][idx], (pl["file7"] or [None] * 7)[idx]))
        for rust, mapped in mine.get("type_mappings", {}).items():
            if mapped not in out:
                problems.append("the file's type mapping %s -> %s is not applied" % (rust, mapped))
        if L == "swift" and mine.get("default_decorators") and mine["default_decorators"][0] not in out:
            problems.append("the file's default decorator %s is not applied" % mine["default_decorators"][0])
        for where, tx in sorted(pl["others"].items()):
            leak = sorted(v for v in set(re.findall(r"[A-Za-z.]*\d{3}[A-Za-z.]*", tx)) if v in out)
            if leak:
                problems.append("values %s of %s - which is not the nearest typeshare.toml - show in the output" % (leak[:4], where))
    if not problems and not same(got, ref):
        problems.append("the output differs from that of the run with -c %s in the same directory (exit status %s there): %s"
                        % (rel(pl["found"]) if pl["found"] else "<an empty file>", ref["rc"],
                           first_difference(ref["output"] or "", got["output"] or "", "with -c   ", "discovered") if got["rc"] == 0 and ref["rc"] == 0 else
                           "exit status %s: %s" % (got["rc"], last_words(got["err"]))))
    silently = bool(pl["found_text"]) and same(got, dflt) and not same(dflt, ref)
    if silently:
        lost = sorted(v for v in set(re.findall(r"[A-Za-z.]*\d{3}[A-Za-z.]*", pl["found_text"])) if v in (ref["output"] or "") and v not in out)
        problems.insert(0, "exit status %s and exactly the result of a run without any configuration file: the file's settings %s are silently "
                           "replaced by the defaults%s" % (got["rc"], lost[:6], " (the option is applied)" if pl["flags"] else ""))

    check.saw(("ancestor-chain", L, pl["primary"], pl["dist"], pl["workdir"], pl["where"], tuple(pl["along"]), bool(pl["flags"]), pl["found_text"]),
              nontrivial=bool(pl["along"]) or pl["workdir"] != "plain")
    check.count("ancestor-chain scenarios")
    levels_up = lambda n: "in the working directory" if n == 0 else "%d level%s up" % (n, "" if n == 1 else "s")
    way = "; ".join("%s %s" % (w, levels_up(n)) for n, w in pl["along"]) or "nothing but plain directories"
    if pl["found"]:
        fd = os.path.dirname(pl["found"])
        up = 0
        d = os.path.realpath(cwd)
        while d != fd:
            d, up = os.path.dirname(d), up + 1
        nearest = "%s (%s, %s)" % (rel(pl["found"]), levels_up(up), "0 bytes" if not pl["found_text"] else "comments only" if not pl["parsed"] else "with settings")
    else:
        nearest = "none (no regular file of that name in any ancestor)"
    cmd = "cd %s && typeshare --lang %s -o /tmp/out.%s %s %s" % (rel(cwd), L, ext, " ".join(pl["flags"]), rel(pl["input"]) if os.path.isabs(pl["input"]) else pl["input"])
    case = {"lang": L, "options": pl["flags"], "tree": tree, "working_directory": rel(cwd), "working_directory_is": pl["workdir"],
            "input": pl["input"] if not os.path.isabs(pl["input"]) else rel(pl["input"]), "input_is": pl["where"],
            "environment": {k: rel(v) for k, v in pl["env"].items()}, "along_the_chain": ["%s: %s" % (levels_up(n), w) for n, w in pl["along"]],
            "nearest_typeshare_toml": rel(pl["found"]) if pl["found"] else None, "nearest_typeshare_toml_text": pl["found_text"],
            "replay": "create the files of `tree` (keys are paths, values contents) below an empty directory that has no typeshare.toml in any of "
                      "its ancestors, then: %s   # compare with the same command plus -c <absolute path of %s>" % (cmd, rel(pl["found"]) if pl["found"] else "an empty file")}
    if problems:
        check.violation("%s, configuration to be discovered by the ancestor search; working directory %s (%s), input %s%s; nearest typeshare.toml: %s; "
                        "along the chain: %s.  The run should use the settings of that nearest file alone - as the run with -c naming it does "
                        "(exit status %s) - but: %s"
                        % (L, rel(cwd), pl["workdir"], pl["where"], ", option %s" % " ".join(pl["flags"]) if pl["flags"] else "", nearest, way,
                           ref["rc"], "; ".join(problems[:4])),
                        case=case, impl={"rc": got["rc"], "stderr": got["err"][-600:], "output": out[-1500:],
                                         "run_with_the_nearest_file_named": {"rc": ref["rc"], "output": (ref["output"] or "")[-1500:]}},
                        model=ma, failing_input=True)
        return True
    if ("err" in ma) != (L == "go" and want7[6] == "") or ("ok" in ma and ma["ok"] != want7):
        check.violation("model: effective settings %s for the nearest file's %s and options %s, the precedence rule gives %s"
                        % (ma, pl["file7"], pl["cli7"], want7), case=case, model=ma, failing_input=False,
                        broken="TsV.Props.C20: effective settings of the model differ from option-else-file-else-default")
    return False



# ----------------------------------------------------------------------------- options that belong to other languages

SHORT = {"--swift-prefix": "-s", "--kotlin-prefix": "-k", "--java-package": "-j", "--module-name": "-m"}


def spell_option(rng, flag, value, form=None):
    """one option in one of the spellings clap accepts: `--opt v`, `--opt=v`, and for the options that have a short form
    `-x v`, `-x=v`, `-xv` (the last only for a non-empty value).  Returns (form, arguments)"""
    forms = ["--opt v", "--opt=v"]
    if flag in SHORT:
        forms += ["-x v", "-x=v"] + (["-xv"] if value else [])
    if form not in forms:
        form = rng.choice(forms)
    x = SHORT.get(flag)
    return form, {"--opt v": [flag, value], "--opt=v": [flag + "=" + value], "-x v": [x, value], "-x=v": ["%s=%s" % (x, value)],
                  "-xv": ["%s%s" % (x, value)]}[form]


def foreign_options_part(check):
    """Dimension: *options that belong to other languages* on the command line (a wrapper script that passes every language's
    options on each call).  C20's matrix gives each language only its own option; here, for every language L (TypeScript and
    Python, which have no option of their own, included) and every cell of {L's own options absent, present} x {L's keys absent,
    present in the file - no file at all, or a file with other languages' keys only} x {-c, ancestor search}, the command is
    run once without and then with the options of the other languages: each alone, all together, before L's own options / after
    them / around them (also before `--lang`), spelled `--opt v`, `--opt=v`, `-x v`, `-x=v`, `-xv`, with ordinary and with empty
    values.  The cells in which the run must be *refused* (Go and Scala without a package from the option or the file) are part of
    the matrix.
    Demanded: a setting of L comes from L's option, else L's key, else the default - an option of another language is neither.
    So (1) exit status and output bytes equal those of the run without the foreign options (a refused run stays refused);
    (2) judged on the output alone: prefix / package shown are what the precedence rule gives from L's own option and key, and
    no value of a foreign option shows anywhere in the output; (3) the model's `config` request, given all the options, yields
    option-else-file-else-default for every setting.  When several foreign options were given, the report names one that does
    it alone."""
    rng = check.rng
    pending = []                        # (request, want7, refuse, case) for the model, asked once at the end
    for rep in range(2 if check.thorough else 1):
        for L in LANGS:
            own = [o for o in OPTS if o[2][0] == L]
            foreign = [o for o in OPTS if o[2][0] != L]
            for own_given, key_present, discover in itertools.product([False, True] if own else [False], [False, True], ["-c", "ancestor"]):
                if foreign_options_cell(check, rng, L, own, foreign, own_given, key_present, discover, pending):
                    return
    answers = model([p[0] for p in pending], with_unicode=False)
    for (req, want7, refuse, case), ma in zip(pending, answers):
        if ("err" in ma) != refuse or ("ok" in ma and ma["ok"] != want7):
            check.violation("model: effective settings %s for file %s and options %s (options of other languages among them), the "
                            "precedence rule gives %s" % (ma, req[1], req[2], "a refusal (no Go package)" if refuse else want7),
                            case=case, model=ma, failing_input=False,
                            broken="TsV.Props.C20: effective settings of the model differ from option-else-file-else-default")
            return


def foreign_options_cell(check, rng, L, own, foreign, own_given, key_present, discover, pending):
    """one cell: the run without foreign options, judged by the precedence rule, then the runs with them; True when a violation
    with a failing input was reported"""
    ext = EXT[L]
    n = rng.randint(100, 899)

    def own_value(name, src):
        if "package" not in name:
            return "%s%d" % (src.title(), n)
        return "%spk%d" % (src, n) if name == "go-package" else "%s.%s%d.pk" % ("com" if src == "cli" else "org", src, n)

    # L's own options and keys; an own value may also be the empty string (present, but empty)
    cli7, file7, own_args, own_forms = [None] * 7, [""] * 7, [], []
    shared = {}
    for name, flag, (sec, key), idx, _ in own:
        if own_given:
            cli7[idx] = "" if rng.random() < 0.12 else own_value(name, "cli")
            form, a = spell_option(rng, flag, cli7[idx])
            own_args += a
            own_forms.append(form)
        if key_present:
            file7[idx] = "" if rng.random() < 0.12 else own_value(name, "file")
            shared[(sec, key)] = file7[idx]
    # keys of the other languages in the file: they are not L's either
    have_file = key_present or rng.random() < 0.6
    for j, (name, flag, (sec, key), idx, _) in enumerate(foreign):
        if have_file and rng.random() < 0.5:
            file7[idx] = ("Other%d" % (n + j + 1)) if "package" not in name else "othergo%d" % (n + j + 1) if name == "go-package" else "io.other%d.pk" % (n + j + 1)
            shared[(sec, key)] = file7[idx]
    text = toml_text(shared, {"typescript": {"type_mappings": {"Url": "string"}}}) if have_file else None
    # the foreign options: every value carries a token of its own (zz<number>) that must never show in L's output
    fvals = {}
    for j, (name, flag, (sec, key), idx, _) in enumerate(foreign):
        tok = "zz%d" % (n + 10 * (j + 1))
        fvals[flag] = (tok, "Zz%dP" % (n + 10 * (j + 1)) if "package" not in name else tok + "go" if name == "go-package" else "net.%s.fpk" % tok, idx)

    want7 = [c if c is not None else f for c, f in zip(cli7, file7)]
    refuse_go = L == "go" and want7[6] == ""
    no_scala_package = L == "scala" and want7[4] == ""

    with Scratch() as sc:
        sc.write("ws/proj/src/lib.rs", SRC)
        cwd = sc.path("ws/proj")
        cfg = []
        if have_file and discover == "-c":
            sc.write("cfg/explicit.toml", text)
            cfg = ["-c", sc.path("cfg/explicit.toml")]
        elif have_file:
            sc.write("ws/typeshare.toml", text)
        runs = [0]

        def one(pre, mid1, mid2, post):
            runs[0] += 1
            out = sc.path("out/%d.%s" % (runs[0], ext))
            os.makedirs(os.path.dirname(out), exist_ok=True)
            args = pre + ["--lang", L] + mid1 + own_args + mid2 + ["-o", out] + cfg + post + ["src"]
            r = run_cli(args, cwd=cwd, timeout=60)
            r["output"] = open(out, encoding="utf-8").read() if os.path.exists(out) else None
            r["command"] = "typeshare " + " ".join((a.replace(sc.dir, "<dir>") if a else "''") for a in args)
            return r

        def judge(r, given):
            """the property on what this run wrote: precedence among L's own option and key; nothing of the foreign options"""
            problems = []
            if r["timed_out"]:
                return ["the run does not end"]
            if refuse_go:
                if r["rc"] == 0:
                    problems.append("the run succeeds although no Go package is configured (neither --go-package nor [go] package)")
            elif r["rc"] != 0:
                if not no_scala_package:   # Scala without any package name cannot generate at all (a C07 matter)
                    problems.append("exit status %s: %s" % (r["rc"], last_words(r["err"])))
            if r["rc"] == 0 and r["output"] is not None:
                obs = observe(L, r["output"])
                for name, flag, (sec, key), idx, lang in own:
                    k = name if name != "scala-package" else "scala-package-parent"
                    w = want7[idx] if name != "scala-package" else (want7[idx].rsplit(".", 1)[0] if "." in want7[idx] else "")
                    if lang == L and k in obs and obs[k] != w:
                        problems.append("the generated %s code shows %s = %r; the precedence rule gives %r (%s: %s, [%s] %s: %s)"
                                        % (L, k, obs[k], w, flag, "absent" if cli7[idx] is None else repr(cli7[idx]), sec, key,
                                           repr(file7[idx]) if (sec, key) in shared else "absent"))
                for flag in given:
                    if fvals[flag][0] in r["output"].lower():
                        line = [l for l in r["output"].split("\n") if fvals[flag][0] in l.lower()][0]
                        problems.append("the value of %s, an option of another language, shows in the %s output: %r" % (flag, L, line))
            return problems

        base = one([], [], [], [])
        check.saw(("foreign-options-base", L, own_given, key_present, discover, have_file), nontrivial=own_given or key_present)
        check.count("foreign-options cell: %s own option %s, own key %s" % (L, "given" if own_given else "absent", "present" if key_present else "absent"))
        if base["rc"] != 0:
            check.count("foreign-options: cells in which the run without foreign options is refused (%s)" % L)
        base_case = {"lang": L, "own_options": own_args, "toml": text, "config_found_by": discover if have_file else "no configuration file",
                     "working_directory": "<dir>/ws/proj", "source (src/lib.rs)": SRC}
        problems = judge(base, [])
        if problems:
            check.violation("%s, no foreign options (own options %s, %s): %s" % (L, own_args or "none", "file found by " + discover if have_file else "no file",
                                                                                "; ".join(problems[:3])),
                            case=dict(base_case, command=base["command"]), impl={"rc": base["rc"], "stderr": base["err"][-500:], "output": (base["output"] or "")[-1500:]},
                            failing_input=True)
            return True

        # the variants: which foreign options, where, how spelled
        def groups(opts, empty=False, form=None):
            g = []
            for (name, flag, _, idx, _) in opts:
                v = "" if empty else fvals[flag][1]
                f, a = spell_option(rng, flag, v, form)
                g.append((flag, f, v, a))
            rng.shuffle(g)
            return g

        plans = [("all together", rng.choice(["before", "after", "around"]), groups(foreign))]
        singles = list(foreign)
        rng.shuffle(singles)
        if check.thorough:
            plans = [("all together", pos, groups(foreign)) for pos in ("before", "after", "around")]
            plans += [("all together, every one `--opt=v`", "around", groups(foreign, form="--opt=v")),
                      ("all together, short forms where they exist", "around", groups(foreign, form=rng.choice(["-x v", "-x=v", "-xv"]))),
                      ("all together with empty values", rng.choice(["before", "after", "around"]), groups(foreign, empty=True))]
            plans += [("alone", rng.choice(["before", "after"]), groups([o])) for o in singles]
        else:
            plans += [("alone", rng.choice(["before", "after"]), groups([singles[0]], empty=rng.random() < 0.2))]
            if len(singles) > 1 and rng.random() < 0.5:
                plans += [("two of them", rng.choice(["before", "after", "around"]), groups(singles[1:3]))]

        def place(pos, g):
            slots = {"before": [0, 1], "after": [2, 3], "around": [0, 1, 2, 3]}[pos]
            four = [[], [], [], []]
            for flag, f, v, a in g:
                four[rng.choice(slots)] += a
            return four

        def differs(r):
            if r["timed_out"]:
                return "the run does not end"
            if r["rc"] != base["rc"]:
                if r["rc"] == 0:
                    pk = [l for l in (r["output"] or "").split("\n") if l.startswith("package ")][:2]
                    return ("exit status 0 where the run without them is refused (exit status %s: %s)%s"
                            % (base["rc"], last_words(base["err"].split("\n\nStack backtrace")[0]), "; it generated %s" % pk if pk else ""))
                return "exit status %s (%s) where the run without them has %s" % (r["rc"], last_words(r["err"].split("\n\nStack backtrace")[0]), base["rc"])
            if r["output"] != base["output"]:
                if r["output"] is None or base["output"] is None:
                    return "an output file %s where the run without them %s" % ("is missing" if r["output"] is None else "is written", "writes one" if r["output"] is None else "writes none")
                return "the output differs from that of the run without them: " + first_difference(base["output"], r["output"], "without", "with   ")
            return None

        for label, pos, g in plans:
            r = one(*place(pos, g))
            given = [x[0] for x in g]
            for flag, f, v, a in g:
                check.count("foreign-options spelling: %s%s" % (f, "" if v else " (empty value)"))
                check.count("foreign-options: %s given to %s" % (flag, L))
            check.count("foreign-options variant: %s, %s %s" % (label.split(",")[0], pos, "the own options" if own_given else "(no own option)"))
            check.count("foreign-options runs")
            check.saw(("foreign-options", L, own_given, key_present, discover, have_file, label, pos, tuple((x[0], x[1], bool(x[2])) for x in g)),
                      nontrivial=True)
            d = differs(r)
            problems = ([d] if d else []) + judge(r, given)
            if not problems:
                continue
            # which of them does it alone?
            culprit = None
            if len(g) > 1:
                for x in g:
                    r1 = one(*place(pos, [x]))
                    d1 = differs(r1)
                    p1 = ([d1] if d1 else []) + judge(r1, [x[0]])
                    if p1:
                        culprit, r, problems, given = x, r1, p1, [x[0]]
                        break
            cell = "%s %s, [%s] key%s %s, %s" % (
                "own option%s" % ("s" if len(own) > 1 else "") if own else "no option of its own;",
                ("given (%s)" % " ".join(a or "''" for a in own_args) if own_given else "absent") if own else "",
                L, "s" if len(own) > 1 else "", "present" if key_present else "absent",
                ("configuration %s" % ("given with -c" if discover == "-c" else "found by the ancestor search")) if have_file else "no configuration file")
            check.violation("--lang %s with options of other languages on the command line (%s%s; cell: %s): adding them must change nothing, but: %s"
                            % (L, " ".join(a or "''" for x in ([culprit] if culprit else g) for a in x[3]),
                               " - found with all of %s given, this one does it alone" % [x[0] for x in g] if culprit else "",
                               cell, "; ".join(problems[:3])),
                            case=dict(base_case, foreign_options=[a for x in ([culprit] if culprit else g) for a in x[3]], command=r["command"],
                                      command_without_them=base["command"],
                                      replay="in an empty directory: src/lib.rs = `source`; %s; run `command` and `command_without_them` "
                                             "in ws/proj (src = ws/proj/src) and compare exit status and output"
                                             % ("no typeshare.toml anywhere" if not have_file else "write `toml` to %s" % ("cfg/explicit.toml" if discover == "-c" else "ws/typeshare.toml"))),
                            impl={"rc": r["rc"], "stderr": r["err"].split("\n\nStack backtrace")[0][-600:], "output": (r["output"] or "")[-1500:],
                                  "run_without_them": {"rc": base["rc"], "stderr": base["err"].split("\n\nStack backtrace")[0][-400:], "output": (base["output"] or "")[-1500:]}},
                            failing_input=True)
            return True
        # the model, asked with every option at once
        allcli = list(cli7)
        for flag, (tok, v, idx) in fvals.items():
            allcli[idx] = v
        mwant = [c if c is not None else f for c, f in zip(allcli, file7)]
        pending.append(([S("config"), list(file7) if have_file else None, allcli, L == "go"], mwant, L == "go" and mwant[6] == "",
                        dict(base_case, all_options=allcli)))
    return False


def file_only(check):
    """settings that exist only in the file are applied unchanged"""
    rng = check.rng
    for i in range(12 if check.thorough else 4):
        mapped = "Mapped%d" % rng.randint(0, 999)
        dec = "Deco%d" % rng.randint(0, 999)
        # file-only settings; the acronym list also holds mixed-case entries, entries that differ only in case and an
        # entry given twice (the list must reach the back end as written), the constraint lists are given in a non-sorted order
        acr = rng.sample(["id", "url", "OAuth", "IPv6", "Id", "ID", "api", "macOS"], rng.randint(2, 5))
        acr = acr + ([acr[0]] if rng.random() < 0.3 else [])
        tables = {"swift": {"type_mappings": {"Url": mapped}, "default_decorators": [dec, "Zeta", "Alpha"],
                            "codablevoid_constraints": ["Sendable", "Equatable"], "default_generic_constraints": ["Sendable", "Codable"]},
                  "kotlin": {"type_mappings": {"Url": mapped}}, "scala": {"type_mappings": {"Url": mapped}},
                  "typescript": {"type_mappings": {"Url": mapped}},
                  "go": {"type_mappings": {"Url": mapped}, "uppercase_acronyms": ["id", "url"] + acr, "no_pointer_slice": rng.random() < 0.5},
                  "python": {"type_mappings": {"Url": mapped}}}
        # mappings whose key is a container type, spelled the way the type prints (`HashMap<String,String>`): honoured by the back
        # ends that look special types up in the table (TypeScript, Go, Python)
        cmapped = "StringDict%d" % rng.randint(0, 99)
        for L in ("typescript", "go", "python"):
            tables[L]["type_mappings"]["HashMap<String,String>"] = cmapped
        for L in LANGS:
            with Scratch() as sc:
                sc.write("ws/proj/src/lib.rs", SRC_ACR if L == "go" else SRC_GEN if L == "swift" else SRC)
                sc.write("ws/typeshare.toml", toml_text({}, tables))
                r = run_cli(["--lang", L, "-o", sc.path("out." + EXT[L]), "--swift-prefix", "P"] + lang_args(L) + [sc.path("ws/proj/src")],
                            cwd=sc.path("ws/proj"))
                check.saw(("file-only", L, mapped, dec), nontrivial=True)
                check.count("file-only-" + L)
                if r["rc"] != 0:
                    check.violation("file-only tables (%s): exit %s %s" % (L, r["rc"], r["err"][-300:]), case={"lang": L, "toml": toml_text({}, tables)},
                                    impl={"rc": r["rc"]}, failing_input=True)
                    return
                text = open(sc.path("out." + EXT[L]), encoding="utf-8").read()
                # "applied unchanged": the binary's output equals what the back end writes when it is handed the very values
                # of the file (in-process, bypassing cli/src/main.rs)
                cfg = dict(tables[L], version_header=True, prefix="P" if L == "swift" else "", module_name="",
                           package={"go": "proto", "scala": "com.example", "kotlin": ""}.get(L, ""))
                direct = runner([{"op": "generate", "lang": L, "config": cfg, "multi_file": False, "target_os": [],
                                  "files": [{"src": SRC_ACR if L == "go" else SRC_GEN if L == "swift" else SRC, "crate": "", "file_name": "out", "path": "src/lib.rs"}]}])[0]
                if "ok" in direct and not text.endswith(direct["ok"].get("", "\0")):
                    check.violation("%s: the binary's output under the file-only settings differs from the back end run with exactly those "
                                    "values (the latter is not the tail of the former): %s"
                                    % (L, l2.text_diff(direct["ok"].get("", ""), text[len(text) - len(direct["ok"].get("", "")):])),
                                    case={"lang": L, "toml": toml_text({}, tables)}, impl={"output": text[-2500:]}, model=direct, failing_input=True)
                    return
                missing = []
                if L == "swift":
                    # every generic parameter - annotated with constraints of its own or not - carries the configured ones
                    for m in re.finditer(r"^public (?:struct|enum|indirect enum) \w+<([^>]*)>", text, re.M):
                        for param in m.group(1).split(", "):
                            have = set(x.strip() for x in param.partition(":")[2].split("&"))
                            lack = [c for c in tables["swift"]["default_generic_constraints"] if c not in have]
                            if lack:
                                missing.append("default_generic_constraints %s on the generic parameter `%s`" % (lack, param))
                if L in ("typescript", "go", "python") and cmapped not in text:
                    missing.append("type mapping HashMap<String,String> -> %s" % cmapped)
                if mapped not in text:
                    missing.append("type mapping Url -> %s" % mapped)
                if L == "swift" and dec not in text:
                    missing.append("default decorator %s" % dec)
                if L == "go" and ("ID " not in text or "URL " not in text):
                    missing.append("uppercase_acronyms")
                if missing:
                    check.violation("%s: file-only setting not applied: %s" % (L, ", ".join(missing)),
                                    case={"lang": L, "toml": toml_text({}, tables)}, impl={"output": text[-1500:]}, failing_input=True)
                    return


def generate_config(check):
    """-g writes command line over defaults, never overwrites, and reloads to the same output"""
    rng = check.rng
    for i in range(8 if check.thorough else 3):
        vals = {"--swift-prefix": "SP%d" % i, "--kotlin-prefix": "KP%d" % i, "--java-package": "com.j%d" % i,
                "--module-name": "km%d" % i, "--scala-package": "org.s%d.x" % i, "--scala-module-name": "sm%d" % i,
                "--go-package": "gp%d" % i}
        chosen = {k: v for k, v in vals.items() if rng.random() < 0.6}
        with Scratch() as sc:
            sc.write("ws/proj/src/lib.rs", SRC)
            cfgp = sc.path("ws/gen.toml")
            args = [a for kv in chosen.items() for a in kv]
            r = run_cli(["-g", "-c", cfgp] + args + [sc.path("ws/proj/src")], cwd=sc.path("ws"))
            check.saw(("generate-config", json.dumps(chosen, sort_keys=True)), nontrivial=bool(chosen))
            check.count("generate-config")
            if r["rc"] != 0 or not os.path.exists(cfgp):
                check.violation("-g failed: %s" % r["err"][-300:], case={"options": chosen}, impl={"rc": r["rc"]}, failing_input=True)
                return
            written = tomllib.loads(open(cfgp, encoding="utf-8").read())
            for name, flag, (sec, key), idx, lang in OPTS:
                want = chosen.get(flag, "")
                got = written.get(sec, {}).get(key, "")
                if got != want:
                    check.violation("-g wrote %s.%s = %r, the options give %r" % (sec, key, got, want),
                                    case={"options": chosen}, impl={"toml": open(cfgp).read()}, failing_input=True)
                    return
            before = snapshot(sc.path("ws"))
            r2 = run_cli(["-g", "-c", cfgp, "--swift-prefix", "Other", sc.path("ws/proj/src")], cwd=sc.path("ws"))
            if r2["rc"] == 0 or snapshot(sc.path("ws")) != before:
                check.violation("-g overwrote an existing configuration file", case={"options": chosen},
                                impl={"rc": r2["rc"]}, failing_input=True)
                return
            # whatever the existing file holds (nothing at all, blanks, a comment, another configuration, not even TOML) and however
            # the target is named (-c, or the default ./typeshare.toml), -g refuses and leaves it as it is
            for content in ["", "\n", "# keep me\n", "[swift]\nprefix = \"Pinned\"\n", "not toml at all ]]\n"]:
                for explicit in (True, False):
                    target = sc.path("ws/pre/typeshare.toml")
                    sc.write("ws/pre/typeshare.toml", content)
                    before = snapshot(sc.path("ws"))
                    r3 = run_cli(["-g"] + (["-c", target] if explicit else []) + ["--swift-prefix", "Other", sc.path("ws/proj/src")],
                                 cwd=sc.path("ws/pre"))
                    check.saw(("generate-config-existing", content, explicit, i), nontrivial=True)
                    check.count("generate-config-existing-%s" % ("empty" if not content else "nonempty"))
                    if r3["rc"] == 0 or snapshot(sc.path("ws")) != before:
                        check.violation("-g wrote into an existing configuration file (%d bytes: %r, named %s)"
                                        % (len(content), content, "by -c" if explicit else "by default"), case={"existing_content": content, "explicit": explicit},
                                        impl={"rc": r3["rc"], "now": open(target).read()}, failing_input=True)
                        return
            # reload: same generated code as with the options themselves
            for L in ("swift", "kotlin"):
                a = run_cli(["--lang", L, "-o", sc.path("a." + EXT[L])] + args + [sc.path("ws/proj/src")], cwd=sc.path("ws/proj"))
                b = run_cli(["--lang", L, "-o", sc.path("b." + EXT[L]), "-c", cfgp, sc.path("ws/proj/src")], cwd=sc.path("ws/proj"))
                ta = open(sc.path("a." + EXT[L])).read() if a["rc"] == 0 else None
                tb = open(sc.path("b." + EXT[L])).read() if b["rc"] == 0 else None
                if ta != tb:
                    check.violation("the configuration written by -g does not reload to the same %s output" % L,
                                    case={"options": chosen}, impl={"with_options": ta, "with_file": tb}, failing_input=True)
                    return
    check.sample({"generate_config_options": chosen, "written_toml": written})
