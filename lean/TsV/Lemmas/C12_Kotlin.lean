import TsV.Lemmas.C12_Common
/-!
# C12, Kotlin: the two serialization annotations are imported by `begin_file` — which writes
nothing at all when no package is configured
-/
namespace TsV.C12L.Kotlin
open TsV TsV.Lang TsV.Lang.Kotlin TsV.C12L

def kSerializable : Str := s%"Serializable"
def kSerialName : Str := s%"SerialName"

/-- binding semantics: the annotation a constructor parameter carries -/
def paramUses (p : KtParam) : List Str := if p.serialName.isSome then [kSerialName] else []

/-- binding semantics: the kotlinx.serialization names a declaration's text mentions (`renderDecl`,
`renderParam`, `renderEntry`, `renderCase`).  (`@JvmInline` is `kotlin.jvm.JvmInline`, imported by
default on the JVM.) -/
def declUses : KtDecl → List Str
  | .typeAlias _ _ _ _ => []
  | .valueClass _ _ p _ => kSerializable :: paramUses p
  | .object _ _ => [kSerializable]
  | .dataClass _ _ _ ps _ => kSerializable :: ps.flatMap paramUses
  | .enumClass _ _ _ entries => kSerializable :: (if entries.isEmpty then [] else [kSerialName])
  | .sealedClass _ _ _ cases => kSerializable :: (if cases.isEmpty then [] else [kSerialName])

theorem declUses_sub (d : KtDecl) : ∀ n ∈ declUses d, n = kSerializable ∨ n = kSerialName := by
  intro n hn
  cases d with
  | typeAlias => simp [declUses] at hn
  | valueClass c nm p r =>
    simp only [declUses, List.mem_cons, paramUses] at hn
    rcases hn with h | h
    · exact Or.inl h
    · split at h <;> simp_all
  | object => simp only [declUses, List.mem_singleton] at hn; exact Or.inl hn
  | dataClass c nm g ps r =>
    simp only [declUses, List.mem_cons, List.mem_flatMap, paramUses] at hn
    rcases hn with h | ⟨p, _, h⟩
    · exact Or.inl h
    · split at h <;> simp_all
  | enumClass c nm g es =>
    simp only [declUses, List.mem_cons] at hn
    rcases hn with h | h
    · exact Or.inl h
    · split at h <;> simp_all
  | sealedClass c nm g cs =>
    simp only [declUses, List.mem_cons] at hn
    rcases hn with h | h
    · exact Or.inl h
    · split at h <;> simp_all

/-- the two import lines of `begin_file` -/
def importLines : Str := s%"\nimport kotlinx.serialization.Serializable\nimport kotlinx.serialization.SerialName\n\n"

/-- **helpersProvided (Kotlin)** -/
def provided (cfg : Cfg) : List Str := if cfg.package.isEmpty then [] else [kSerializable, kSerialName]

theorem beginFile_imports (cfg : Cfg) (d : ParsedData) (h : cfg.package.isEmpty = false) :
    importLines <:+ beginFile cfg d := by
  unfold beginFile
  simp only [h, Bool.false_eq_true, if_false]
  exact ⟨_, rfl⟩

theorem beginFile_empty (cfg : Cfg) (d : ParsedData) (h : cfg.package.isEmpty = true) : beginFile cfg d = [] := by
  simp [beginFile, h]

/-- the shape of one output file -/
theorem generate_spec (cfg : Cfg) (d : ParsedData) (imps : Option Pipeline.ScopedCrateTypes) (text : Str)
    (h : generate cfg d imps = .ok text) :
    ∃ items decls, Pipeline.generateOrder d = some items ∧ itemsFacts cfg items = .ok decls ∧
      text = beginFile cfg d ++ (if d.multiFile then writeImports cfg (imps.getD []) else []) ++
        decls.flatMap renderDecl := by
  unfold generate at h
  cases ho : Pipeline.generateOrder d with
  | none => rw [ho] at h; simp at h
  | some items =>
    rw [ho] at h
    simp only [bind_ok_iff] at h
    obtain ⟨decls, h1, h2⟩ := h
    simp only [Outcome.ok.injEq] at h2
    exact ⟨items, decls, rfl, h1, h2.symm⟩

end TsV.C12L.Kotlin
