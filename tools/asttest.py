"""Validation of the source -> abstract-AST translator (runner op `ast`):
for random abstract files f from `Gen`, sx(sx_file(f, render_file(f))) == ast(render_file(f)) textually, and the
`ext` table the translator computes for the `serialized_as` strings equals the generator's.

usage: python3 tools/asttest.py <seed> <n>
"""
import sys, random, os
sys.path.insert(0, os.path.dirname(os.path.abspath(__file__)))
import common
from common import S, sx, runner
from syn_gen import *
from gen import Gen, TYPE_WORDS

# the option sets the checks use (c03, c05/l2test, c07, c08, c10, c13, c14/l1multi, c17, defaults)
OPTION_SETS = [
    dict(),
    dict(p_skip=0.25, p_mod=0.35, p_noise=0.4, p_cfg=0.12, p_unsupported=0.03, p_edge=0.05),
    dict(p_cfg=0.0, p_edge=0.0, p_decorators=0.15, p_doc=0.4),
    dict(p_cfg=0.0, p_edge=0.0, p_decorators=0.15, p_doc=0.4, multi_file=True, crates=["alpha", "beta_x"]),
    dict(p_edge=0.35, p_unsupported=0.05, p_cfg=0.1, nonascii=0.15, p_flatten=0.03, p_const=0.5),
    dict(p_skip=0.0, p_serialized_as=0.0, p_cfg=0.0, p_mod=0.15, p_noise=0.2),
    dict(p_cfg=0.45, p_skip=0.05, p_mod=0.2, p_noise=0.2, p_serialized_as=0.0),
    dict(p_serialized_as=0.0, p_decorators=0.0, p_cfg=0.0, p_const=0.0, p_mod=0.1, p_noise=0.1, multi_file=True,
         crates=["alpha", "beta_x", "gamma"]),
    dict(p_cfg=0.1, p_edge=0.2, multi_file=True, crates=["alpha", "beta_x", "gamma"], nonascii=0.05),
    dict(p_cfg=0.15, p_edge=0.5, p_unsupported=0.05, p_flatten=0.03, nonascii=0.1),
    dict(p_serialized_as=0.3, p_decorators=0.3, p_type_decorators=0.3, p_doc=0.6, p_redacted=0.2),
    dict(p_doc=0.9, doc_alphabet=list("ab \t*#\\\"'`éあ")),
]


def patch(it, s):
    """the generator's s-expression of an item, with the one piece of source information `sx_item` drops put back:
    the initialiser `None` of the `let _: Option<p> = None;` statements of an `other` item is a path expression the
    real visitor's `visit_path` is called on (a one-segment path: it can never be an import)"""
    k = it["kind"]
    if k == "mod":
        s[3] = [patch(x, y) for x, y in zip(it["items"], s[3])]
    elif k == "other":
        paths = []
        for p in it["paths"]:
            paths += [["Option"], list(p), ["None"]]
        s[1] = paths
        s[2] = [patch(x, y) for x, y in zip(it["items"], s[2])]
    return s


EDGE_ATTRS = [
    m_list("cfg", [m_list("version", [], parsed=False, raw='"1.0"')]),          # nested tokens that are not a meta list
    m_list("cfg", [m_nv("target_os", ("i", 1, ""))]),
    m_list("cfg", [m_nv("target_os", None)]),                                   # a non-literal value
    m_list("cfg", [m_list("any", [m_nv("target_os", lit_s("ios")), m_list("not", [m_nv("target_os", lit_s("macos"))])])]),
    m_nv("path", lit_s("foo.rs")),
    m_nv("some_attr", ("i", 7, "u8")),
    m_nv("some_attr", ("o", "1.5")),
    m_nv("some_attr", ("o", "true")),
    m_list("serde", [], parsed=False, raw="this is not meta +"),
    m_list("typeshare", [], parsed=False, raw="= 3"),
    m_list("serde", []),
    m_list("serde", [m_list("rename", [m_nv("serialize", lit_s("a")), m_nv("deserialize", lit_s("b"))])]),
    m_list("typeshare", [m_list("typescript", [m_nv("type", lit_s("x")), m_path("readonly")])]),
    m_list("typeshare", [m_list("typescript", [], parsed=False, raw='type = "a" "b"')]),
    m_list("typeshare", [m_list("kotlin", [], parsed=False, raw="type = 5")]),
    m_list("typeshare", [m_list("python", [m_path("a", "b")])]),
    m_list(["foo", "typeshare", "bar"], [m_path("x")]),
    m_path("serde"),
    m_path("non_exhaustive"),
    m_list("repr", [m_path("u8")]),
    m_list("allow", [m_path("clippy", "all")]),
]


def inject_edge_attrs(rng, f):
    """attribute shapes the generator never draws, attached to random items, variants and fields"""
    def visit(items):
        for it in items:
            k = it["kind"]
            if k in ("mod", "other"):
                visit(it["items"])
            if k in ("struct", "enum", "alias", "const", "mod") and rng.random() < 0.5:
                it["attrs"] = list(it["attrs"])
                it["attrs"].insert(rng.randint(0, len(it["attrs"])), rng.choice(EDGE_ATTRS))
            members = []
            if k == "struct" and it["fields"][0] != "unit":
                members = it["fields"][1]
            if k == "enum":
                members = list(it["variants"])
                for v in it["variants"]:
                    if v["fields"][0] != "unit":
                        members += v["fields"][1]
            for m in members:
                if rng.random() < 0.3:
                    m["attrs"] = list(m["attrs"])
                    m["attrs"].insert(rng.randint(0, len(m["attrs"])), rng.choice(EDGE_ATTRS))
    visit(f["items"])


def expected(f, text):
    e = sx_file(f, text)
    e[2] = [patch(it, x) for it, x in zip(f["items"], e[2])]
    return e


def run(seed, n, verbose=True):
    rng = random.Random(seed)
    cases = []
    for i in range(n):
        opts = OPTION_SETS[i % (len(OPTION_SETS) + 1)] if i % (len(OPTION_SETS) + 1) < len(OPTION_SETS) else None
        if opts is None:
            # the doc-string generator of C15 (line breaks, comment closers, triple quotes in doc strings)
            import c15
            exclude = {c for c in ("newline", "tsclose", "triple") if rng.random() < 0.5}
            opts = {}
            g = c15.DocGen(rng, exclude, p_doc=0.85, p_skip=0.0, p_cfg=0.0, p_edge=0.0, p_const=0.0, p_serialized_as=0.0,
                           p_unsupported=0.0, p_noise=0.15, p_mod=0.15, max_depth=2, p_decorators=0.03, p_type_decorators=0.03)
        else:
            g = Gen(rng, **opts)
        if opts.get("multi_file") and rng.random() < 0.5:
            f = g.file(names=rng.sample(TYPE_WORDS, rng.randint(1, 4)), extern_types=rng.sample(TYPE_WORDS, 2))
            if rng.random() < 0.5:
                f["items"].append({"kind": "other", "ident": "helper",
                                   "paths": [rng.choice([["alpha", "Ext1"], ["crate", "x", "Remote"], ["std", "Foo"],
                                                         ["beta_x", "m", "Shared"], ["Foo", "Bar"], ["super", "Ext2"]])],
                                   "items": []})
        else:
            f = g.file()
        if rng.random() < 0.25:
            inject_edge_attrs(rng, f)
        text = render_file(f)
        cases.append((f, text, g))
    ans = runner([{"op": "ast", "src": t} for _, t, _ in cases])
    agree, bad, kinds = 0, [], {}
    for (f, text, g), a in zip(cases, ans):
        want = sx(expected(f, text))
        k = "ok" if "ok" in a else [x for x in a if x != "edits"][0]
        kinds[k] = kinds.get(k, 0) + 1
        if a.get("ok") != want:
            bad.append((text, want, a))
            continue
        # the ext table: every serialized_as string the generator recorded must be there with the same type
        got = {k: v for k, v in a["ext"]}
        ok = True
        for k, v in g.ext.items():
            if k not in got:
                # the generator records every string it ever drew; a row is required when the string is in the text
                if k and k in text:
                    bad.append((text, "ext row for %r missing" % k, {"ext": sorted(got)}))
                    ok = False
                    break
                continue
            w = sx(sx_type(v)) if v is not None else None
            if got[k] != w:
                bad.append((text, "ext %r -> %s" % (k, w), {"ext": got[k]}))
                ok = False
                break
        if ok:
            agree += 1
    if verbose:
        print("asttest seed=%d: %d files, %d agree, %d differ; answers %s" % (seed, n, agree, len(bad), kinds))
        for text, want, a in bad[:3]:
            print("-----\n" + text)
            got = a.get("ok", str(a))
            i = 0
            while i < min(len(got), len(want)) and got[i] == want[i]:
                i += 1
            print("want: …%s" % want[max(0, i - 80):i + 160])
            print("got : …%s" % got[max(0, i - 80):i + 160])
    return agree, bad


if __name__ == "__main__":
    common.build_runner()
    seed = int(sys.argv[1]) if len(sys.argv) > 1 else 1
    n = int(sys.argv[2]) if len(sys.argv) > 2 else 1000
    agree, bad = run(seed, n)
    sys.exit(1 if bad else 0)
