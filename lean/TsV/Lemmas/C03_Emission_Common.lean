import TsV.Lemmas.C03_Emission_Spec
import TsV.Lemmas.C09_Tie
import TsV.Lemmas.C12_Common
/-!
# C03, emission clause — lemmas shared by the six back ends
-/
namespace TsV.C03E
open TsV TsV.Lang

export TsV.C09 (bindOk)

/-! ## blocks written by a state-threading printer -/

/-- `blocks` are the texts `w` writes for `items`, one per item, in order, the printer state being
handed from one item to the next (`st` before the first, `st'` after the last) -/
inductive Threaded {σ : Type} (w : RustItem → σ → Outcome (Str × σ)) : List RustItem → σ → List Str → σ → Prop
  | nil (st : σ) : Threaded w [] st [] st
  | cons {it : RustItem} {its : List RustItem} {st st1 st2 : σ} {b : Str} {bs : List Str} :
      w it st = .ok (b, st1) → Threaded w its st1 bs st2 → Threaded w (it :: its) st (b :: bs) st2

theorem Threaded.length {σ} {w : RustItem → σ → Outcome (Str × σ)} {items st blocks st'}
    (h : Threaded w items st blocks st') : blocks.length = items.length := by
  induction h with
  | nil => rfl
  | cons _ _ ih => simp [ih]

/-- index form: there is a list of `items.length + 1` states, starting at `st` and ending at `st'`,
such that the k-th block is what `w` writes for the k-th item in the k-th state -/
theorem Threaded.nth {σ} {w : RustItem → σ → Outcome (Str × σ)} {items st blocks st'}
    (h : Threaded w items st blocks st') :
    ∃ sts : List σ, sts.length = items.length + 1 ∧ sts[0]? = some st ∧ sts[items.length]? = some st' ∧
      ∀ k it, items[k]? = some it →
        ∃ s s' b, sts[k]? = some s ∧ sts[k+1]? = some s' ∧ blocks[k]? = some b ∧ w it s = .ok (b, s') := by
  induction h with
  | nil st => exact ⟨[st], rfl, rfl, rfl, fun k it hk => by simp at hk⟩
  | @cons it its st st1 st2 b bs hw _ ih =>
    obtain ⟨sts, hl, h0, hlast, hall⟩ := ih
    refine ⟨st :: sts, by simp [hl], rfl, by simpa using hlast, ?_⟩
    intro k x hk
    cases k with
    | zero =>
      simp at hk; subst hk
      exact ⟨st, st1, b, rfl, by simpa using h0, rfl, hw⟩
    | succ j =>
      obtain ⟨s, s', b', h1, h2, h3, h4⟩ := hall j x (by simpa using hk)
      exact ⟨s, s', b', by simpa using h1, by simpa using h2, by simpa using h3, h4⟩

/-- every item of a threaded run was written successfully in some state -/
theorem Threaded.all_ok {σ} {w : RustItem → σ → Outcome (Str × σ)} {items st blocks st'}
    (h : Threaded w items st blocks st') : ∀ it ∈ items, ∃ s b s', w it s = .ok (b, s') := by
  induction h with
  | nil => intro it hit; simp at hit
  | cons hw _ ih =>
    intro x hx
    rcases List.mem_cons.1 hx with rfl | hx
    · exact ⟨_, _, _, hw⟩
    · exact ih x hx

theorem Paired.length_eq {α β} {R : α → β → Prop} {l1 : List α} {l2 : List β} (h : Paired R l1 l2) :
    l1.length = l2.length := by
  induction h with
  | nil => rfl
  | cons _ _ ih => simp [ih]

theorem Paired.append {α β} {R : α → β → Prop} {l1 l1' : List α} {l2 l2' : List β} (h : Paired R l1 l2)
    (h' : Paired R l1' l2') : Paired R (l1 ++ l1') (l2 ++ l2') := by
  induction h with
  | nil => exact h'
  | cons hr _ ih => exact .cons hr ih

theorem Paired.nth {α β} {R : α → β → Prop} {l1 : List α} {l2 : List β} (h : Paired R l1 l2) :
    ∀ (k : Nat) (a : α), l1[k]? = some a → ∃ b, l2[k]? = some b ∧ R a b := by
  induction h with
  | nil => intro k a hk; simp at hk
  | cons hr _ ih =>
    intro k x hk
    cases k with
    | zero => simp at hk; subst hk; exact ⟨_, rfl, hr⟩
    | succ j => simpa using ih j x (by simpa using hk)

theorem Paired.mono {α β} {R S : α → β → Prop} {l1 : List α} {l2 : List β} (h : Paired R l1 l2)
    (hrs : ∀ a b, R a b → S a b) : Paired S l1 l2 := by
  induction h with
  | nil => exact .nil
  | cons hr _ ih => exact .cons (hrs _ _ hr) ih

/-- blocks and items are paired up one to one -/
theorem Threaded.forall₂ {σ} {w : RustItem → σ → Outcome (Str × σ)} {items st blocks st'}
    (h : Threaded w items st blocks st') :
    Paired (fun it b => ∃ s s', w it s = .ok (b, s')) items blocks := by
  induction h with
  | nil => exact .nil
  | cons hw _ ih => exact .cons ⟨_, _, hw⟩ ih

/-! ## line starts and name ends -/

theorem lineStart_nil : LineStart [] := .inl rfl

theorem lineStart_nl (p : Str) : LineStart (p ++ ['\n']) := .inr (by simp)

theorem lineStart_append {p q : Str} (hp : LineStart p) (hq : LineStart q) : LineStart (p ++ q) := by
  rcases hq with rfl | hq
  · simpa using hp
  · exact .inr (by simp [List.getLast?_append, hq])

theorem lineStart_append_right (p : Str) {q : Str} (hq : q.getLast? = some '\n') : LineStart (p ++ q) :=
  .inr (by simp [List.getLast?_append, hq])

theorem lineStart_flatMap {α} (f : α → Str) (l : List α) (h : ∀ x ∈ l, LineStart (f x)) :
    LineStart (l.flatMap f) := by
  induction l with
  | nil => exact lineStart_nil
  | cons x t ih =>
    simp only [List.flatMap_cons]
    exact lineStart_append (h x (by simp)) (ih fun y hy => h y (by simp [hy]))

theorem nameEnd_cons {c : Char} (r : Str) (h : c ∈ delims) : NameEnd (c :: r) := ⟨c, r, rfl, h⟩

theorem nameEnd_append {p : Str} (q : Str) (h : NameEnd p) : NameEnd (p ++ q) := by
  obtain ⟨c, r, rfl, hc⟩ := h
  exact ⟨c, r ++ q, rfl, hc⟩

/-- `<A, B>` or nothing, then something that starts with a delimiter -/
theorem nameEnd_genericSuffix (gs : List Str) {q : Str} (h : NameEnd q) : NameEnd (genericSuffix gs ++ q) := by
  unfold genericSuffix
  split
  · simpa using h
  · exact nameEnd_append _ (nameEnd_cons _ (by simp [delims]))

theorem definesHead_mk {kw n chunk : Str} (pre post : Str) (h : chunk = pre ++ kw ++ n ++ post)
    (h1 : LineStart pre) (h2 : NameEnd post) : DefinesHead kw n chunk := ⟨pre, post, h, h1, h2⟩

/-- the same for a right-nested concatenation (what `simp only [List.append_assoc]` produces) -/
theorem definesHead_r {kw n : Str} (pre post : Str) (h1 : LineStart pre) (h2 : NameEnd post) :
    DefinesHead kw n (pre ++ (kw ++ (n ++ post))) := ⟨pre, post, by simp [List.append_assoc], h1, h2⟩

/-- the definition is the very first thing in the chunk -/
theorem definesHead_r0 {kw n : Str} (post : Str) (h2 : NameEnd post) : DefinesHead kw n (kw ++ (n ++ post)) :=
  ⟨[], post, by simp [List.append_assoc], lineStart_nil, h2⟩

/-- more text in front, as long as it ends a line -/
theorem definesHead_prepend {kw n chunk : Str} (p : Str) (hp : LineStart p) (h : DefinesHead kw n chunk) :
    DefinesHead kw n (p ++ chunk) := by
  obtain ⟨pre, post, rfl, h1, h2⟩ := h
  exact ⟨p ++ pre, post, by simp [List.append_assoc], lineStart_append hp h1, h2⟩

theorem definesHead_append {kw n chunk : Str} (q : Str) (h : DefinesHead kw n chunk) :
    DefinesHead kw n (chunk ++ q) := by
  obtain ⟨pre, post, rfl, h1, h2⟩ := h
  exact ⟨pre, post ++ q, by simp [List.append_assoc], h1, nameEnd_append _ h2⟩

/-! ## splitting a block -/

theorem splitsInto_single {kw n block : Str} (h : DefinesHead kw n block) : SplitsInto [(kw, n)] block :=
  ⟨[], [block], by simp, by simp, .cons h .nil⟩

theorem splitsInto_nil : SplitsInto [] [] := ⟨[], [], rfl, by simp, .nil⟩

/-- chunks side by side -/
theorem splitsInto_chunks {defs : List (Str × Str)} {chunks : List Str}
    (h : Paired (fun d c => DefinesHead d.1 d.2 c) defs chunks) : SplitsInto defs chunks.flatten :=
  ⟨[], chunks, by simp, by simp, h⟩

theorem splitsInto_append {d1 d2 : List (Str × Str)} {b1 b2 : Str} (h1 : SplitsInto d1 b1)
    (h2 : ∃ chunks, b2 = chunks.flatten ∧ Paired (fun d c => DefinesHead d.1 d.2 c) d2 chunks) :
    SplitsInto (d1 ++ d2) (b1 ++ b2) := by
  obtain ⟨lead, c1, rfl, hl, f1⟩ := h1
  obtain ⟨c2, rfl, f2⟩ := h2
  exact ⟨lead, c1 ++ c2, by simp [List.append_assoc], hl, f1.append f2⟩

/-- one more definition at the end -/
theorem splitsInto_snoc {d1 : List (Str × Str)} {b1 : Str} {kw n c : Str} (h1 : SplitsInto d1 b1)
    (h2 : DefinesHead kw n c) : SplitsInto (d1 ++ [(kw, n)]) (b1 ++ c) :=
  splitsInto_append h1 ⟨[c], by simp, .cons h2 .nil⟩

theorem splitsInto_lead {defs : List (Str × Str)} {b : Str} (lead : Str) (hl : ∀ c ∈ lead, c = '\n')
    (h : SplitsInto defs b) : SplitsInto defs (lead ++ b) := by
  obtain ⟨l0, cs, rfl, h0, f⟩ := h
  exact ⟨lead ++ l0, cs, by simp [List.append_assoc],
    fun c hc => (List.mem_append.1 hc).elim (hl c) (h0 c), f⟩

theorem SplitsInto.length {defs : List (Str × Str)} {b : Str} (h : SplitsInto defs b) :
    ∃ (lead : Str) (chunks : List Str), b = lead ++ chunks.flatten ∧ chunks.length = defs.length := by
  obtain ⟨lead, cs, hb, _, f⟩ := h
  exact ⟨lead, cs, hb, f.length_eq.symm⟩

/-- `Paired` from two maps of one list -/
theorem paired_map {α β γ} (R : β → γ → Prop) (f : α → β) (g : α → γ) (l : List α)
    (h : ∀ x ∈ l, R (f x) (g x)) : Paired R (l.map f) (l.map g) := by
  induction l with
  | nil => exact .nil
  | cons x t ih => exact .cons (h x (by simp)) (ih fun y hy => h y (by simp [hy]))

theorem structVariantsOf_eq (e : RustEnum) : structVariantsOf e = structVariants e := rfl

end TsV.C03E
