import TsV.Lemmas.C14_Imports_Text
/-!
# C20_FolderMappings — helper lemmas

* **Modelled here (not in `Model/`)**: the six `type_mappings` tables of `typeshare.toml` (`Tables`) and
  `cli/src/main.rs::language(language_type, config, multi_file)`, which hands the back end of language
  `L` the table `config.L.type_mappings` (`language`).  `Model/Config.lean` keeps the file-only
  settings abstract (`Config.rest`, "applied unchanged"); this is the part of `rest` the statements
  need.
* the visitor never records an import whose type name is in `ctx.ignoredTypes`
  (`visitItems_clean`, `parseFile_clean`), neither does the collector (`collect_clean`).
-/
namespace TsV.C20_FolderMappings
open TsV TsV.Syn TsV.Visitor TsV.Pipeline TsV.Collect TsV.C06M TsV.C14I TsV.Generate

/-! ## the six tables and `language()` -/

/-- `[typescript.type_mappings]`, `[kotlin.type_mappings]`, … of one `typeshare.toml` -/
structure Tables where
  typescript : List (Str × Str) := []
  kotlin : List (Str × Str) := []
  swift : List (Str × Str) := []
  scala : List (Str × Str) := []
  go : List (Str × Str) := []
  python : List (Str × Str) := []

def langOf : LangCfg → TsV.Lang
  | .typescript _ => .typescript | .kotlin _ => .kotlin | .swift _ => .swift
  | .scala _ => .scala | .go _ => .go | .python _ => .python

def Tables.of (t : Tables) : TsV.Lang → List (Str × Str)
  | .typescript => t.typescript | .kotlin => t.kotlin | .swift => t.swift
  | .scala => t.scala | .go => t.go | .python => t.python

/-- `language(language_type, config, _)`: the back end value of the language under generation gets
`config.<that language>.type_mappings` (`base` carries the language and its other settings) -/
def language (base : LangCfg) (t : Tables) : LangCfg :=
  match base with
  | .typescript c => .typescript { c with typeMappings := t.typescript }
  | .kotlin c => .kotlin { c with typeMappings := t.kotlin }
  | .swift c => .swift { c with typeMappings := t.swift }
  | .scala c => .scala { c with typeMappings := t.scala }
  | .go c => .go { c with typeMappings := t.go }
  | .python c => .python { c with typeMappings := t.python }

/-- the table a back end value carries -/
def mappingsOf : LangCfg → List (Str × Str)
  | .typescript c => c.typeMappings | .kotlin c => c.typeMappings | .swift c => c.typeMappings
  | .scala c => c.typeMappings | .go c => c.typeMappings | .python c => c.typeMappings

/-! ## no import of an ignored name -/

/-- no recorded import names a type of the ignore list -/
def Clean (ctx : ParseContext) (d : ParsedData) : Prop :=
  ∀ i ∈ d.importTypes, ctx.ignoredTypes.contains i.typeName = false

theorem clean_of_imports_eq {ctx : ParseContext} {d d' : ParsedData} (h : d'.importTypes = d.importTypes) (hc : Clean ctx d) :
    Clean ctx d' := by
  intro i hi; rw [h] at hi; exact hc i hi

theorem addImports_clean (ctx : ParseContext) (d : ParsedData) (imps : List ImportedType) (hc : Clean ctx d)
    (hi : ∀ i ∈ imps, ctx.ignoredTypes.contains i.typeName = false) : Clean ctx (addImports d imps) := by
  intro i hm
  rcases (mem_addImports d imps i).1 hm with h | h
  · exact hc i h
  · exact hi i h

theorem importOfPath_clean (E : Ext) (ctx : ParseContext) (cn : Str) (segs : List Str) (i : ImportedType)
    (h : importOfPath E ctx cn segs = some i) : ctx.ignoredTypes.contains i.typeName = false := by
  unfold importOfPath at h
  split at h
  · split at h
    · rename_i hc
      simp only [Option.some.injEq] at h
      subst h
      simp only [Bool.and_eq_true, Bool.not_eq_true'] at hc
      exact hc.1.2
    · cases h
  · cases h

theorem addPaths_clean (E : Ext) (ctx : ParseContext) (d : ParsedData) (ps : List (List Str)) (hc : Clean ctx d) :
    Clean ctx (addPaths E ctx d ps) := by
  unfold addPaths
  split
  · apply addImports_clean ctx d _ hc
    intro i hi
    obtain ⟨segs, _, hs⟩ := List.mem_filterMap.1 hi
    exact importOfPath_clean E ctx d.crateName segs i hs
  · exact hc

theorem collectIf_clean (ctx : ParseContext) (fp : Str) (d d' : ParsedData) (attrs : List Attr) (o : Outcome RustItem)
    (h : collectIf ctx fp d attrs o = .ok d') (hc : Clean ctx d) : Clean ctx d' := by
  unfold collectIf at h
  split at h
  · cases o with
    | ok it =>
      simp only [collectResult, Outcome.ok.injEq] at h; subst h
      cases it <;> exact clean_of_imports_eq rfl hc
    | err e =>
      simp only [collectResult, Outcome.ok.injEq] at h; subst h
      exact clean_of_imports_eq rfl hc
    | panic s => cases h
  · simp only [pure, Outcome.ok.injEq] at h; subst h; exact hc

theorem collectThenPaths_clean (E : Ext) (ctx : ParseContext) (fp : Str) (d d' : ParsedData) (attrs : List Attr)
    (o : Outcome RustItem) (ps : List (List Str))
    (h : ((collectIf ctx fp d attrs o).bind fun d₁ => pure (addPaths E ctx d₁ ps)) = .ok d') (hc : Clean ctx d) :
    Clean ctx d' := by
  obtain ⟨d₁, h1, h2⟩ := (Outcome.bind_eq_ok _ _ _).1 h
  simp only [pure, Outcome.ok.injEq] at h2; subst h2
  exact addPaths_clean E ctx d₁ ps (collectIf_clean ctx fp d d₁ attrs o h1 hc)

mutual
  theorem visitItem_clean (E : Ext) (ctx : ParseContext) (fp : Str) :
      ∀ (it : Item) (d d' : ParsedData), visitItem E ctx fp d it = .ok d' → Clean ctx d → Clean ctx d'
    | .struct a i g f, d, d', h, hc => by
      simp only [visitItem] at h; exact collectThenPaths_clean E ctx fp d d' a _ _ h hc
    | .enum a i g v, d, d', h, hc => by
      simp only [visitItem] at h; exact collectThenPaths_clean E ctx fp d d' a _ _ h hc
    | .alias a i g t, d, d', h, hc => by
      simp only [visitItem] at h; exact collectThenPaths_clean E ctx fp d d' a _ _ h hc
    | .const a i t l, d, d', h, hc => by
      simp only [visitItem] at h; exact collectThenPaths_clean E ctx fp d d' a _ _ h hc
    | .use t, d, d', h, hc => by
      simp only [visitItem] at h
      split at h
      · simp only [pure, Outcome.ok.injEq] at h; subst h
        apply addImports_clean ctx d _ hc
        intro i hi
        have := (List.mem_filter.1 hi).2
        simpa using this
      · simp only [pure, Outcome.ok.injEq] at h; subst h; exact hc
    | .mod a i items, d, d', h, hc => by
      simp only [visitItem] at h
      exact visitItems_clean E ctx fp items _ d' h (addPaths_clean E ctx d _ hc)
    | .other p items, d, d', h, hc => by
      simp only [visitItem] at h
      exact visitItems_clean E ctx fp items _ d' h (addPaths_clean E ctx d _ hc)
  theorem visitItems_clean (E : Ext) (ctx : ParseContext) (fp : Str) :
      ∀ (items : List Item) (d d' : ParsedData), visitItems E ctx fp d items = .ok d' → Clean ctx d → Clean ctx d'
    | [], d, d', h, hc => by
      simp only [visitItems, pure, Outcome.ok.injEq] at h; subst h; exact hc
    | i :: is, d, d', h, hc => by
      simp only [visitItems] at h
      obtain ⟨d₁, h1, h2⟩ := (Outcome.bind_eq_ok _ _ _).1 h
      exact visitItems_clean E ctx fp is d₁ d' h2 (visitItem_clean E ctx fp i d d₁ h1 hc)
end

theorem visitFile_clean (E : Ext) (ctx : ParseContext) (cn fn fp : Str) (f : File) (d : ParsedData)
    (h : visitFile E ctx cn fn fp f = .ok d) : Clean ctx d := by
  have h0 : Clean ctx (d0 ctx cn fn) := by intro i hi; cases hi
  rw [visitFile_eq] at h
  split at h
  · exact visitItems_clean E ctx fp _ _ d h (addPaths_clean E ctx _ _ h0)
  · simp only [pure, Outcome.ok.injEq] at h; subst h; exact h0

/-- **what `parser::parse` returns never imports an ignored name** (folder mode) -/
theorem parseFile_clean (E : Ext) (ctx : ParseContext) (hmf : ctx.multiFile = true)
    (pick : List ImportedType → Option ImportedType) (hp : ValidPick pick) (cn fn fp : Str) (f : File) (a : ParsedData)
    (h : parseFile E ctx pick cn fn fp f = .ok (some a)) : Clean ctx a := by
  obtain ⟨d, hv, _, _, rfl⟩ := visit_of_parseFile E ctx hmf pick cn fn fp f a h
  intro i hi
  exact visitFile_clean E ctx cn fn fp f d hv i (reconcile_sound E.U pick hp d i hi).1

theorem parseAll_clean (E : Ext) (ctx : ParseContext) (hmf : ctx.multiFile = true)
    (pick : List ImportedType → Option ImportedType) (hp : ValidPick pick) :
    ∀ (files : List SourceFile) (arrivals : List ParsedData), parseAll E ctx pick files = .ok arrivals →
      ∀ a ∈ arrivals, Clean ctx a
  | [], arrivals, h, a, ha => by
    simp only [parseAll, Outcome.ok.injEq] at h; subst h; cases ha
  | f :: fs, arrivals, h, a, ha => by
    simp only [parseAll] at h
    obtain ⟨r, hr, h⟩ := (Outcome.bind_eq_ok _ _ _).1 h
    obtain ⟨rest, hrest, h⟩ := (Outcome.bind_eq_ok _ _ _).1 h
    simp only [Outcome.ok.injEq] at h
    subst h
    have ih := parseAll_clean E ctx hmf pick hp fs rest hrest
    cases r with
    | none => exact ih a ha
    | some d0 =>
      rcases List.mem_cons.1 ha with rfl | ha
      · exact parseFile_clean E ctx hmf pick hp _ _ _ _ _ hr
      · exact ih a ha

/-- … nor does any crate's entry after the collector and `reconcile_aliases` -/
theorem crates_clean (ctx : ParseContext) (arrivals : List ParsedData) (h : ∀ a ∈ arrivals, Clean ctx a)
    (c : Str) (v : ParsedData) (hm : (c, v) ∈ reconcile (collect arrivals)) : Clean ctx v := by
  rw [reconcile_eq] at hm
  obtain ⟨p, hp, he⟩ := List.mem_map.1 hm
  simp only [Prod.mk.injEq] at he
  obtain ⟨rfl, rfl⟩ := he
  intro i hi
  have hi' : i ∈ p.2.importTypes := hi
  rw [(collect_entry arrivals (c := p.1) (v := p.2) hp).1, merged_imports_mem] at hi'
  rcases hi' with h0 | ⟨d, hd, hid⟩
  · cases h0
  · exact h d (List.mem_filter.1 hd).1 i hid

end TsV.C20_FolderMappings
