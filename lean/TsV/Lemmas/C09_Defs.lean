import TsV.Model.Generate
/-!
# C09 — binding semantics: which name a declaration is *defined* under, which names it *refers* to

Everything in this file is executable specification (no proofs).  It says, per back end, what the
model's fact records mean as far as type names go:

* `defName lc it` — the name the declaration generated for `it` binds (`KtDecl.*.name`,
  `SwiftStruct.name`, `ScClass.name`, `ScAlias.name`, `GoStruct.name`, `GoAlias.name`, `PyClass.name`, … and
  for TypeScript the word after `export interface|type|enum`);
* `innerDefName lc e v` — the name of the helper struct generated for the struct variant `v` of `e`;
* `refs lc r it` — every *use* of a type name the declaration(s) of `it` contain, each with the
  Rust-level thing it refers to (`Target`).

The spelling of a leaf is taken from the model's own leaf printers (`Kotlin.formatSimple`,
`Swift.formatSimple`, `mapGet typeMappings`), the name a leaf carries after `reconcile` from the
model's `Pipeline.resolveRenamed`.  `TsV.Lemmas.C09` ties these definitions to the fact-building
functions of the six back-end models (`tie_*` lemmas); `tools/c09.py` ties them to the text the
real generators print (a python extractor recovers both sets from the implementation's output).
-/
namespace TsV.C09
open TsV TsV.Pipeline TsV.Generate

/-! ## programs -/

/-- the type-defining items of a (single-crate) program, as `RustItem`s -/
def typeItems (P : ParsedData) : List RustItem :=
  P.structs.map .struct ++ P.enums.map .enum ++ P.aliases.map .alias

def itemId : RustItem → Id
  | .struct s => s.id
  | .enum e => e.id
  | .alias a => a.id
  | .const c => c.id

/-- the generic parameters in scope inside an item -/
def generics : RustItem → List Str
  | .struct s => s.genericTypes
  | .enum e => e.genericTypes
  | .alias a => a.genericTypes
  | .const _ => []

/-- the `RenamedTypes` map `reconcile_aliases` builds for a single-file run (one crate, named `""`) -/
def renamesOf (P : ParsedData) : Renames := collectSerdeRenames [([], P)]

/-- the name a `RustType.simple id` leaf carries after `reconcile_aliases` (single-file mode: crate
`""`, no imports) — `Pipeline.checkType`'s `simple` arm -/
def recName (r : Renames) (id : Str) : Str := (resolveRenamed [] r [] id).getD id

/-! ## configuration -/

/-- the configured prefix (Swift and Kotlin only) -/
def pfxOf : LangCfg → Str
  | .kotlin c => c.pfx
  | .swift c => c.pfx
  | _ => []

def typeMappingsOf : LangCfg → List (Str × Str)
  | .typescript c => c.typeMappings
  | .kotlin c => c.typeMappings
  | .swift c => c.typeMappings
  | .scala c => c.typeMappings
  | .go c => c.typeMappings
  | .python c => c.typeMappings

/-! ## definitions -/

/-- **the name the declaration of an item is emitted under**: `id.renamed` behind the configured
prefix, in every back end and for every kind of item — except Go enums (go.rs `write_enum`:
`acr(id.original)`, pinned by a snapshot test; the class `Known_def_original`).  Kotlin / Scala / Go
type aliases are defined under `id.renamed` since the `fix:` commit 0c924cd. -/
def defName : LangCfg → RustItem → Str
  | .typescript _, it => (itemId it).renamed                 -- typescript.rs:162,198,223
  | .kotlin c, it => c.pfx ++ (itemId it).renamed            -- kotlin.rs:125 (alias, value class), 192, 250
  | .swift c, it => c.pfx ++ (itemId it).renamed             -- swift.rs:251,278,429 (inside back-ticks if a keyword)
  | .scala _, it => (itemId it).renamed                      -- scala.rs:149 (alias), 172, 203
  | .go _, .enum e => e.id.original                          -- go.rs:269/283/312 (enums)
  | .go _, it => (itemId it).renamed                         -- go.rs:197 (alias), 228 (struct)
  | .python _, it => (itemId it).renamed                     -- python.rs:281,325,344,630

def innerSuffix : Str := s%"Inner"

/-- **the name of the helper struct generated for the struct variant `v` of `e`** (`none`:
TypeScript prints struct variants inline).  Go: as printed without `uppercase_acronyms`. -/
def innerDefName : LangCfg → RustEnum → (variantOriginal : Str) → Option Str
  | .typescript _, _, _ => none
  | .kotlin c, e, v => some (c.pfx ++ (e.id.renamed ++ v ++ innerSuffix))     -- kotlin.rs:249-251 + write_struct
  | .swift c, e, v => some (c.pfx ++ Lang.Swift.anonymousStructName e v)
  | .scala _, e, v => some (e.id.renamed ++ v ++ innerSuffix)
  | .go _, e, v => some (e.id.original ++ v ++ innerSuffix)
  | .python _, e, v => some (Lang.Python.innerName e v)

/-! ## references -/

/-- what a reference refers to, in terms of the Rust source -/
inductive Target where
  /-- the item written `original` in the source -/
  | type (original : Str)
  /-- a generic parameter of the enclosing item -/
  | param (g : Str)
  /-- the class / trait of the enum, as the super type of one of its cases -/
  | parent (enumOriginal : Str)
  /-- the helper struct of a struct variant -/
  | inner (enumOriginal variantOriginal : Str)
deriving DecidableEq, Repr, Inhabited

structure Ref where
  /-- the name as printed -/
  spelling : Str
  target : Target
  /-- the reference is the head of a generic application `Head<…>` -/
  head : Bool
deriving DecidableEq, Repr, Inhabited

/-- how a back end prints a leaf that carries the name `n`, `gens` being the generic parameters it
was told about: the model's own leaf printers -/
def spell (lc : LangCfg) (gens : List Str) (n : Str) : Str :=
  match lc with
  | .kotlin c => Lang.Kotlin.formatSimple c gens n
  | .swift c => Lang.Swift.formatSimple c gens n
  | .typescript c => (Lang.mapGet c.typeMappings n).getD n
  | .scala c => (Lang.mapGet c.typeMappings n).getD n
  | .go c => (Lang.mapGet c.typeMappings n).getD n
  | .python c => (Lang.mapGet c.typeMappings n).getD n

/-- a name written in a type position refers to the generic parameter of that name if one is in
scope (Rust's scoping), else to the item of that name -/
def tgt (scope : List Str) (id : Str) : Target := if scope.contains id then .param id else .type id

mutual
  /-- the references inside one type expression *as written in the source*: a `simple` leaf and
  (since the `fix:` commit 944b749) the head of a generic application are printed from the name
  `reconcile` left there.  `scope`: the Rust generic parameters in scope; `gens`: the
  `generic_types` the back end passes to `format_type`. -/
  def typeRefs (lc : LangCfg) (r : Renames) (scope gens : List Str) : RustType → List Ref
    | .simple id => [⟨spell lc gens (recName r id), tgt scope id, false⟩]
    | .generic id ps => ⟨spell lc gens (recName r id), tgt scope id, true⟩ :: typeRefsList lc r scope gens ps
    | .vec t => typeRefs lc r scope gens t
    | .array t _ => typeRefs lc r scope gens t
    | .slice t => typeRefs lc r scope gens t
    | .option t => typeRefs lc r scope gens t
    | .hashMap k v => typeRefs lc r scope gens k ++ typeRefs lc r scope gens v
    | .prim _ => []
  def typeRefsList (lc : LangCfg) (r : Renames) (scope gens : List Str) : List RustType → List Ref
    | [] => []
    | t :: ts => typeRefs lc r scope gens t ++ typeRefsList lc r scope gens ts
end

/-- the super type every case of the enum names (`KtCase.parent`, `ScCase.parent`; `id.renamed`
since the `fix:` commit 3d3e1e7); the other back ends print no parent -/
def parentRefs (lc : LangCfg) (e : RustEnum) : List Ref :=
  match lc, e.keys with
  | .kotlin c, some _ => [⟨c.pfx ++ e.id.renamed, .parent e.id.original, false⟩]    -- kotlin.rs:405-423
  | .scala _, some _ => [⟨e.id.renamed, .parent e.id.original, false⟩]              -- scala.rs:336-347
  | .scala _, none => [⟨e.id.renamed, .parent e.id.original, false⟩]
  | _, _ => []

/-- the reference a struct variant's content makes to its helper struct (Kotlin / Scala:
`<renamed><Variant>Inner` since the `fix:` commit 3d3e1e7) -/
def innerRefs (lc : LangCfg) (e : RustEnum) (v : Str) : List Ref :=
  match lc with
  | .typescript _ => []
  | .kotlin c => [⟨c.pfx ++ e.id.renamed ++ v ++ innerSuffix, .inner e.id.original v, false⟩]
  | .swift c => [⟨c.pfx ++ Lang.Swift.anonymousStructName e v, .inner e.id.original v, false⟩]
  | .scala _ => [⟨e.id.renamed ++ v ++ innerSuffix, .inner e.id.original v, false⟩]
  | .go _ => [⟨e.id.original ++ v ++ innerSuffix, .inner e.id.original v, false⟩]
  | .python _ => [⟨Lang.Python.innerName e v, .inner e.id.original v, false⟩]

/-- the `generic_types` the fields of a struct variant are printed with: the enum's own for
TypeScript (inline), those of the synthesised helper struct elsewhere -/
def innerGens (lc : LangCfg) (e : RustEnum) (fs : List RustField) : List Str :=
  match lc with
  | .typescript _ => e.genericTypes
  | _ => (Lang.anonymousStruct e [] [] fs).genericTypes

def variantRefs (lc : LangCfg) (r : Renames) (e : RustEnum) (v : RustEnumVariant) : List Ref :=
  parentRefs lc e ++
  match e.keys with
  | none => []            -- a unit enum prints no payload types
  | some _ =>
    match v with
    | .unit _ _ => []
    | .tuple _ _ ty => typeRefs lc r e.genericTypes e.genericTypes ty
    | .anonymousStruct id _ fs =>
      innerRefs lc e id.original ++
      fs.flatMap fun f => typeRefs lc r e.genericTypes (innerGens lc e fs) f.ty

/-- **every use of a type name in the declaration(s) generated for `it`** -/
def refs (lc : LangCfg) (r : Renames) : RustItem → List Ref
  | .struct s => s.fields.flatMap fun f => typeRefs lc r s.genericTypes s.genericTypes f.ty
  | .alias a => typeRefs lc r a.genericTypes a.genericTypes a.ty
  | .enum e => e.variants.flatMap (variantRefs lc r e)
  | .const _ => []

/-- all names defined by the declarations of a program (for the correspondence check) -/
def allDefs (lc : LangCfg) (P : ParsedData) : List Str :=
  (typeItems P).map (defName lc) ++
  P.enums.flatMap fun e =>
    match e.keys with
    | none => []
    | some _ => (Lang.structVariants e).filterMap fun (id, _) => innerDefName lc e id.original

/-! ## the known class of inconsistency, per reference

The classes `generic-head-not-renamed` (944b749), `parent-class-original-name` and
`inner-struct-original-name` (3d3e1e7) are repaired, and `definition-under-original-name` (0c924cd)
has shrunk to Go enums. -/

/-- the back end defines this kind of item under `id.original` (every other definition uses
`id.renamed`): Go enums only -/
def defUsesOriginal : LangCfg → RustItem → Bool
  | .go _, .enum _ => true
  | _, _ => false

/-- the item is `serde(rename)`d to something else than its Rust name -/
def Renamed (it : RustItem) : Bool := (itemId it).renamed != (itemId it).original

/-- **Known, definition under the original name**: a reference — plain or the head of a generic
application, both are rewritten by `reconcile` to the new name — to a renamed *Go enum*, which Go
defines under the Rust name -/
def Known_def_original (lc : LangCfg) (P : ParsedData) (ref : Ref) : Bool :=
  match ref.target with
  | .type o => (typeItems P).any fun t =>
      (itemId t).original == o && Renamed t && defUsesOriginal lc t
  | _ => false

/-- the per-reference known classes: only `Known_def_original` is left -/
def KnownRef (lc : LangCfg) (P : ParsedData) (ref : Ref) : Bool := Known_def_original lc P ref

/-- **Known, shadowing** (a property of the program): some generic parameter has the Rust name or
the new name of a `serde(rename)`d item; `reconcile` then renames the *parameter*
(`struct S<T> { t: T }` next to `#[serde(rename = "X")] struct T` prints `t: X`) -/
def Known_shadow (P : ParsedData) : Bool :=
  (typeItems P).any fun it => (generics it).any fun g =>
    (typeItems P).any fun t => (itemId t).serdeRename && ((itemId t).original == g || (itemId t).renamed == g)

end TsV.C09
