import TsV.Lemmas.C12_Common
/-!
# C12, Go: every package the generated text refers to (`time`, `json`) is in the import block
-/
namespace TsV.C12L.Go
open TsV TsV.Lang TsV.Lang.Go TsV.C12L

def kTime : Str := s%"time"
def kJson : Str := s%"encoding/json"

mutual
  /-- does formatting `t` print `time.Time` on typeshare's account?  Follows `formatType` arm by arm:
  a mapped generic or a mapped special type is replaced wholesale by the user's string. -/
  def timeIn (cfg : Cfg) : RustType → Bool
    | .simple _ => false
    | .generic id ps => if (mapGet cfg.typeMappings id).isSome then false else timeInList cfg ps
    | t@(.vec r) => if (mapGet cfg.typeMappings t.display).isSome then false else timeIn cfg r
    | t@(.array r _) => if (mapGet cfg.typeMappings t.display).isSome then false else timeIn cfg r
    | t@(.slice r) => if (mapGet cfg.typeMappings t.display).isSome then false else timeIn cfg r
    | t@(.option r) => if (mapGet cfg.typeMappings t.display).isSome then false else timeIn cfg r
    | t@(.hashMap k v) =>
      if (mapGet cfg.typeMappings t.display).isSome then false else timeIn cfg k || timeIn cfg v
    | t@(.prim p) => if (mapGet cfg.typeMappings t.display).isSome then false else p == .dateTime
  def timeInList (cfg : Cfg) : List RustType → Bool
    | [] => false
    | t :: ts => timeIn cfg t || timeInList cfg ts
end

/-- one printer step: imports only grow, and if the step printed `time.Time` then `time` is imported -/
def Step (st st' : Imports) (b : Bool) : Prop := (∀ x ∈ st, x ∈ st') ∧ (b = true → kTime ∈ st')

theorem Step.refl (st : Imports) : Step st st false := ⟨fun _ h => h, fun h => by simp at h⟩

theorem Step.trans {st st1 st2 : Imports} {b1 b2 : Bool} (h1 : Step st st1 b1) (h2 : Step st1 st2 b2) :
    Step st st2 (b1 || b2) :=
  ⟨fun x hx => h2.1 x (h1.1 x hx), fun hb => by
    rcases Bool.or_eq_true_iff.1 hb with hb | hb
    · exact h2.1 _ (h1.2 hb)
    · exact h2.2 hb⟩

theorem Step.weaken {st st' : Imports} {b b' : Bool} (h : Step st st' b) (hb : b' = true → b = true) :
    Step st st' b' := ⟨h.1, fun x => h.2 (hb x)⟩

theorem special_step (cfg : Cfg) (t : RustType) (st : Imports) (k : Imports → Outcome (Str × Imports))
    (b : Bool) (s : Str) (st' : Imports)
    (hk : ∀ s st', k st = .ok (s, st') → Step st st' b)
    (h : special cfg t st k = .ok (s, st')) :
    Step st st' (if (mapGet cfg.typeMappings t.display).isSome then false else b) := by
  unfold special at h
  cases hm : mapGet cfg.typeMappings t.display with
  | some m =>
    rw [hm] at h
    simp only [Outcome.ok.injEq, Prod.mk.injEq] at h
    rw [← h.2]; simpa using Step.refl st
  | none => rw [hm] at h; simpa using hk s st' h

mutual
  theorem formatType_step (cfg : Cfg) : ∀ (t : RustType) (st : Imports) (s : Str) (st' : Imports),
      formatType cfg t st = .ok (s, st') → Step st st' (timeIn cfg t)
    | .simple id, st, s, st', h => by
      simp only [formatType, Outcome.ok.injEq, Prod.mk.injEq] at h
      rw [← h.2]; exact Step.refl st
    | .generic id ps, st, s, st', h => by
      simp only [formatType] at h
      cases hm : mapGet cfg.typeMappings id with
      | some m =>
        rw [hm] at h
        simp only [Outcome.ok.injEq, Prod.mk.injEq] at h
        rw [← h.2]; simpa [timeIn, hm] using Step.refl st
      | none =>
        rw [hm] at h
        simp only [bind_ok_iff] at h
        obtain ⟨⟨strs, st1⟩, h1, h2⟩ := h
        simp only [Outcome.ok.injEq, Prod.mk.injEq] at h2
        rw [← h2.2]
        simpa [timeIn, hm] using formatTypes_step cfg ps st strs st1 h1
    | .vec r, st, s, st', h => by
      simp only [formatType] at h
      simp only [timeIn]
      refine special_step cfg _ st _ _ s st' ?_ h
      intro s2 st2 hk
      simp only [bind_ok_iff] at hk
      obtain ⟨⟨s1, st1⟩, h1, h2⟩ := hk
      simp only [Outcome.ok.injEq, Prod.mk.injEq] at h2
      rw [← h2.2]; exact formatType_step cfg r st s1 st1 h1
    | .array r n, st, s, st', h => by
      simp only [formatType] at h
      simp only [timeIn]
      refine special_step cfg _ st _ _ s st' ?_ h
      intro s2 st2 hk
      simp only [bind_ok_iff] at hk
      obtain ⟨⟨s1, st1⟩, h1, h2⟩ := hk
      simp only [Outcome.ok.injEq, Prod.mk.injEq] at h2
      rw [← h2.2]; exact formatType_step cfg r st s1 st1 h1
    | .slice r, st, s, st', h => by
      simp only [formatType] at h
      simp only [timeIn]
      refine special_step cfg _ st _ _ s st' ?_ h
      intro s2 st2 hk
      simp only [bind_ok_iff] at hk
      obtain ⟨⟨s1, st1⟩, h1, h2⟩ := hk
      simp only [Outcome.ok.injEq, Prod.mk.injEq] at h2
      rw [← h2.2]; exact formatType_step cfg r st s1 st1 h1
    | .option r, st, s, st', h => by
      simp only [formatType] at h
      simp only [timeIn]
      refine special_step cfg _ st _ _ s st' ?_ h
      intro s2 st2 hk
      simp only [bind_ok_iff] at hk
      obtain ⟨⟨s1, st1⟩, h1, h2⟩ := hk
      simp only [Outcome.ok.injEq, Prod.mk.injEq] at h2
      rw [← h2.2]; exact formatType_step cfg r st s1 st1 h1
    | .hashMap k v, st, s, st', h => by
      simp only [formatType] at h
      simp only [timeIn]
      refine special_step cfg _ st _ _ s st' ?_ h
      intro s3 st3 hk
      simp only [bind_ok_iff] at hk
      obtain ⟨⟨s1, st1⟩, h1, ⟨s2, st2⟩, h2, h3⟩ := hk
      simp only [Outcome.ok.injEq, Prod.mk.injEq] at h3
      rw [← h3.2]
      exact (formatType_step cfg k st s1 st1 h1).trans (formatType_step cfg v st1 s2 st2 h2)
    | .prim p, st, s, st', h => by
      simp only [formatType] at h
      simp only [timeIn]
      refine special_step cfg _ st _ _ s st' ?_ h
      intro s2 st2 hk
      cases p <;> simp only [primType, Outcome.ok.injEq, Prod.mk.injEq] at hk <;> rw [← hk.2] <;>
        first
          | exact Step.refl st
          | exact ⟨fun x hx => mem_insertSorted_of_mem hx, fun _ => mem_insertSorted_self _ _⟩
  theorem formatTypes_step (cfg : Cfg) : ∀ (ts : List RustType) (st : Imports) (ss : List Str) (st' : Imports),
      formatTypes cfg ts st = .ok (ss, st') → Step st st' (timeInList cfg ts)
    | [], st, ss, st', h => by
      simp only [formatTypes, Outcome.ok.injEq, Prod.mk.injEq] at h
      rw [← h.2]; exact Step.refl st
    | t :: ts, st, ss, st', h => by
      simp only [formatTypes, bind_ok_iff] at h
      obtain ⟨⟨s1, st1⟩, h1, ⟨s2, st2⟩, h2, h3⟩ := h
      simp only [Outcome.ok.injEq, Prod.mk.injEq] at h3
      rw [← h3.2]
      exact (formatType_step cfg t st s1 st1 h1).trans (formatTypes_step cfg ts st1 s2 st2 h2)
end


/-! ## fields, structs, aliases, constants, enums, items -/

/-- a field prints `time.Time` on typeshare's account iff it has no user-written type override and
its (unmapped) type tree contains `OffsetDateTime` -/
def fieldTime (cfg : Cfg) (f : RustField) : Bool :=
  match typeOverride f .go with
  | some _ => false
  | none => timeIn cfg f.ty

theorem fieldFacts_step (U : UnicodeOps) (cfg : Cfg) (f : RustField) (st : Imports) r (st' : Imports)
    (h : fieldFacts U cfg f st = .ok (r, st')) : Step st st' (fieldTime cfg f) := by
  simp only [fieldFacts, bind_ok_iff] at h
  obtain ⟨⟨tn, st1⟩, h1, gt, _, nm, _, h4⟩ := h
  simp only [Outcome.ok.injEq, Prod.mk.injEq] at h4
  rw [← h4.2]
  unfold fieldTime
  cases ho : typeOverride f .go with
  | some t =>
    rw [ho] at h1
    simp only [Outcome.ok.injEq, Prod.mk.injEq] at h1
    rw [← h1.2]; exact Step.refl st
  | none => rw [ho] at h1; exact formatType_step cfg f.ty st tn st1 h1

theorem fieldsFacts_step (U : UnicodeOps) (cfg : Cfg) : ∀ (fs : List RustField) (st : Imports) r (st' : Imports),
    fieldsFacts U cfg fs st = .ok (r, st') → Step st st' (fs.any (fieldTime cfg))
  | [], st, r, st', h => by
    simp only [fieldsFacts, Outcome.ok.injEq, Prod.mk.injEq] at h
    rw [← h.2]; exact Step.refl st
  | f :: fs, st, r, st', h => by
    simp only [fieldsFacts, bind_ok_iff] at h
    obtain ⟨⟨g, st1⟩, h1, ⟨gs, st2⟩, h2, h3⟩ := h
    simp only [Outcome.ok.injEq, Prod.mk.injEq] at h3
    rw [← h3.2]
    exact (fieldFacts_step U cfg f st g st1 h1).trans (fieldsFacts_step U cfg fs st1 gs st2 h2)

theorem structFacts_step (U : UnicodeOps) (cfg : Cfg) (rs : RustStruct) (st : Imports) r (st' : Imports)
    (h : structFacts U cfg rs st = .ok (r, st')) : Step st st' (rs.fields.any (fieldTime cfg)) := by
  simp only [structFacts, bind_ok_iff] at h
  obtain ⟨nm, _, ⟨fs, st1⟩, h2, h3⟩ := h
  simp only [Outcome.ok.injEq, Prod.mk.injEq] at h3
  rw [← h3.2]; exact fieldsFacts_step U cfg rs.fields st fs st1 h2

theorem anonStructs_step (U : UnicodeOps) (cfg : Cfg) (e : RustEnum) :
    ∀ (l : List (Id × List RustField)) (st : Imports) r (st' : Imports),
    anonStructs U cfg e l st = .ok (r, st') → Step st st' (l.any fun p => p.2.any (fieldTime cfg))
  | [], st, r, st', h => by
    simp only [anonStructs, Outcome.ok.injEq, Prod.mk.injEq] at h
    rw [← h.2]; exact Step.refl st
  | (id, fs) :: rest, st, r, st', h => by
    simp only [anonStructs, bind_ok_iff] at h
    obtain ⟨nm, _, ⟨g, st1⟩, h1, ⟨gs, st2⟩, h2, h3⟩ := h
    simp only [Outcome.ok.injEq, Prod.mk.injEq] at h3
    rw [← h3.2]
    have := structFacts_step U cfg _ st g st1 h1
    simp only [anonymousStruct] at this
    exact this.trans (anonStructs_step U cfg e rest st1 gs st2 h2)

def variantTime (cfg : Cfg) : RustEnumVariant → Bool
  | .tuple _ _ ty => timeIn cfg ty
  | _ => false

theorem algVariant_step (U : UnicodeOps) (cfg : Cfg) (e : RustEnum) (sn tk : Str) (cs : List Str)
    (v : RustEnumVariant) (st : Imports) r (st' : Imports)
    (h : algVariant U cfg e sn tk cs v st = .ok (r, st')) : Step st st' (variantTime cfg v) := by
  simp only [algVariant, bind_ok_iff] at h
  obtain ⟨vn, _, ⟨vt, st1⟩, h1, tp, _, pl, _, h4⟩ := h
  simp only [Outcome.ok.injEq, Prod.mk.injEq] at h4
  rw [← h4.2]
  cases v with
  | unit i c =>
    simp only [Outcome.ok.injEq, Prod.mk.injEq] at h1
    rw [← h1.2]; exact Step.refl st
  | tuple i c ty =>
    simp only at h1
    cases hf : formatType cfg ty st with
    | ok p =>
      obtain ⟨t, st2⟩ := p
      rw [hf] at h1
      simp only [Outcome.ok.injEq, Prod.mk.injEq] at h1
      rw [← h1.2]; exact formatType_step cfg ty st t st2 hf
    | err x => rw [hf] at h1; simp at h1
    | panic x => rw [hf] at h1; simp at h1
  | anonymousStruct i c fs =>
    simp only [bind_ok_iff] at h1
    obtain ⟨n, _, h5⟩ := h1
    simp only [Outcome.ok.injEq, Prod.mk.injEq] at h5
    rw [← h5.2]; exact Step.refl st

theorem algVariants_step (U : UnicodeOps) (cfg : Cfg) (e : RustEnum) (sn tk : Str) (cs : List Str) :
    ∀ (vs : List RustEnumVariant) (st : Imports) r (st' : Imports),
    algVariants U cfg e sn tk cs vs st = .ok (r, st') → Step st st' (vs.any (variantTime cfg))
  | [], st, r, st', h => by
    simp only [algVariants, Outcome.ok.injEq, Prod.mk.injEq] at h
    rw [← h.2]; exact Step.refl st
  | v :: vs, st, r, st', h => by
    simp only [algVariants, bind_ok_iff] at h
    obtain ⟨⟨g, st1⟩, h1, ⟨gs, st2⟩, h2, h3⟩ := h
    simp only [Outcome.ok.injEq, Prod.mk.injEq] at h3
    rw [← h3.2]
    exact (algVariant_step U cfg e sn tk cs v st g st1 h1).trans (algVariants_step U cfg e sn tk cs vs st1 gs st2 h2)

def enumTime (cfg : Cfg) (e : RustEnum) : Bool :=
  ((structVariants e).any fun p => p.2.any (fieldTime cfg)) ||
  (match e.keys with | none => false | some _ => e.variants.any (variantTime cfg))

theorem writeEnum_step (U : UnicodeOps) (cfg : Cfg) (e : RustEnum) (cs : List Str) (st : Imports) r (st' : Imports)
    (h : writeEnum U cfg e cs st = .ok (r, st')) : Step st st' (enumTime cfg e) := by
  unfold writeEnum at h
  unfold enumTime
  cases hk : e.keys with
  | none =>
    rw [hk] at h
    simp only [bind_ok_iff] at h
    obtain ⟨⟨an, st1⟩, h1, nm, _, cn, _, h4⟩ := h
    simp only [Outcome.ok.injEq, Prod.mk.injEq] at h4
    rw [← h4.2]
    simpa using anonStructs_step U cfg e _ st an st1 h1
  | some k =>
    rw [hk] at h
    simp only [bind_ok_iff, algEnumFacts] at h
    obtain ⟨⟨d, st1⟩, ⟨⟨an, st2⟩, h1, nm, _, tf, _, sh, _, ta, _, ⟨vs, st3⟩, h6, h7⟩, h8⟩ := h
    simp only [Outcome.ok.injEq, Prod.mk.injEq] at h7 h8
    rw [← h8.2, ← h7.2]
    exact (anonStructs_step U cfg e _ st an st2 h1).trans (algVariants_step U cfg e _ _ cs _ st2 vs st3 h6)

/-- does generating the item print `time.Time` -/
def itemTime (cfg : Cfg) : RustItem → Bool
  | .struct s => s.fields.any (fieldTime cfg)
  | .enum e => enumTime cfg e
  | .alias a => timeIn cfg a.ty
  | .const c => timeIn cfg c.ty

theorem writeItem_step (U : UnicodeOps) (cfg : Cfg) (cs : List Str) (it : RustItem) (st : Imports) r (st' : Imports)
    (h : writeItem U cfg cs it st = .ok (r, st')) : Step st st' (itemTime cfg it) := by
  cases it with
  | struct rs =>
    simp only [writeItem, writeStruct, bind_ok_iff] at h
    obtain ⟨⟨d, st1⟩, h1, h2⟩ := h
    simp only [Outcome.ok.injEq, Prod.mk.injEq] at h2
    rw [← h2.2]; exact structFacts_step U cfg rs st d st1 h1
  | «enum» e => exact writeEnum_step U cfg e cs st r st' h
  | alias a =>
    simp only [writeItem, writeAlias, aliasFacts, bind_ok_iff] at h
    obtain ⟨⟨d, st1⟩, ⟨nm, _, ⟨ty, st2⟩, h2, h3⟩, h4⟩ := h
    simp only [Outcome.ok.injEq, Prod.mk.injEq] at h3 h4
    rw [← h4.2, ← h3.2]; exact formatType_step cfg a.ty st ty st2 h2
  | const c =>
    simp only [writeItem, writeConst, constFacts, bind_ok_iff] at h
    obtain ⟨⟨d, st1⟩, ⟨⟨ty, st2⟩, h2, h3⟩, h4⟩ := h
    simp only [Outcome.ok.injEq, Prod.mk.injEq] at h3 h4
    rw [← h4.2, ← h3.2]; exact formatType_step cfg c.ty st ty st2 h2

theorem writeItems_step (U : UnicodeOps) (cfg : Cfg) (cs : List Str) :
    ∀ (its : List RustItem) (st : Imports) r (st' : Imports),
    writeItems U cfg cs its st = .ok (r, st') → Step st st' (its.any (itemTime cfg))
  | [], st, r, st', h => by
    simp only [writeItems, Outcome.ok.injEq, Prod.mk.injEq] at h
    rw [← h.2]; exact Step.refl st
  | it :: its, st, r, st', h => by
    simp only [writeItems, bind_ok_iff] at h
    obtain ⟨⟨a, st1⟩, h1, ⟨b, st2⟩, h2, h3⟩ := h
    simp only [Outcome.ok.injEq, Prod.mk.injEq] at h3
    rw [← h3.2]
    exact (writeItem_step U cfg cs it st a st1 h1).trans (writeItems_step U cfg cs its st1 b st2 h2)

/-! ## the file -/

/-- the generated text of an algebraic enum calls `json.Unmarshal` / `json.Marshal` and names
`json.RawMessage` (`renderUnmarshal`, `renderMarshal`) -/
def usesJson (d : ParsedData) : Bool := d.enums.any fun e => e.keys.isSome

/-- **helpersUsed (Go)**: the packages the text generated for `d` refers to on typeshare's account -/
def used (cfg : Cfg) (d : ParsedData) : List Str :=
  (if usesJson d then [kJson] else []) ++ (if (itemsOf d).any (itemTime cfg) then [kTime] else [])

/-- **helpersProvided (Go)**: the import block lists every package of the final import set, and it
is written between the package line and the body -/
theorem generate_spec (U : UnicodeOps) (cfg : Cfg) (d : ParsedData) (st0 : Imports) (text : Str) (st : Imports)
    (h : generate U cfg d st0 = .ok (text, st)) :
    (∀ p ∈ used cfg d, p ∈ st) ∧ (∀ p ∈ st0, p ∈ st) ∧
    ∃ body, text = beginFile cfg ++ renderImports st ++ body := by
  unfold generate at h
  cases ho : Pipeline.generateOrder d with
  | none => rw [ho] at h; simp at h
  | some items =>
    rw [ho] at h
    simp only [bind_ok_iff] at h
    obtain ⟨⟨body, st1⟩, h1, h2⟩ := h
    simp only [Outcome.ok.injEq, Prod.mk.injEq] at h2
    have hs := writeItems_step U cfg _ items _ body st1 h1
    rw [any_perm (generateOrder_perm d items ho)] at hs
    rw [← h2.2]
    refine ⟨?_, fun p hp => hs.1 p (mem_insertSorted_of_mem hp), body, h2.1.symm⟩
    intro p hp
    simp only [used, List.mem_append] at hp
    rcases hp with hp | hp
    · split at hp
      · simp only [List.mem_singleton] at hp
        subst hp
        exact hs.1 _ (mem_insertSorted_self _ _)
      · simp at hp
    · split at hp
      · rename_i hb
        simp only [List.mem_singleton] at hp
        subst hp
        exact hs.2 hb
      · simp at hp

/-- the import block names every package of the set, between double quotes -/
theorem renderImports_lists (st : Imports) (p : Str) (hp : p ∈ st) : (s%"\"" ++ p ++ s%"\"") <:+: renderImports st := by
  unfold renderImports
  match st, hp with
  | [i], hp =>
    simp only [List.mem_singleton] at hp
    subst hp
    exact ⟨s%"import ", s%"\n" ++ nl, by simp [List.append_assoc]⟩
  | a :: b :: rest, hp =>
    simp only
    obtain ⟨l1, l2, hl⟩ := List.append_of_mem hp
    rw [hl]
    refine ⟨s%"import (\n" ++ (l1.flatMap fun i => s%"\t\"" ++ i ++ s%"\"\n") ++ s%"\t",
      s%"\n" ++ (l2.flatMap fun i => s%"\t\"" ++ i ++ s%"\"\n") ++ s%")\n" ++ nl, ?_⟩
    simp [List.flatMap_append, List.append_assoc]

end TsV.C12L.Go
