#!/bin/sh
# usage: tools/seedall.sh   -- try every stored seeded change against the check(s) of its property; prints one line per change
cd /verif
for d in ${SEEDS:-seeded/*/}; do
  n=$(basename "$d")
  id=$(echo "$n" | cut -c1-3)
  ids=$(python3 - "$d/meta.json" "$id" <<'PY'
import json,sys,re
m=json.load(open(sys.argv[1])); ran=m.get("my_checks",{}).get("ran","")
ids=[sys.argv[2]]+[x for x in re.findall(r"\./check (C\d\d)", ran) if x!=sys.argv[2]]
seen=[]
for i in ids:
    if i not in seen: seen.append(i)
print(" ".join(seen))
PY
)
  WT=${SEEDWT:-/tmp/seedwt}
  [ -d "$WT" ] || git -C /repo worktree add -q --detach "$WT" HEAD
  git -C "$WT" checkout -q --detach "$(git -C /repo rev-parse HEAD)"; git -C "$WT" checkout -q -- .
  if ! git -C "$WT" apply --check "/verif/$d/patch.diff" 2>/dev/null; then echo "$n: PATCH-DOES-NOT-APPLY"; continue; fi
  git -C "$WT" apply "/verif/$d/patch.diff"
  res=""
  for i in $ids; do
    out=$(VERIF_REPO="$WT" ./check "$i" 2>&1)
    if echo "$out" | grep "^VIOLATION" | grep -qv "no-failing-input-found"; then r="CAUGHT"; elif echo "$out" | grep -q "^VIOLATION"; then r="weak"; else r="missed"; fi
    res="$res $i=$r"
  done
  git -C "$WT" checkout -q -- .
  echo "$n:$res"
done
