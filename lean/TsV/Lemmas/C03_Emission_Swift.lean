import TsV.Lemmas.C03_Emission_Common
/-!
# C03, emission clause — Swift
-/
namespace TsV.C03E.Sw
open TsV TsV.Lang TsV.Lang.Swift TsV.C03E

theorem writeItems_threaded (U : UnicodeOps) (cfg : Cfg) : ∀ (its : List RustItem) (st : St) (body : Str)
    (st' : St), writeItems U cfg its st = .ok (body, st') →
    ∃ blocks, Threaded (writeItem U cfg) its st blocks st' ∧ body = blocks.flatten
  | [], st, body, st', h => by
    simp [writeItems] at h
    obtain ⟨rfl, rfl⟩ := h
    exact ⟨[], .nil _, rfl⟩
  | it :: its, st, body, st', h => by
    simp only [writeItems] at h
    obtain ⟨⟨a, st1⟩, ha, h⟩ := bindOk h
    obtain ⟨⟨b, st2⟩, hb, h⟩ := bindOk h
    cases h
    obtain ⟨bs, hbs, rfl⟩ := writeItems_threaded U cfg its st1 b st2 hb
    exact ⟨a :: bs, .cons ha hbs, by simp⟩

theorem generate_blocks (U : UnicodeOps) (cfg : Cfg) (multi : Bool) (d : ParsedData) (st0 : St) (text : Str) (st : St)
    (h : generate U cfg multi d st0 = .ok (text, st)) :
    ∃ items blocks, Pipeline.generateOrder d = some items ∧ Threaded (writeItem U cfg) items st0 blocks st ∧
      text = beginFile cfg ++ blocks.flatten ++ endFile cfg multi st := by
  unfold generate at h
  cases ho : Pipeline.generateOrder d with
  | none => simp [ho] at h
  | some items =>
    simp only [ho] at h
    obtain ⟨⟨body, st1⟩, hb, h⟩ := bindOk h
    cases h
    obtain ⟨blocks, hth, rfl⟩ := writeItems_threaded U cfg items st0 body st1 hb
    exact ⟨items, blocks, rfl, hth, rfl⟩

theorem comments_lineStart (U : UnicodeOps) (n : Nat) (cs : List Str) : LineStart (comments U n cs) := by
  unfold comments
  exact lineStart_flatMap _ _ fun c _ => lineStart_append_right _ (by simp [nl])

theorem nameEnd_genericClause (ps : List GenericParam) {q : Str} (h : NameEnd q) :
    NameEnd (renderGenericClause ps ++ q) := by
  unfold renderGenericClause
  split
  · simpa using h
  · exact nameEnd_append _ (nameEnd_cons _ (by simp [delims]))

theorem renderStruct_defines (U : UnicodeOps) (s : SwiftStruct) :
    DefinesHead s%"public struct " s.name (renderStruct U s) := by
  unfold renderStruct
  simp only [List.append_assoc]
  exact definesHead_prepend nl (lineStart_nl []) (definesHead_r _ _ (comments_lineStart _ _ _)
    (nameEnd_genericClause _ (nameEnd_cons _ (by simp [delims]))))

def enumKw (indirect : Bool) : Str := if indirect then s%"public indirect enum " else s%"public enum "

theorem renderEnum_defines (U : UnicodeOps) (e : SwiftEnum) :
    DefinesHead (enumKw e.indirect) e.name (renderEnum U e) := by
  unfold renderEnum enumKw
  cases e.indirect
  · simp only [List.append_assoc, Bool.false_eq_true, if_false, List.nil_append]
    exact definesHead_r (kw := s%"public enum ") _ _ (comments_lineStart _ _ _)
      (nameEnd_genericClause _ (nameEnd_cons _ (by simp [delims])))
  · simp only [List.append_assoc, if_true]
    exact definesHead_r (kw := s%"public indirect enum ") _ _ (comments_lineStart _ _ _)
      (nameEnd_genericClause _ (nameEnd_cons _ (by simp [delims])))

/-- the struct written for a `RustStruct` is named `kw (prefix ++ renamed)` -/
theorem structFacts_name (U : UnicodeOps) (cfg : Cfg) (rs : RustStruct) (st st' : St) (d : SwiftStruct)
    (h : structFacts U cfg rs st = .ok (d, st')) : d.name = kw (cfg.pfx ++ rs.id.renamed) :=
  C09.tie_swift_struct U cfg rs st st' d h

/-- **the block of an item splits into exactly the definitions `swDefs` lists** -/
theorem block_defines (U : UnicodeOps) (cfg : Cfg) (it : RustItem) (st : St) (b : Str) (st' : St)
    (h : writeItem U cfg it st = .ok (b, st')) : SplitsInto (swDefs cfg it) b := by
  cases it with
  | struct s =>
    simp only [writeItem, writeStruct] at h
    obtain ⟨⟨d, st1⟩, hd, h⟩ := bindOk h
    cases h
    have hn := structFacts_name U cfg s st st1 d hd
    simp only [swDefs, ← hn]
    exact splitsInto_single (renderStruct_defines U d)
  | alias a =>
    simp only [writeItem, writeAlias] at h
    obtain ⟨⟨ty, st1⟩, _, h⟩ := bindOk h
    cases h
    exact splitsInto_single (definesHead_mk (nl ++ comments U 0 a.comments)
      (genericSuffix a.genericTypes ++ (s%" = " ++ ty ++ nl)) (by simp [List.append_assoc])
      (lineStart_append (lineStart_nl []) (comments_lineStart _ _ _))
      (nameEnd_genericSuffix _ (nameEnd_cons _ (by simp [delims]))))
  | const c => simp [writeItem] at h
  | «enum» e =>
    simp only [writeItem, writeEnum] at h
    obtain ⟨⟨structs, se, st1⟩, hf, h⟩ := bindOk h
    cases h
    have hnames : structs.map (·.name) =
        (structVariantsOf e).map fun p => kw (cfg.pfx ++ (e.id.renamed ++ p.1.original ++ s%"Inner")) := by
      unfold enumFacts at hf
      obtain ⟨⟨ss, st2⟩, hs, hf⟩ := bindOk hf
      obtain ⟨⟨cases', st3⟩, _, hf⟩ := bindOk hf
      cases hf
      rw [C09.swift_anon_names U cfg e _ _ _ _ hs]
      simp [anonymousStructName, structVariantsOf_eq]
    have hse : se.indirect = e.isRecursive ∧ se.name = kw (cfg.pfx ++ e.id.renamed) := by
      unfold enumFacts at hf
      obtain ⟨⟨ss, st2⟩, hs, hf⟩ := bindOk hf
      obtain ⟨⟨cases', st3⟩, _, hf⟩ := bindOk hf
      cases hf
      exact ⟨rfl, rfl⟩
    have hdefs : swDefs cfg (.enum e) =
        (structs.map fun s => (s%"public struct ", s.name)) ++ [(enumKw se.indirect, se.name)] := by
      have : (structs.map fun s => (s%"public struct ", s.name)) =
          (structs.map (·.name)).map fun n => (s%"public struct ", n) := by simp
      rw [this, hnames, hse.1, hse.2]
      simp [swDefs, enumKw]
    rw [hdefs, List.append_assoc]
    apply splitsInto_lead nl (by simp [nl])
    rw [List.flatMap_def]
    have hp : Paired (fun (d : Str × Str) (c : Str) => DefinesHead d.1 d.2 c)
        (structs.map fun s => (s%"public struct ", s.name)) (structs.map (renderStruct U)) :=
      paired_map (fun (d : Str × Str) (c : Str) => DefinesHead d.1 d.2 c) _ _ structs
        (fun s _ => renderStruct_defines U s)
    have he : Paired (fun (d : Str × Str) (c : Str) => DefinesHead d.1 d.2 c)
        [(enumKw se.indirect, se.name)] [renderEnum U se] := .cons (renderEnum_defines U se) .nil
    exact splitsInto_append (splitsInto_chunks hp) ⟨[renderEnum U se], by simp, he⟩

/-- record level: an enum's block is built from `#struct variants` struct records and one enum record -/
theorem enumFacts_count (U : UnicodeOps) (cfg : Cfg) (e : RustEnum) (st st' : St) (ss : List SwiftStruct)
    (se : SwiftEnum) (h : enumFacts U cfg e st = .ok (ss, se, st')) :
    ss.length = (structVariantsOf e).length := by
  unfold enumFacts at h
  obtain ⟨⟨ss', st2⟩, hs, h⟩ := bindOk h
  obtain ⟨⟨cases', st3⟩, _, h⟩ := bindOk h
  cases h
  have := congrArg List.length (C09.swift_anon_names U cfg e _ _ _ _ hs)
  simpa [structVariantsOf_eq] using this

theorem writeItem_not_const (U : UnicodeOps) (cfg : Cfg) (c : RustConst) (st : St) :
    writeItem U cfg (.const c) st = .err (.formatError s%"ConstUnsupported") := rfl

theorem generateAll_single (E : Ext) (cfg : Cfg) (c : Str) (d : ParsedData)
    (imps : Option Pipeline.ScopedCrateTypes) :
    generateAll E cfg false [(c, d, imps)] = (generate E.U cfg false d false).bind fun r => .ok [(c, r.1)] := by
  simp only [generateAll, generateFrom]
  generalize generate E.U cfg false d false = g
  cases g with
  | ok r => obtain ⟨t, s⟩ := r; simp [postGeneration, Outcome.bind]
  | err e => rfl
  | panic s => rfl

theorem generateAll_nil (E : Ext) (cfg : Cfg) : generateAll E cfg false [] = .ok [] := rfl

end TsV.C03E.Sw
