import TsV.Lemmas.NoPanic
import TsV.Lemmas.TargetOs
/-!
# C03 — exactly the annotated, non-skipped items, fields and variants (parse level)

(i) collection: the visitor yields, per annotated and accepted item in visit order (pre-order,
descending into modules and function bodies), exactly one entry — the parsed item, or one error —
and nothing for other items.  (ii) members: the fields / variants / variant fields of a parsed item
are the source members that are not skipped, in source order.  The emission clause (every back
end prints each parsed item and member once) is stated with the back-end models.
-/
namespace TsV.C03
open TsV TsV.Syn TsV.Parser TsV.Visitor TsV.Outcome

mutual
  /-- the annotated, accepted items of a file in visit order -/
  def annotated (ctx : ParseContext) : Item → List Item
    | .struct a i g f => if accepted ctx a then [.struct a i g f] else []
    | .enum a i g v => if accepted ctx a then [.enum a i g v] else []
    | .alias a i g t => if accepted ctx a then [.alias a i g t] else []
    | .const a i t l => if accepted ctx a then [.const a i t l] else []
    | .use _ => []
    | .mod _ _ items => annotatedList ctx items
    | .other _ items => annotatedList ctx items
  def annotatedList (ctx : ParseContext) : List Item → List Item
    | [] => []
    | i :: is => annotated ctx i ++ annotatedList ctx is
end

/-- the item parser the visitor dispatches to -/
def parseItem (E : Ext) (ctx : ParseContext) : Item → Outcome RustItem
  | .struct a i g f => parseStruct E ctx.targetOs a i g f
  | .enum a i g v => parseEnum E ctx.targetOs a i g v
  | .alias a i g t => parseTypeAlias E a i g t
  | .const a i t l => parseConst E a i t l
  | _ => .err .synError   -- never reached: `annotated` only lists the four kinds

/-- fold `collect_result` over a list of parse outcomes -/
def collectAll (path : Str) : ParsedData → List (Outcome RustItem) → Outcome ParsedData
  | d, [] => pure d
  | d, o :: os => (collectResult d path o).bind fun d' => collectAll path d' os

theorem collectAll_append (path : Str) : ∀ (l1 l2 : List (Outcome RustItem)) (d : ParsedData),
    collectAll path d (l1 ++ l2) = (collectAll path d l1).bind fun d' => collectAll path d' l2
  | [], l2, d => by simp [collectAll]
  | o :: os, l2, d => by
    simp only [List.cons_append, collectAll]
    cases h : collectResult d path o with
    | ok d' => simp [collectAll_append path os l2 d']
    | err e => rfl
    | panic s => rfl

theorem addPaths_single (E : Ext) (ctx : ParseContext) (h : ctx.multiFile = false) (d : ParsedData)
    (ps : List (List Str)) : addPaths E ctx d ps = d := by simp [addPaths, h]

theorem bind_pure_id (x : Outcome ParsedData) : (x.bind fun d => pure d) = x := by cases x <;> rfl

mutual
  /-- **(i) collection, single-file mode**: visiting = folding `collect_result` over the annotated
  accepted items in visit order; un-annotated items contribute nothing -/
  theorem visitItem_collects (E : Ext) (ctx : ParseContext) (h : ctx.multiFile = false) (path : Str) :
      ∀ (it : Item) (d : ParsedData),
        visitItem E ctx path d it = collectAll path d ((annotated ctx it).map (parseItem E ctx))
    | .struct a i g f, d => by
      simp only [visitItem, annotated, collectIf, addPaths_single E ctx h]
      split <;> simp [collectAll, parseItem]
    | .enum a i g v, d => by
      simp only [visitItem, annotated, collectIf, addPaths_single E ctx h]
      split <;> simp [collectAll, parseItem]
    | .alias a i g t, d => by
      simp only [visitItem, annotated, collectIf, addPaths_single E ctx h]
      split <;> simp [collectAll, parseItem]
    | .const a i t l, d => by
      simp only [visitItem, annotated, collectIf, addPaths_single E ctx h]
      split <;> simp [collectAll, parseItem]
    | .use t, d => by simp [visitItem, annotated, h, collectAll]
    | .mod a i items, d => by
      simp only [visitItem, annotated, addPaths_single E ctx h]
      exact visitItems_collects E ctx h path items d
    | .other p items, d => by
      simp only [visitItem, annotated, addPaths_single E ctx h]
      exact visitItems_collects E ctx h path items d
  theorem visitItems_collects (E : Ext) (ctx : ParseContext) (h : ctx.multiFile = false) (path : Str) :
      ∀ (items : List Item) (d : ParsedData),
        visitItems E ctx path d items = collectAll path d ((annotatedList ctx items).map (parseItem E ctx))
    | [], d => by simp [visitItems, annotatedList, collectAll]
    | i :: is, d => by
      simp only [visitItems, annotatedList, List.map_append, collectAll_append]
      rw [visitItem_collects E ctx h path i d]
      congr 1
      funext d'
      exact visitItems_collects E ctx h path is d'
end

/-- number of entries (items of the four kinds plus errors) -/
def entries (d : ParsedData) : Nat :=
  d.structs.length + d.enums.length + d.aliases.length + d.consts.length + d.errors.length

theorem collectResult_entries (d : ParsedData) (path : Str) (o : Outcome RustItem) (hnp : NP o) :
    ∃ d', collectResult d path o = .ok d' ∧ entries d' = entries d + 1 := by
  cases o with
  | ok it =>
    refine ⟨push d it, rfl, ?_⟩
    cases it <;> simp [push, entries] <;> omega
  | err e => exact ⟨_, rfl, by simp [entries]; omega⟩
  | panic s => simp [NP, Outcome.isPanic] at hnp

theorem collectAll_entries (path : Str) : ∀ (outs : List (Outcome RustItem)) (d : ParsedData),
    (∀ o ∈ outs, NP o) → ∃ d', collectAll path d outs = .ok d' ∧ entries d' = entries d + outs.length
  | [], d, _ => ⟨d, rfl, by simp⟩
  | o :: os, d, h => by
    obtain ⟨d1, h1, e1⟩ := collectResult_entries d path o (h o (by simp))
    obtain ⟨d2, h2, e2⟩ := collectAll_entries path os d1 (fun x hx => h x (by simp [hx]))
    refine ⟨d2, ?_, ?_⟩
    · simp [collectAll, h1, h2]
    · simp [e2, e1]; omega

theorem parseItem_np (E : Ext) (ctx : ParseContext) (it : Item) : NP (parseItem E ctx it) := by
  cases it <;> simp only [parseItem]
  · exact NoPanic.parseStruct_np _ _ _ _ _ _
  · exact NoPanic.parseEnum_np _ _ _ _ _ _
  · exact NoPanic.parseTypeAlias_np _ _ _ _ _
  · exact NoPanic.parseConst_np _ _ _ _ _
  all_goals exact rfl

/-- **one entry per annotated item, none dropped, none invented**: the visitor always succeeds and
the number of parsed items plus recorded errors grows by exactly the number of annotated accepted
items — an item that cannot be generated is an error entry, never silently omitted. -/
theorem one_entry_per_annotated_item (E : Ext) (ctx : ParseContext) (h : ctx.multiFile = false)
    (path : Str) (items : List Item) (d : ParsedData) :
    ∃ d', visitItems E ctx path d items = .ok d' ∧
      entries d' = entries d + (annotatedList ctx items).length := by
  rw [visitItems_collects E ctx h path items d]
  have := collectAll_entries path ((annotatedList ctx items).map (parseItem E ctx)) d
    (by intro o ho; simp only [List.mem_map] at ho; obtain ⟨it, _, rfl⟩ := ho; exact parseItem_np E ctx it)
  simpa using this

/-! ### (ii) members -/

/-- the name a member is known under: identifier without raw prefix -/
def origOf (i : Option Str) : Str :=
  match i with
  | some i => Str.replaceSub i s%"r#" []
  | none => s%"???"

theorem getIdent_original (E : Ext) (i : Option Str) (a : List Attr) (ra : Option Str) (id : Id)
    (h : getIdent E i a ra = .ok id) : id.original = origOf i := by
  unfold getIdent at h
  obtain ⟨r, _, h⟩ := (bind_eq_ok _ _ _).1 h
  split at h <;> (simp at h; subst h; rfl)

theorem parseField_original (E : Ext) (cf : Bool) (ra : Option Str) (f : Field) (rf : RustField)
    (h : parseField E cf ra f = .ok rf) : rf.id.original = origOf f.ident := by
  unfold parseField at h
  obtain ⟨ty, _, h⟩ := (bind_eq_ok _ _ _).1 h
  split at h
  · simp at h
  · obtain ⟨id, hid, h⟩ := (bind_eq_ok _ _ _).1 h
    simp at h; subst h
    exact getIdent_original E _ _ _ _ hid

/-- **struct fields**: exactly the non-skipped source fields, in source order -/
theorem struct_fields_exact (E : Ext) (T : List Str) (attrs : List Attr) (ident : Str)
    (gens : List GenericParam) (fs : List Field) (s : RustStruct)
    (h : parseStruct E T attrs ident gens (.named fs) = .ok (.struct s)) :
    s.fields.map (·.id.original) = (fs.filter fun f => !isSkipped f.attrs T).map (origOf ·.ident) := by
  unfold parseStruct at h
  split at h
  · unfold serializedAlias mkAlias at h
    obtain ⟨ty, _, h⟩ := (bind_eq_ok _ _ _).1 h
    obtain ⟨id, _, h⟩ := (bind_eq_ok _ _ _).1 h
    simp at h
  · obtain ⟨rfs, hm, h⟩ := (bind_eq_ok _ _ _).1 h
    unfold mkStruct at h
    obtain ⟨id, _, h⟩ := (bind_eq_ok _ _ _).1 h
    simp at h; subst h
    exact mapM'_map _ _ _ (parseField_original E true _) _ _ hm

theorem parseVariant_original (E : Ext) (T : List Str) (ra : Option Str) (v : Variant) (rv : RustEnumVariant)
    (h : parseEnumVariant E T ra v = .ok rv) : rv.id.original = origOf (some v.ident) := by
  unfold parseEnumVariant at h
  obtain ⟨id, hid, h⟩ := (bind_eq_ok _ _ _).1 h
  have ho := getIdent_original E _ _ _ _ hid
  split at h
  · simp at h; subst h; exact ho
  · split at h
    · simp at h
    · split at h
      · simp at h
      · obtain ⟨ty, _, h⟩ := (bind_eq_ok _ _ _).1 h
        simp at h; subst h; exact ho
  · obtain ⟨rfs, _, h⟩ := (bind_eq_ok _ _ _).1 h
    simp at h; subst h; exact ho

/-- **enum variants**: exactly the non-skipped source variants, in source order — one case each -/
theorem enum_variants_exact (E : Ext) (T : List Str) (attrs : List Attr) (ident : Str)
    (gens : List GenericParam) (vs : List Variant) (e : RustEnum)
    (hsa : getSerializedAsType E attrs = none)
    (h : parseEnum E T attrs ident gens vs = .ok (.enum e)) :
    e.variants.map (·.id.original) =
      (vs.filter fun v => !isSkipped v.attrs T).map (origOf <| some ·.ident) := by
  unfold parseEnum at h
  simp only [hsa] at h
  obtain ⟨rvs, hm, h⟩ := (bind_eq_ok _ _ _).1 h
  obtain ⟨id, _, h⟩ := (bind_eq_ok _ _ _).1 h
  have hv : e.variants = rvs := by
    unfold enumShape at h
    repeat' split at h
    all_goals first | (simp at h; subst h; rfl) | simp at h
  rw [hv]
  exact mapM'_map _ _ _ (parseVariant_original E T _) _ _ hm

/-- **struct-variant fields**: exactly the non-skipped source fields of the variant, in order -/
theorem variant_fields_exact (E : Ext) (T : List Str) (ra : Option Str) (v : Variant) (fs : List Field)
    (hv : v.fields = .named fs) (id : Id) (c : List Str) (rfs : List RustField)
    (h : parseEnumVariant E T ra v = .ok (.anonymousStruct id c rfs)) :
    rfs.map (·.id.original) = (fs.filter fun f => !isSkipped f.attrs T).map (origOf ·.ident) := by
  unfold parseEnumVariant at h
  obtain ⟨id', _, h⟩ := (bind_eq_ok _ _ _).1 h
  simp only [hv] at h
  obtain ⟨r, hm, h⟩ := (bind_eq_ok _ _ _).1 h
  simp at h
  obtain ⟨_, _, rfl⟩ := h
  exact mapM'_map _ _ _ (parseField_original E true _) _ _ hm

/-- a member is skipped exactly when some attribute carries the bare path `skip` inside
`serde(…)` or `typeshare(…)` — in any attribute position and argument order — or its cfg is
rejected by `--target-os` (C13) -/
theorem isSkipped_iff (attrs : List Attr) (T : List Str) :
    isSkipped attrs T = true ↔
      (∃ a ∈ attrs, ∃ m ∈ getMetaItems a kSerde ++ getMetaItems a kTypeshare, m.isIdent s%"skip" = true ∧
          (match m with | .path _ => True | _ => False)) ∨
      TargetOs.accept attrs T = some false := by
  unfold isSkipped skipMarked hasPathArg
  have hsome := TargetOs.accept_isSome attrs T
  obtain ⟨b, hb⟩ := Option.isSome_iff_exists.mp hsome
  rw [hb]
  simp only [Bool.or_eq_true, List.any_eq_true, Option.getD_some, Bool.not_eq_true', Option.some.injEq]
  constructor
  · rintro (⟨a, ha, h⟩ | h)
    · left
      refine ⟨a, ha, ?_⟩
      rcases h with ⟨m, hm, hp⟩ | ⟨m, hm, hp⟩
      · cases m with
        | path segs => exact ⟨_, List.mem_append_left _ hm, by simpa [Meta.isIdent, Meta.segs] using hp, trivial⟩
        | nameValue _ _ => simp at hp
        | list _ _ _ => simp at hp
      · cases m with
        | path segs => exact ⟨_, List.mem_append_right _ hm, by simpa [Meta.isIdent, Meta.segs] using hp, trivial⟩
        | nameValue _ _ => simp at hp
        | list _ _ _ => simp at hp
    · right; exact h
  · rintro (⟨a, ha, m, hm, hid, hp⟩ | h)
    · left
      refine ⟨a, ha, ?_⟩
      cases m with
      | path segs =>
        have hs : (segs == [s%"skip"]) = true := by simpa [Meta.isIdent, Meta.segs] using hid
        rcases List.mem_append.1 hm with hm | hm
        · exact Or.inl ⟨_, hm, hs⟩
        · exact Or.inr ⟨_, hm, hs⟩
      | nameValue _ _ => exact absurd hp (by simp)
      | list _ _ _ => exact absurd hp (by simp)
    · right; exact h

/-! ### non-vacuity: a file mixing annotated and un-annotated items at two module depths -/
def exFile : List Item :=
  [.struct [] s%"Plain" [] .unit,
   .mod [] s%"m" [.struct [⟨.path [s%"typeshare"]⟩] s%"Inner" []
      (.named [⟨[], some s%"a", .path [] s%"u8" []⟩,
               ⟨[⟨.list [s%"serde"] true [.path [s%"skip"]]⟩], some s%"b", .path [] s%"u64" []⟩])],
   .enum [⟨.path [s%"typeshare"]⟩] s%"E" [] [⟨[], s%"A", .unit⟩]]

example : (annotatedList {} exFile).length = 2 := by decide +kernel

end TsV.C03
