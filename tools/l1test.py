import sys, random
sys.path.insert(0, '/verif/tools')
from l1 import *
rng = random.Random(int(sys.argv[1]) if len(sys.argv) > 1 else 1)
N = int(sys.argv[2]) if len(sys.argv) > 2 else 300
edge = float(sys.argv[3]) if len(sys.argv) > 3 else 0.0
cases, texts = [], []
for i in range(N):
    g = Gen(rng, p_cfg=0.15, p_edge=edge, p_unsupported=0.05 if edge else 0.0, p_flatten=0.03 if edge else 0, nonascii=0.1 if edge else 0)
    f = g.file()
    tos = rng.choice([[], [], ["ios"], ["android", "macos"]])
    m, r, t = requests(f, g, target_os=tos)
    cases.append((m, r)); texts.append(t)
mans, rans, diffs = compare(cases)
print("cases", N, "diffs", len(diffs))
kinds = {}
for a in rans:
    k = "panic" if "panic" in a else "err" if "err" in a else "none" if a.get("ok") is None else "ok"
    kinds[k] = kinds.get(k, 0) + 1
print(kinds)
for i in diffs[:3]:
    print("-----", i)
    print(texts[i])
    print("DIFF:", first_diff(mans[i], rans[i]))
from collections import Counter
c = Counter()
for a in rans:
    if "panic" in a: c["panic " + a["panic"]] += 1
    elif a.get("ok"):
        for e in a["ok"]["errors"]: c["err " + e[0]] += 1
        for k in ("structs","enums","aliases","consts"): c[k] += len(a["ok"][k])
print(c)
import json
i = next(i for i,a in enumerate(rans) if a.get("ok") and a["ok"]["enums"] and a["ok"]["structs"])
print(texts[i]); print(json.dumps(mans[i])[:1500])
