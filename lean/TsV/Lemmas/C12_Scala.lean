import TsV.Lemmas.C12_Common
/-!
# C12, Scala: the unsigned aliases are used by `format_type` at any depth, but the alias block is
driven by a scan that looks one level deep
-/
namespace TsV.C12L.Scala
open TsV TsV.Lang TsV.Lang.Scala TsV.C12L

def isUnsignedPrim : Prim → Bool
  | .u8 | .u16 | .u32 | .u53 | .u64 | .usize => true
  | _ => false

mutual
  /-- does formatting `t` print one of `UByte` / `UShort` / `UInt` / `ULong`?  Follows `formatType`
  arm by arm (a type-mapped generic is replaced wholesale, its arguments are never formatted). -/
  def unsignedIn (cfg : Cfg) : RustType → Bool
    | .simple _ => false
    | .generic id ps => if (mapGet cfg.typeMappings id).isSome then false else unsignedInList cfg ps
    | .vec t | .array t _ | .slice t | .option t => unsignedIn cfg t
    | .hashMap k v => unsignedIn cfg k || unsignedIn cfg v
    | .prim p => isUnsignedPrim p
  def unsignedInList (cfg : Cfg) : List RustType → Bool
    | [] => false
    | t :: ts => unsignedIn cfg t || unsignedInList cfg ts
end

/-- the four alias names -/
def aliasNames : List Str := [s%"UByte", s%"UShort", s%"UInt", s%"ULong"]

/-! ### `unsignedIn` really is "the formatted string mentions an alias name" -/

mutual
  theorem formatType_mentions (cfg : Cfg) (gens : List Str) : ∀ (t : RustType) (s : Str),
      formatType cfg gens t = .ok s → unsignedIn cfg t = true → ∃ n ∈ aliasNames, n <:+: s
    | .simple id, s, _, hu => by simp [unsignedIn] at hu
    | .generic id ps, s, h, hu => by
      simp only [formatType] at h
      cases hm : mapGet cfg.typeMappings id with
      | some m => simp [unsignedIn, hm] at hu
      | none =>
        rw [hm] at h
        simp only [unsignedIn, hm, Option.isSome_none, Bool.false_eq_true, if_false] at hu
        simp only at h
        cases hps : formatTypes cfg gens ps with
        | ok strs =>
          rw [hps] at h
          simp only [Outcome.ok.injEq] at h
          obtain ⟨n, hn, x, hx, hi⟩ := formatTypes_mentions cfg gens ps strs hps hu
          refine ⟨n, hn, ?_⟩
          rw [← h]
          have hne : strs.isEmpty = false := by cases strs <;> simp_all
          simp only [hne, Bool.false_eq_true, if_false, bracket]
          have := infix_intercalate s%", " strs ⟨x, hx, hi⟩
          have := infix_mid (Option.getD none id ++ s%"[") s%"]" this
          simpa [List.append_assoc] using this
        | err e => rw [hps] at h; simp at h
        | panic e => rw [hps] at h; simp at h
    | .vec r, s, h, hu => by
      simp only [formatType, bind_ok_iff] at h
      obtain ⟨s1, h1, h2⟩ := h
      simp only [Outcome.ok.injEq] at h2
      obtain ⟨n, hn, hi⟩ := formatType_mentions cfg gens r s1 h1 (by simpa [unsignedIn] using hu)
      exact ⟨n, hn, by rw [← h2]; exact infix_mid _ _ hi⟩
    | .array r _, s, h, hu => by
      simp only [formatType, bind_ok_iff] at h
      obtain ⟨s1, h1, h2⟩ := h
      simp only [Outcome.ok.injEq] at h2
      obtain ⟨n, hn, hi⟩ := formatType_mentions cfg gens r s1 h1 (by simpa [unsignedIn] using hu)
      exact ⟨n, hn, by rw [← h2]; exact infix_mid _ _ hi⟩
    | .slice r, s, h, hu => by
      simp only [formatType, bind_ok_iff] at h
      obtain ⟨s1, h1, h2⟩ := h
      simp only [Outcome.ok.injEq] at h2
      obtain ⟨n, hn, hi⟩ := formatType_mentions cfg gens r s1 h1 (by simpa [unsignedIn] using hu)
      exact ⟨n, hn, by rw [← h2]; exact infix_mid _ _ hi⟩
    | .option r, s, h, hu => by
      simp only [formatType, bind_ok_iff] at h
      obtain ⟨s1, h1, h2⟩ := h
      simp only [Outcome.ok.injEq] at h2
      obtain ⟨n, hn, hi⟩ := formatType_mentions cfg gens r s1 h1 (by simpa [unsignedIn] using hu)
      exact ⟨n, hn, by rw [← h2]; exact infix_mid _ _ hi⟩
    | .hashMap k v, s, h, hu => by
      simp only [formatType, bind_ok_iff] at h
      obtain ⟨s1, h1, s2, h2, h3⟩ := h
      simp only [Outcome.ok.injEq] at h3
      simp only [unsignedIn, Bool.or_eq_true] at hu
      rcases hu with hu | hu
      · obtain ⟨n, hn, hi⟩ := formatType_mentions cfg gens k s1 h1 hu
        refine ⟨n, hn, ?_⟩
        rw [← h3]
        have := infix_mid s%"Map[" (s%", " ++ s2 ++ s%"]") hi
        simpa [List.append_assoc] using this
      · obtain ⟨n, hn, hi⟩ := formatType_mentions cfg gens v s2 h2 hu
        refine ⟨n, hn, ?_⟩
        rw [← h3]
        have := infix_mid (s%"Map[" ++ s1 ++ s%", ") s%"]" hi
        simpa [List.append_assoc] using this
    | .prim p, s, h, hu => by
      cases p <;> simp [unsignedIn, isUnsignedPrim] at hu <;>
        simp only [formatType, Outcome.ok.injEq] at h <;> subst h <;>
        simp [aliasNames, List.infix_refl]
  theorem formatTypes_mentions (cfg : Cfg) (gens : List Str) : ∀ (ts : List RustType) (ss : List Str),
      formatTypes cfg gens ts = .ok ss → unsignedInList cfg ts = true →
      ∃ n ∈ aliasNames, ∃ x ∈ ss, n <:+: x
    | [], ss, _, hu => by simp [unsignedInList] at hu
    | t :: ts, ss, h, hu => by
      simp only [formatTypes, bind_ok_iff] at h
      obtain ⟨s1, h1, ss2, h2, h3⟩ := h
      simp only [Outcome.ok.injEq] at h3
      simp only [unsignedInList, Bool.or_eq_true] at hu
      rcases hu with hu | hu
      · obtain ⟨n, hn, hi⟩ := formatType_mentions cfg gens t s1 h1 hu
        exact ⟨n, hn, s1, by simp [← h3], hi⟩
      · obtain ⟨n, hn, x, hx, hi⟩ := formatTypes_mentions cfg gens ts ss2 h2 hu
        exact ⟨n, hn, x, by simp [← h3, hx], hi⟩
end


/-! ## what one file formats, what the scan sees -/

/-- the type of a field when typeshare formats it (a `#[typeshare(scala(type = ".."))]` override is
the user's text and is not formatted) -/
def fieldFormatted (f : RustField) : List RustType :=
  match typeOverride f .scala with
  | some _ => []
  | none => [f.ty]

/-- the types `format_type` is called on while one enum is written: the fields of the classes
generated for its struct variants, and — for an algebraic enum — the tuple payloads -/
def enumFormatted (e : RustEnum) : List RustType :=
  (structVariants e).flatMap (fun p => p.2.flatMap fieldFormatted) ++
  (match e.keys with
   | none => []
   | some _ => e.variants.flatMap fun v => match v with
     | .tuple _ _ ty => [ty]
     | _ => [])

/-- every type tree `format_type` is called on while the file for `d` is generated -/
def formatted (d : ParsedData) : List RustType :=
  d.aliases.map (·.ty) ++ d.structs.flatMap (fun s => s.fields.flatMap fieldFormatted) ++
  d.enums.flatMap enumFormatted

/-- **helpersUsed (Scala)**: some formatted type prints an unsigned alias name -/
def used (cfg : Cfg) (d : ParsedData) : Bool := (formatted d).any (unsignedIn cfg)

/-- the scan reaches an unsigned integer of `t` -/
def within (t : RustType) : Bool := (scanCandidates t).any isUnsigned

theorem unsignedIntegerUsed_eq (d : ParsedData) : unsignedIntegerUsed d = (scannedTypes d).any within := by
  simp only [unsignedIntegerUsed, List.any_flatMap]
  rfl

theorem fieldFormatted_sub (f : RustField) : ∀ t ∈ fieldFormatted f, t = f.ty := by
  intro t ht
  unfold fieldFormatted at ht
  split at ht <;> simp_all

/-- everything that is formatted is also a starting point of the scan -/
theorem formatted_sub_scanned (d : ParsedData) : ∀ t ∈ formatted d, t ∈ scannedTypes d := by
  intro t ht
  simp only [formatted, List.mem_append, List.mem_map, List.mem_flatMap] at ht
  simp only [scannedTypes, List.mem_append, List.mem_map, List.mem_flatMap]
  rcases ht with (⟨a, ha, rfl⟩ | ⟨s, hs, f, hf, htf⟩) | ⟨e, he, hte⟩
  · exact Or.inl (Or.inl ⟨a, ha, rfl⟩)
  · exact Or.inl (Or.inr ⟨s, hs, f, hf, (fieldFormatted_sub f t htf).symm⟩)
  · refine Or.inr ⟨e, he, ?_⟩
    simp only [enumFormatted, List.mem_append, List.mem_flatMap] at hte
    rcases hte with ⟨p, hp, f, hf, htf⟩ | hte
    · simp only [structVariants, List.mem_filterMap] at hp
      obtain ⟨v, hv, hvp⟩ := hp
      refine ⟨v, hv, ?_⟩
      cases v with
      | unit i c => simp at hvp
      | tuple i c ty => simp at hvp
      | anonymousStruct i c fs =>
        simp only [Option.some.injEq] at hvp
        subst hvp
        simp only [List.mem_map]
        exact ⟨f, hf, (fieldFormatted_sub f t htf).symm⟩
    · cases hk : e.keys with
      | none => rw [hk] at hte; simp at hte
      | some k =>
        rw [hk] at hte
        simp only [List.mem_flatMap] at hte
        obtain ⟨v, hv, hvt⟩ := hte
        refine ⟨v, hv, ?_⟩
        cases v with
        | unit i c => simp at hvt
        | tuple i c ty => simpa using hvt
        | anonymousStruct i c fs => simp at hvt

/-- **helpersProvided (Scala)**, on the fact record of the file: the package object starts with the
alias block -/
def definesUnsigned (f : ScFile) : Bool :=
  match f.packageObject with
  | some (u, _) => u
  | none => false

/-- the alias block is written iff the scan says so -/
theorem fileFacts_defines (cfg : Cfg) (d : ParsedData) (f : ScFile) (h : fileFacts cfg d = .ok f) :
    definesUnsigned f = unsignedIntegerUsed d := by
  unfold fileFacts at h
  split at h
  · simp at h
  · split at h
    · simp at h
    · simp only [bind_ok_iff] at h
      obtain ⟨po, h1, pb, _, h3⟩ := h
      simp only [Outcome.ok.injEq] at h3
      subst h3
      simp only [definesUnsigned]
      split at h1
      · simp only [bind_ok_iff] at h1
        obtain ⟨as, _, h5⟩ := h1
        simp only [Outcome.ok.injEq] at h5
        subst h5
        rfl
      · rename_i hc
        simp only [Outcome.ok.injEq] at h1
        subst h1
        simp only [Bool.or_eq_true, not_or, Bool.not_eq_true] at hc
        simp [hc.1]

/-- … and when it is, the rendered file contains the four alias definitions -/
theorem renderFile_defines (f : ScFile) (h : definesUnsigned f = true) : unsignedAliases <:+: renderFile f := by
  unfold definesUnsigned at h
  unfold renderFile
  cases hp : f.packageObject with
  | none => simp [hp] at h
  | some p =>
    obtain ⟨u, as⟩ := p
    rw [hp] at h
    simp only at h
    subst h
    simp only [↓reduceIte]
    apply infix_mid
    cases f.split with
    | none => exact ⟨[], (as.flatMap renderAlias) ++ s%"}\n", by simp only [List.append_assoc, List.nil_append]⟩
    | some sp =>
      exact ⟨s%"package object " ++ sp.2 ++ s%" {\n\n", (as.flatMap renderAlias) ++ s%"}\n", by
        simp only [List.append_assoc]⟩

/-! ## the exact class of failures -/

/-- **Known (Scala)**: some formatted type prints an unsigned alias whose integer the scan does not
reach — and nothing else in the file brings one within reach of the scan -/
def Known (cfg : Cfg) (d : ParsedData) : Prop :=
  (∃ t ∈ formatted d, unsignedIn cfg t = true ∧ within t = false) ∧ ∀ t ∈ scannedTypes d, within t = false

instance (cfg : Cfg) (d : ParsedData) : Decidable (Known cfg d) := by unfold Known; infer_instance

theorem used_provided_iff (cfg : Cfg) (d : ParsedData) :
    (used cfg d = true → unsignedIntegerUsed d = true) ↔ ¬ Known cfg d := by
  rw [unsignedIntegerUsed_eq]
  simp only [used, List.any_eq_true, Known]
  constructor
  · rintro h ⟨⟨t, ht, hu, _⟩, hall⟩
    obtain ⟨t', ht', hw⟩ := h ⟨t, ht, hu⟩
    rw [hall t' ht'] at hw; simp at hw
  · rintro hk ⟨t, ht, hu⟩
    cases hw : within t with
    | true => exact ⟨t, formatted_sub_scanned d t ht, hw⟩
    | false =>
      apply Classical.byContradiction
      intro hn
      apply hk
      refine ⟨⟨t, ht, hu, hw⟩, ?_⟩
      intro t' ht'
      cases hw' : within t' with
      | false => rfl
      | true => exact absurd ⟨t', ht', hw'⟩ hn

/-- what "beyond the reach of the scan" means structurally: the unsigned integer sits under an
array or a slice (never entered), or at least two levels down -/
def beyondReach (cfg : Cfg) : RustType → Bool
  | .array t _ | .slice t => unsignedIn cfg t
  | .vec t | .option t => (match t with | .prim _ => false | _ => unsignedIn cfg t)
  | .hashMap k v =>
    (match k with | .prim _ => false | _ => unsignedIn cfg k) || (match v with | .prim _ => false | _ => unsignedIn cfg v)
  | .generic id ps =>
    if (mapGet cfg.typeMappings id).isSome then false
    else ps.any fun t => match t with | .prim _ => false | _ => unsignedIn cfg t
  | _ => false

theorem isUnsigned_prim (p : Prim) : isUnsigned (.prim p) = isUnsignedPrim p := by
  cases p <;> rfl

theorem unsignedInList_eq_any (cfg : Cfg) : ∀ ps : List RustType, unsignedInList cfg ps = ps.any (unsignedIn cfg)
  | [] => rfl
  | t :: ts => by simp [unsignedInList, unsignedInList_eq_any cfg ts]

theorem unsignedIn_child (cfg : Cfg) (t : RustType) :
    (unsignedIn cfg t && !isUnsigned t) = true →
    (match t with | .prim _ => false | _ => unsignedIn cfg t) = true := by
  cases t <;> simp [isUnsigned_prim, unsignedIn] <;> intros <;> simp_all

/-- a printed unsigned alias that the scan misses lies beyond its reach in exactly this sense -/
theorem beyondReach_of_missed (cfg : Cfg) (t : RustType) (hu : unsignedIn cfg t = true) (hw : within t = false) :
    beyondReach cfg t = true := by
  cases t with
  | simple id => simp [unsignedIn] at hu
  | prim p => simp [within, scanCandidates, isUnsigned_prim, unsignedIn] at hw hu; simp [hu] at hw
  | array r n => simpa [beyondReach, unsignedIn] using hu
  | slice r => simpa [beyondReach, unsignedIn] using hu
  | vec r =>
    simp only [within, scanCandidates, List.any_cons, List.any_nil, Bool.or_false] at hw
    simp only [unsignedIn] at hu
    exact unsignedIn_child cfg r (by simp [hu, hw])
  | option r =>
    simp only [within, scanCandidates, List.any_cons, List.any_nil, Bool.or_false] at hw
    simp only [unsignedIn] at hu
    exact unsignedIn_child cfg r (by simp [hu, hw])
  | hashMap k v =>
    simp only [within, scanCandidates, List.any_cons, List.any_nil, Bool.or_false, Bool.or_eq_false_iff] at hw
    simp only [unsignedIn, Bool.or_eq_true] at hu
    simp only [beyondReach, Bool.or_eq_true]
    rcases hu with hu | hu
    · exact Or.inl (unsignedIn_child cfg k (by simp [hu, hw.1]))
    · exact Or.inr (unsignedIn_child cfg v (by simp [hu, hw.2]))
  | generic id ps =>
    simp only [unsignedIn] at hu
    simp only [beyondReach]
    by_cases hm : (mapGet cfg.typeMappings id).isSome = true
    · simp [hm] at hu
    · simp only [hm, if_false, Bool.false_eq_true] at hu ⊢
      rw [unsignedInList_eq_any, List.any_eq_true] at hu
      obtain ⟨x, hx, hxu⟩ := hu
      simp only [within, scanCandidates, List.any_eq_false] at hw
      rw [List.any_eq_true]
      exact ⟨x, hx, unsignedIn_child cfg x (by simp [hxu, hw x hx])⟩

end TsV.C12L.Scala
