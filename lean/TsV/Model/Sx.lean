import TsV.Model.Str
/-!
# Wire formats of the driver: s-expressions in, JSON out.
Not part of any theorem; only `Main.lean` and the decoders use it.
-/
namespace TsV

inductive Sx where
  | atom (s : String)
  | str (s : Str)
  | list (xs : List Sx)
deriving Inhabited, Repr

namespace Sx

private def isAtomChar (c : Char) : Bool :=
  !(c == '(' || c == ')' || c == '"' || c == ' ' || c == '\n' || c == '\t' || c == '\r')

private def hexVal (c : Char) : Nat :=
  if '0' ≤ c ∧ c ≤ '9' then c.toNat - '0'.toNat
  else if 'a' ≤ c ∧ c ≤ 'f' then c.toNat - 'a'.toNat + 10
  else if 'A' ≤ c ∧ c ≤ 'F' then c.toNat - 'A'.toNat + 10 else 0

/-- string body after the opening quote; returns (content, rest) -/
private partial def parseStr : List Char → List Char → Option (Str × List Char)
  | '"' :: r, acc => some (acc.reverse, r)
  | '\\' :: 'n' :: r, acc => parseStr r ('\n' :: acc)
  | '\\' :: 'r' :: r, acc => parseStr r ('\r' :: acc)
  | '\\' :: 't' :: r, acc => parseStr r ('\t' :: acc)
  | '\\' :: '\\' :: r, acc => parseStr r ('\\' :: acc)
  | '\\' :: '"' :: r, acc => parseStr r ('"' :: acc)
  | '\\' :: 'u' :: '{' :: r, acc =>
    let hex := r.takeWhile (· != '}')
    let rest := (r.dropWhile (· != '}')).drop 1
    parseStr rest (Char.ofNat (hex.foldl (fun n c => n * 16 + hexVal c) 0) :: acc)
  | c :: r, acc => parseStr r (c :: acc)
  | [], _ => none

mutual
  partial def parseOne : List Char → Option (Sx × List Char)
    | [] => none
    | c :: r =>
      if c == ' ' || c == '\n' || c == '\t' || c == '\r' then parseOne r
      else if c == '(' then
        match parseMany r [] with
        | some (xs, rest) => some (.list xs, rest)
        | none => none
      else if c == '"' then
        match parseStr r [] with
        | some (s, rest) => some (.str s, rest)
        | none => none
      else if c == ')' then none
      else
        let tok := (c :: r).takeWhile isAtomChar
        some (.atom (String.ofList tok), (c :: r).dropWhile isAtomChar)
  partial def parseMany : List Char → List Sx → Option (List Sx × List Char)
    | [], _ => none
    | c :: r, acc =>
      if c == ' ' || c == '\n' || c == '\t' || c == '\r' then parseMany r acc
      else if c == ')' then some (acc.reverse, r)
      else match parseOne (c :: r) with
        | some (x, rest) => parseMany rest (x :: acc)
        | none => none
end

def parse (s : String) : Option Sx := (parseOne s.toList).map (·.1)

def asStr? : Sx → Option Str
  | .str s => some s
  | _ => none
def asAtom? : Sx → Option String
  | .atom s => some s
  | _ => none
def asNat? : Sx → Option Nat
  | .atom s => s.toNat?
  | _ => none
def asInt? : Sx → Option Int
  | .atom s => s.toInt?
  | _ => none
def asList? : Sx → Option (List Sx)
  | .list xs => some xs
  | _ => none
def asBool? : Sx → Option Bool
  | .atom "true" => some true
  | .atom "false" => some false
  | _ => none

end Sx

/-- JSON values for the driver's answers. -/
inductive J where
  | null
  | bool (b : Bool)
  | num (n : Int)
  | str (s : Str)
  | arr (xs : List J)
  | obj (kvs : List (String × J))
deriving Inhabited

namespace J

private def hexDigit (n : Nat) : Char :=
  if n < 10 then Char.ofNat ('0'.toNat + n) else Char.ofNat ('a'.toNat + n - 10)

def escape (s : List Char) : String := Id.run do
  let mut out := "\""
  for c in s do
    if c == '"' then out := out ++ "\\\""
    else if c == '\\' then out := out ++ "\\\\"
    else if c == '\n' then out := out ++ "\\n"
    else if c == '\r' then out := out ++ "\\r"
    else if c == '\t' then out := out ++ "\\t"
    else if c.toNat < 32 || c.toNat == 127 then
      out := out ++ "\\u00" ++ String.singleton (hexDigit (c.toNat / 16)) ++ String.singleton (hexDigit (c.toNat % 16))
    else out := out.push c
  return out ++ "\""

partial def render : J → String
  | .null => "null"
  | .bool b => if b then "true" else "false"
  | .num n => toString n
  | .str s => escape s
  | .arr xs => "[" ++ ", ".intercalate (xs.map render) ++ "]"
  | .obj kvs => "{" ++ ", ".intercalate (kvs.map fun (k, v) => escape k.toList ++ ": " ++ render v) ++ "}"

def ofStrs (xs : List Str) : J := .arr (xs.map .str)
def ofNats (xs : List Nat) : J := .arr (xs.map fun n => .num (Int.ofNat n))

end J
end TsV
