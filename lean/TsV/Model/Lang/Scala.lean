import TsV.Model.Lang.Common
/-!
# Model of `core/src/language/scala.rs`

`Scala` overrides `Language::generate_types`: no topological sort, no imports, no constants.  One
file is

    header?  `package <parent>`?  package-object{ unsigned aliases?, type aliases }?
    package{ structs (input order), enums (input order) }?

(`<parent>` / the block name are the package name split at its last dot; a name without a dot has
no `package <parent>` line and names the blocks itself.)

The printer has no mutable state (`type_mappings` is only read with `get`), so nothing is threaded
between the files of a run.  Declarations are first built as fact records (`ScParam`, `ScClass`,
`ScCase`, `ScEnum`, `ScAlias`: what a declaration binds and what it refers to) and then rendered;
the correspondence compares the rendered bytes.
-/
namespace TsV.Lang.Scala
open TsV TsV.Lang

structure Cfg where
  typeMappings : List (Str × Str) := []
  versionHeader : Option Str := none     -- `some version` when the header is written
  package : Str := []
  moduleName : Str := []

/-- `Scala::format_generic_parameters`: `[A, B]` -/
def bracket (ps : List Str) : Str := s%"[" ++ Str.intercalate s%", " ps ++ s%"]"

/-- `(!generic_types.is_empty()).then(|| format!("[{}]", generic_types.join(", "))).unwrap_or_default()` -/
def genericSq (gs : List Str) : Str := if gs.isEmpty then [] else bracket gs

/-- `str::rsplit_once('.')` -/
def rsplitOnceDot (s : Str) : Option (Str × Str) :=
  match s.reverse.span (· != '.') with
  | (_, []) => none
  | (lastRev, _ :: parentRev) => some (parentRev.reverse, lastRev.reverse)

/-- `Scala::last_package_segment`: everything after the last dot, or the whole name when it has
none (`fix:` commit 653aee1; before it `package object <x> {` / `package <x> {` were only written
for a name with a dot, their closing braces always) -/
def lastPackageSegment (package : Str) : Str :=
  match rsplitOnceDot package with
  | some (_, last) => last
  | none => package

mutual
  /-- `Language::format_type` (default) with `Scala::format_special_type`; special types are NOT
  looked up in the type mappings -/
  def formatType (cfg : Cfg) (gens : List Str) : RustType → Outcome Str
    | .simple id => .ok ((mapGet cfg.typeMappings id).getD id)
    | .generic id ps =>
      match mapGet cfg.typeMappings id with
      | some m => .ok m
      | none =>
        match formatTypes cfg gens ps with
        | .ok strs => .ok ((mapGet cfg.typeMappings id).getD id ++ (if strs.isEmpty then [] else bracket strs))
        | .err e => .err e
        | .panic s => .panic s
    | .vec r => (formatType cfg gens r).bind fun s => .ok (s%"Vector[" ++ s ++ s%"]")
    | .array r _ => (formatType cfg gens r).bind fun s => .ok (s%"Vector[" ++ s ++ s%"]")
    | .slice r => (formatType cfg gens r).bind fun s => .ok (s%"Vector[" ++ s ++ s%"]")
    | .option r => (formatType cfg gens r).bind fun s => .ok (s%"Option[" ++ s ++ s%"]")
    | .hashMap k v =>
      (formatType cfg gens k).bind fun ks =>
      (formatType cfg gens v).bind fun vs => .ok (s%"Map[" ++ ks ++ s%", " ++ vs ++ s%"]")
    | .prim p =>
      match p with
      | .unit => .ok s%"Unit"
      | .string | .char => .ok s%"String"
      | .i8 => .ok s%"Byte"
      | .i16 => .ok s%"Short"
      | .isize | .i32 => .ok s%"Int"
      | .i54 | .i64 => .ok s%"Long"
      | .u8 => .ok s%"UByte"
      | .u16 => .ok s%"UShort"
      | .usize | .u32 => .ok s%"UInt"
      | .u53 | .u64 => .ok s%"ULong"
      | .bool => .ok s%"Boolean"
      | .f32 => .ok s%"Float"
      | .f64 => .ok s%"Double"
      | .dateTime => .err (.formatError s%"UnsupportedSpecialType")
  def formatTypes (cfg : Cfg) (gens : List Str) : List RustType → Outcome (List Str)
    | [] => .ok []
    | t :: ts =>
      (formatType cfg gens t).bind fun s =>
      (formatTypes cfg gens ts).bind fun ss => .ok (s :: ss)
end

/-- `write_comments`: one `// ` line per comment -/
def comments (indent : Nat) (cs : List Str) : Str :=
  cs.flatMap fun c => tabs indent ++ s%"// " ++ c ++ nl

/-! ## the unsigned-alias scan -/

/-- the leaves of `uses_unsigned`: `U8 | U16 | U32 | U53 | U64 | USize` -/
def isUnsigned : RustType → Bool
  | .prim .u8 | .prim .u16 | .prim .u32 | .prim .u53 | .prim .u64 | .prim .usize => true
  | _ => false

mutual
  /-- `fn uses_unsigned` inside `unsigned_integer_used` (since the `fix:` commit 37c1b68): the scan
  descends through `Generic` arguments, `Option`, `Vec`, arrays, slices and both sides of a
  `HashMap`, to any depth (type mappings are not consulted) -/
  def usesUnsigned : RustType → Bool
    | .generic _ ps => usesUnsignedList ps
    | .simple _ => false
    | .option t | .vec t | .array t _ | .slice t => usesUnsigned t
    | .hashMap k v => usesUnsigned k || usesUnsigned v
    | t@(.prim _) => isUnsigned t
  /-- `parameters.iter().any(uses_unsigned)` -/
  def usesUnsignedList : List RustType → Bool
    | [] => false
    | t :: ts => usesUnsigned t || usesUnsignedList ts
end

/-- the types the scan starts from: alias targets, struct field types, tuple-variant types and
struct-variant field types (type overrides and type mappings are not consulted; consts are not
looked at) -/
def scannedTypes (d : ParsedData) : List RustType :=
  d.aliases.map (·.ty) ++
  d.structs.flatMap (fun s => s.fields.map (·.ty)) ++
  d.enums.flatMap fun e => e.variants.flatMap fun v =>
    match v with
    | .unit _ _ => []
    | .tuple _ _ ty => [ty]
    | .anonymousStruct _ _ fs => fs.map (·.ty)

/-- `unsigned_integer_used` -/
def unsignedIntegerUsed (d : ParsedData) : Bool :=
  (scannedTypes d).any usesUnsigned

/-- `write_unsigned_aliases` (`ULong = Int` is what the source says) -/
def unsignedAliases : Str :=
  s%"type UByte = Byte\ntype UShort = Short\ntype UInt = Int\ntype ULong = Int\n\n"

/-! ## case-class parameters and classes -/

/-- one case-class parameter -/
structure ScParam where
  comments : List Str
  name : Str          -- as printed (`-` replaced by `_`)
  ty : Str            -- type string (override or formatted)
  default : Str       -- ``, ` = None` or ` = _`
deriving Repr, Inhabited, DecidableEq

def renderParam (p : ScParam) : Str :=
  comments 1 p.comments ++ s%"\t" ++ p.name ++ s%": " ++ p.ty ++ p.default

/-- `write_element` as facts -/
def paramFacts (cfg : Cfg) (gens : List Str) (f : RustField) : Outcome ScParam :=
  (match typeOverride f .scala with
   | some t => Outcome.ok t
   | none => formatType cfg gens f.ty).bind fun ty =>
  .ok { comments := f.comments,
        name := Str.replaceChar f.id.renamed '-' s%"_",
        ty,
        default := if f.hasDefault && !f.ty.isOptional then s%" = _"
                   else if f.ty.isOptional then s%" = None" else [] }

/-- a `case class` (or, without parameters, a plain `class … extends Serializable`, which drops the
generic parameters) -/
structure ScClass where
  comments : List Str
  name : Str
  generics : List Str
  params : List ScParam
deriving Repr, Inhabited, DecidableEq

def renderClass (c : ScClass) : Str :=
  comments 0 c.comments ++
  if c.params.isEmpty then s%"class " ++ c.name ++ s%" extends Serializable\n\n"
  else
    s%"case class " ++ c.name ++ genericSq c.generics ++ s%" (\n" ++
      Str.intercalate s%",\n" (c.params.map renderParam) ++ s%"\n)\n\n"

/-- `write_struct` as facts -/
def classFacts (cfg : Cfg) (rs : RustStruct) : Outcome ScClass :=
  (Outcome.mapM' (paramFacts cfg rs.genericTypes) rs.fields).bind fun params =>
    .ok { comments := rs.comments, name := rs.id.renamed, generics := rs.genericTypes, params }

def writeStruct (cfg : Cfg) (rs : RustStruct) : Outcome Str :=
  (classFacts cfg rs).bind fun c => .ok (renderClass c)

/-! ## type aliases -/

structure ScAlias where
  comments : List Str
  name : Str          -- `id.renamed` (since the `fix:` commit 0c924cd; was `id.original`)
  generics : List Str
  ty : Str
deriving Repr, Inhabited, DecidableEq

def renderAlias (a : ScAlias) : Str :=
  comments 0 a.comments ++ s%"type " ++ a.name ++ genericSq a.generics ++ s%" = " ++ a.ty ++ s%"\n\n"

/-- `write_type_alias` as facts -/
def aliasFacts (cfg : Cfg) (a : RustTypeAlias) : Outcome ScAlias :=
  (formatType cfg a.genericTypes a.ty).bind fun ty =>
    .ok { comments := a.comments, name := a.id.renamed, generics := a.genericTypes, ty }

def writeAlias (cfg : Cfg) (a : RustTypeAlias) : Outcome Str :=
  (aliasFacts cfg a).bind fun f => .ok (renderAlias f)

/-! ## enums -/

/-- one member of the companion object -/
structure ScCase where
  comments : List Str
  name : Str                                    -- object / class name (from `id.original`)
  /-- `none`: `case object`; `some (generics, parameter name, parameter type)`: `case class` -/
  content : Option (List Str × Str × Str)
  parent : Str                                  -- the trait named after `extends`
  parentGenerics : List Str
  serialName : Str                              -- `id.renamed`, printed with `{:?}`
deriving Repr, Inhabited, DecidableEq

def renderCase (c : ScCase) : Str :=
  comments 1 c.comments ++
  (match c.content with
   | none => s%"\tcase object " ++ c.name
   | some (gs, p, ty) =>
     s%"\tcase class " ++ c.name ++ genericSq gs ++ s%"(" ++ p ++ s%": " ++ ty ++ s%")") ++
  s%" extends " ++ c.parent ++ genericSq c.parentGenerics ++ s%" {\n" ++
  s%"\t\tval serialName: String = " ++ debugStr c.serialName ++ s%"\n\t}\n"

/-- the `variant_name` block: a leading ASCII digit gets an underscore in front -/
def variantName (original : Str) : Str :=
  match original with
  | c :: _ => if Str.isAsciiDigit c then '_' :: original else original
  | [] => original

/-- the generic parameters of the enclosing enum a struct variant's fields mention
(`flat_map … filter(contains_type) … unique`) -/
def usedGenerics (e : RustEnum) (fields : List RustField) : List Str :=
  (fields.flatMap fun f => e.genericTypes.filter fun g => f.ty.containsType g).eraseDups

/-- one iteration of the loops of `write_enum_variants` -/
def caseFacts (cfg : Cfg) (e : RustEnum) (v : RustEnumVariant) : Outcome ScCase :=
  match e.keys with
  | none =>
    -- `RustEnum::Unit`: `extends <renamed>` without generic parameters, name not digit-escaped
    .ok { comments := v.comments, name := v.id.original, content := none,
          parent := e.id.renamed, parentGenerics := [], serialName := v.id.renamed }
  | some (_, contentKey) =>
    -- `RustEnum::Algebraic`: `extends <renamed><generics>` (since the `fix:` commit 3d3e1e7)
    let mk (content : Option (List Str × Str × Str)) : ScCase :=
      { comments := v.comments, name := variantName v.id.original, content,
        parent := e.id.renamed, parentGenerics := e.genericTypes, serialName := v.id.renamed }
    match v with
    | .unit _ _ => .ok (mk none)
    | .tuple _ _ ty =>
      (formatType cfg e.genericTypes ty).bind fun t => .ok (mk (some (e.genericTypes, contentKey, t)))
    | .anonymousStruct id _ fs =>
      .ok (mk (some (e.genericTypes, contentKey,
        e.id.renamed ++ id.original ++ s%"Inner" ++ genericSq (usedGenerics e fs))))

/-- a sealed trait with its companion object, preceded by the classes generated for its struct
variants -/
structure ScEnum where
  inner : List ScClass        -- `<renamed><Variant>Inner` classes
  comments : List Str
  name : Str                  -- `id.renamed`: trait and companion object
  generics : List Str
  cases : List ScCase
deriving Repr, Inhabited, DecidableEq

def renderEnum (e : ScEnum) : Str :=
  (e.inner.flatMap renderClass) ++
  comments 0 e.comments ++
  s%"sealed trait " ++ e.name ++ genericSq e.generics ++ s%" {\n" ++
  s%"\tdef serialName: String\n" ++
  s%"}\n" ++
  s%"object " ++ e.name ++ s%" {\n" ++
  (e.cases.flatMap renderCase) ++
  s%"}\n\n"

/-- `write_types_for_anonymous_structs` with Scala's `make_struct_name`
(`<enum renamed><variant original>Inner`) -/
def innerClasses (cfg : Cfg) (e : RustEnum) : Outcome (List ScClass) :=
  Outcome.mapM' (fun (p : Id × List RustField) =>
    classFacts cfg (anonymousStruct e (e.id.renamed ++ p.1.original ++ s%"Inner") p.1.original p.2))
    (structVariants e)

/-- `write_enum` as facts -/
def enumFacts (cfg : Cfg) (e : RustEnum) : Outcome ScEnum :=
  (innerClasses cfg e).bind fun inner =>
  (Outcome.mapM' (caseFacts cfg e) e.variants).bind fun cases =>
    .ok { inner, comments := e.comments, name := e.id.renamed, generics := e.genericTypes, cases }

def writeEnum (cfg : Cfg) (e : RustEnum) : Outcome Str :=
  (enumFacts cfg e).bind fun f => .ok (renderEnum f)

/-! ## the file -/

/-- everything one output file declares -/
structure ScFile where
  header : Option Str                 -- version
  /-- the parent of `package.rsplit_once('.')`: the `package <parent>` line, when written -/
  parent : Option Str
  /-- `last_package_segment()`: the name of the package object and of the package block -/
  last : Str
  /-- the package object, when written: whether it starts with the unsigned aliases, and the aliases -/
  packageObject : Option (Bool × List ScAlias)
  /-- the package block, when written -/
  packageBody : Option (List ScClass × List ScEnum)
deriving Repr, Inhabited, DecidableEq

def renderFile (f : ScFile) : Str :=
  (match f.header with
   | some v => s%"/**\n * Generated by typeshare " ++ v ++ s%"\n */\n"
   | none => []) ++
  (match f.parent with
   | some parent => s%"package " ++ parent ++ s%"\n\n"
   | none => []) ++
  (match f.packageObject with
   | some (unsigned, aliases) =>
     s%"package object " ++ f.last ++ s%" {\n\n" ++
     (if unsigned then unsignedAliases else []) ++
     (aliases.flatMap renderAlias) ++ s%"}\n"
   | none => []) ++
  (match f.packageBody with
   | some (classes, enums) =>
     s%"package " ++ f.last ++ s%" {\n\n" ++
     (classes.flatMap renderClass) ++ (enums.flatMap renderEnum) ++ s%"}\n"
   | none => [])

/-- `Scala::generate_types` as facts.  An empty package and any annotated const are io errors
(since the `fix:` commits 6e067e7 / bf55905; before them the former panicked and consts were
silently dropped); nothing is sorted, `write_imports` (`unimplemented!()`) is never called. -/
def fileFacts (cfg : Cfg) (d : ParsedData) : Outcome ScFile :=
  -- `begin_file`
  if cfg.package.isEmpty then .err (.formatError s%"PackageRequired") else
  if !d.consts.isEmpty then .err (.formatError s%"ConstUnsupported") else
  let unsigned := unsignedIntegerUsed d
  (if unsigned || !d.aliases.isEmpty then
     (Outcome.mapM' (aliasFacts cfg) d.aliases).bind fun as => .ok (some (unsigned, as))
   else .ok none).bind fun packageObject =>
  (if !d.structs.isEmpty || !d.enums.isEmpty then
     (Outcome.mapM' (classFacts cfg) d.structs).bind fun cs =>
     (Outcome.mapM' (enumFacts cfg) d.enums).bind fun es => .ok (some (cs, es))
   else .ok none).bind fun packageBody =>
  .ok { header := cfg.versionHeader, parent := (rsplitOnceDot cfg.package).map (·.1),
        last := lastPackageSegment cfg.package, packageObject, packageBody }

/-- `Language::generate_types` for one output file -/
def generate (cfg : Cfg) (d : ParsedData) : Outcome Str :=
  (fileFacts cfg d).bind fun f => .ok (renderFile f)

def generateFrom (cfg : Cfg) :
    List (Str × ParsedData × Option Pipeline.ScopedCrateTypes) → Outcome (List (Str × Str))
  | [] => .ok []
  | (crate, d, _) :: rest =>
    (generate cfg d).bind fun text =>
    (generateFrom cfg rest).bind fun outs => .ok ((crate, text) :: outs)

/-- all output files of one run: `jobs` are the crates in map order with their reconciled data and
(in multi-file mode) the imports `used_imports` computed (Scala's `generate_types` never looks at
them).  Returns (crate ↦ text) in the same order. -/
def generateAll (_E : Ext) (cfg : Cfg) (_multiFile : Bool)
    (jobs : List (Str × ParsedData × Option Pipeline.ScopedCrateTypes)) : Outcome (List (Str × Str)) :=
  generateFrom cfg jobs

end TsV.Lang.Scala
