import TsV.Lemmas.C14_Imports_Visit
/-!
# C14_ParamNames — helper lemmas: renaming an identifier inside a type
-/
namespace TsV.C14_ParamNames
open TsV TsV.Visitor TsV.C06M TsV.C14I

mutual
  /-- rename the identifier `p` to `q` wherever the type mentions it (a generic parameter being renamed
  in the item that binds it) -/
  def subst (p q : Str) : RustType → RustType
    | .simple i => .simple (if i == p then q else i)
    | .generic i ps => .generic (if i == p then q else i) (substList p q ps)
    | .vec t => .vec (subst p q t)
    | .array t n => .array (subst p q t) n
    | .slice t => .slice (subst p q t)
    | .option t => .option (subst p q t)
    | .hashMap k v => .hashMap (subst p q k) (subst p q v)
    | .prim x => .prim x
  def substList (p q : Str) : List RustType → List RustType
    | [] => []
    | t :: ts => subst p q t :: substList p q ts
end

mutual
  /-- every identifier other than the renamed one is still mentioned -/
  theorem mem_allIds_subst (p q x : Str) (hx : x ≠ p) : ∀ t : RustType, x ∈ t.allIds → x ∈ (subst p q t).allIds
    | .simple i, h => by
      simp only [RustType.allIds, List.mem_singleton] at h
      subst h
      simp [subst, RustType.allIds, hx]
    | .generic i ps, h => by
      simp only [RustType.allIds, List.mem_cons] at h
      simp only [subst, RustType.allIds, List.mem_cons]
      rcases h with rfl | h
      · left; simp [hx]
      · exact .inr (mem_allIdsList_subst p q x hx ps h)
    | .vec t, h => by
      simp only [RustType.allIds, List.mem_cons] at h
      simp only [subst, RustType.allIds, List.mem_cons]
      exact h.imp id (mem_allIds_subst p q x hx t)
    | .array t n, h => by
      simp only [RustType.allIds, List.mem_cons] at h
      simp only [subst, RustType.allIds, List.mem_cons]
      exact h.imp id (mem_allIds_subst p q x hx t)
    | .slice t, h => by
      simp only [RustType.allIds, List.mem_cons] at h
      simp only [subst, RustType.allIds, List.mem_cons]
      exact h.imp id (mem_allIds_subst p q x hx t)
    | .option t, h => by
      simp only [RustType.allIds, List.mem_cons] at h
      simp only [subst, RustType.allIds, List.mem_cons]
      exact h.imp id (mem_allIds_subst p q x hx t)
    | .hashMap k v, h => by
      simp only [RustType.allIds, List.mem_cons, List.mem_append] at h
      simp only [subst, RustType.allIds, List.mem_cons, List.mem_append]
      exact h.imp id (Or.imp (mem_allIds_subst p q x hx k) (mem_allIds_subst p q x hx v))
    | .prim y, h => h
  theorem mem_allIdsList_subst (p q x : Str) (hx : x ≠ p) : ∀ ts : List RustType,
      x ∈ RustType.allIdsList ts → x ∈ RustType.allIdsList (substList p q ts)
    | [], h => h
    | t :: ts, h => by
      simp only [RustType.allIdsList, List.mem_append] at h
      simp only [substList, RustType.allIdsList, List.mem_append]
      exact h.imp (mem_allIds_subst p q x hx t) (mem_allIdsList_subst p q x hx ts)
end

/-- the item that binds the parameter, with the parameter renamed: binder list and field types -/
def renameStruct (p q : Str) (s : RustStruct) : RustStruct :=
  { s with genericTypes := s.genericTypes.map (fun g => if g == p then q else g),
           fields := s.fields.map fun f => { f with ty := subst p q f.ty } }

end TsV.C14_ParamNames
