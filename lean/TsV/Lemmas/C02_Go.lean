import TsV.Lemmas.C02_Base
import TsV.Model.Lang.Go
/-!
# C02, Go: the string constants of the variants, and the json tags of the struct and of the two
anonymous structs inside `UnmarshalJSON` / `MarshalJSON` as a template
-/
namespace TsV.C02.Go
open TsV TsV.Str TsV.Lang TsV.Lang.Go TsV.C02

/-- what `write_enum` writes (the unit arm of the model builds its record inline) -/
inductive EnumDecl where
  | unit (anonymous : List GoStruct) (d : GoUnitEnum)
  | alg (d : GoAlgEnum)
deriving Repr, DecidableEq

def renderDecl : EnumDecl → Str
  | .unit anonymous d => anonymous.flatMap renderStruct ++ renderUnitEnum d
  | .alg d => renderAlgEnum d

/-- `write_enum` as facts -/
def enumFacts (U : UnicodeOps) (cfg : Cfg) (e : RustEnum) (customStructs : List Str) (st : Imports) :
    Outcome (EnumDecl × Imports) :=
  match e.keys with
  | none =>
    (anonStructs U cfg e (structVariants e) st).bind fun (anonymous, st) =>
    (acr U cfg e.id.original).bind fun name =>
    (unitConsts U cfg e.id.original e.variants).bind fun consts =>
      .ok (.unit anonymous { comments := e.comments, name, consts }, st)
  | some (tagKey, contentKey) =>
    (algEnumFacts U cfg e tagKey contentKey customStructs st).bind fun (d, st) => .ok (.alg d, st)

/-- **the facts render to exactly what `write_enum` writes** -/
theorem writeEnum_eq (U : UnicodeOps) (cfg : Cfg) (e : RustEnum) (customStructs : List Str) (st : Imports) :
    writeEnum U cfg e customStructs st =
      (enumFacts U cfg e customStructs st).bind fun (d, st) => .ok (renderDecl d, st) := by
  unfold writeEnum enumFacts
  cases e.keys with
  | none =>
    simp only
    cases anonStructs U cfg e (structVariants e) st with
    | ok p =>
      simp only [Outcome.bind_ok]
      cases acr U cfg e.id.original with
      | ok name =>
        simp only [Outcome.bind_ok]
        cases unitConsts U cfg e.id.original e.variants with
        | ok cs => rfl
        | err x => rfl
        | panic x => rfl
      | err x => rfl
      | panic x => rfl
    | err x => rfl
    | panic x => rfl
  | some p =>
    obtain ⟨t, c⟩ := p
    simp only
    cases algEnumFacts U cfg e t c customStructs st with
    | ok q => rfl
    | err x => rfl
    | panic x => rfl

/-! ## the codec as a template -/

def unmarshalSegs (e : GoAlgEnum) : List Seg :=
  [.lit (s%"func (" ++ e.short ++ s%" *" ++ e.name ++ s%") UnmarshalJSON(data []byte) error {\n" ++
     s%"\tvar enum struct {\n" ++
     s%"\t\tTag    " ++ e.keyType ++ s%"   `json:\""),
   .hole .tag .raw e.tagKey,
   .lit (s%"\"`\n" ++ s%"\t\tContent json.RawMessage `json:\""),
   .hole .content .raw e.contentKey,
   .lit (s%"\"`\n" ++
     s%"\t}\n" ++
     s%"\tif err := json.Unmarshal(data, &enum); err != nil {\n\t\treturn err\n\t}\n\n" ++
     s%"\t" ++ e.short ++ s%"." ++ e.tagField ++ s%" = enum.Tag\n" ++
     s%"\tswitch " ++ e.short ++ s%"." ++ e.tagField ++ s%" {\n" ++
     e.variants.flatMap (renderDecodeCase e) ++ s%"\n\t}\n" ++
     s%"\tif err := json.Unmarshal(enum.Content, &" ++ e.short ++ s%"." ++ e.contentField ++ s%"); err != nil {\n" ++
     s%"\t\treturn err\n\t}\n\n\treturn nil\n}\n")]

def marshalSegs (e : GoAlgEnum) : List Seg :=
  [.lit (s%"func (" ++ e.short ++ s%" " ++ e.name ++ s%") MarshalJSON() ([]byte, error) {\n" ++
     s%"    var enum struct {\n" ++
     s%"\t\tTag    " ++ e.keyType ++ s%"   `json:\""),
   .hole .tag .raw e.tagKey,
   .lit (s%"\"`\n" ++ s%"\t\tContent interface{} `json:\""),
   .hole .content .raw e.contentKey,
   .lit (s%",omitempty\"`\n" ++
     s%"    }\n" ++
     s%"    enum.Tag = " ++ e.short ++ s%"." ++ e.tagField ++ s%"\n" ++
     s%"    enum.Content = " ++ e.short ++ s%"." ++ e.contentField ++ s%"\n" ++
     s%"    return json.Marshal(enum)\n}\n")]

/-- the whole output for an algebraic enum; the only key holes are the json tag of the struct's tag
field (the content field is untagged: (un)marshalling goes through the two methods) and the four
tags inside the methods -/
def algSegs (e : GoAlgEnum) : List Seg :=
  [.lit (e.anonymous.flatMap renderStruct ++
     comments 0 e.comments ++
     s%"type " ++ e.keyType ++ s%" string\n" ++ s%"const (\n" ++
     (e.variants.flatMap fun v =>
       comments 1 v.comments ++ s%"\t" ++ v.constName ++ s%" " ++ e.keyType ++ s%" = " ++ debugStr v.wire ++ nl) ++
     s%")\n" ++
     s%"type " ++ e.name ++ s%" struct{ \n" ++
     s%"\t" ++ e.tagField ++ s%" " ++ e.keyType ++ s%" `json:"),
   .hole .tag .debug e.tagKey,
   .lit (s%"`\n" ++
     s%"\t" ++ e.contentField ++ s%" interface{}\n" ++
     s%"}\n" ++
     nl)] ++
  unmarshalSegs e ++ [.lit nl] ++ marshalSegs e ++
  [.lit (nl ++
     e.variants.flatMap (renderAccessor e) ++ nl ++
     e.variants.flatMap (renderConstructor e) ++ nl)]

theorem unmarshal_flat (e : GoAlgEnum) : flat (unmarshalSegs e) = renderUnmarshal e := by
  unfold unmarshalSegs renderUnmarshal
  simp only [flat_cons, flat_nil, Seg.text, Quote.render, List.append_nil, List.append_assoc]

theorem marshal_flat (e : GoAlgEnum) : flat (marshalSegs e) = renderMarshal e := by
  unfold marshalSegs renderMarshal
  simp only [flat_cons, flat_nil, Seg.text, Quote.render, List.append_nil, List.append_assoc]

/-- **the template denotes exactly the text the model (hence the generator) writes** -/
theorem alg_flat (e : GoAlgEnum) : flat (algSegs e) = renderAlgEnum e := by
  unfold algSegs renderAlgEnum
  rw [flat_append, flat_append, flat_append, flat_append, unmarshal_flat, marshal_flat]
  simp only [flat_cons, flat_nil, Seg.text, Quote.render, List.append_nil, List.append_assoc]

/-- **the five key holes, in order of appearance** -/
theorem alg_holes (e : GoAlgEnum) :
    holesOf (algSegs e) =
      [(.tag, e.tagKey),                                   -- `json:"…"` on the struct's tag field
       (.tag, e.tagKey), (.content, e.contentKey),         -- the anonymous struct in `UnmarshalJSON`
       (.tag, e.tagKey), (.content, e.contentKey)] := rfl  -- the anonymous struct in `MarshalJSON`

/-- binding semantics: a typed string constant `Name Type = "wire"` is the case `Name`, serialised
as `wire` -/
def wire : EnumDecl → EnumWire
  | .unit _ d => { cases := d.consts.map fun c => ⟨some c.name, some c.wire⟩, holes := [] }
  | .alg d =>
    { cases := d.variants.map fun v => ⟨some v.constName, some v.wire⟩, holes := holesOf (algSegs d) }

/-! ## facts -/

theorem unitConsts_facts (U : UnicodeOps) (cfg : Cfg) (orig : Str) : ∀ (vs : List RustEnumVariant) (cs : List GoConst),
    unitConsts U cfg orig vs = .ok cs →
      cs.map (·.wire) = vs.map (·.id.renamed) ∧
      ∃ vns : List Str, (vs.map fun v => acr U cfg v.id.original) = vns.map Outcome.ok ∧
        ∀ en, acr U cfg orig = .ok en → cs.map (·.name) = vns.map (en ++ ·)
  | [], cs, h => by simp [unitConsts] at h; subst h; exact ⟨rfl, [], rfl, fun _ _ => rfl⟩
  | .unit id cmts :: vs, cs, h => by
    simp only [unitConsts] at h
    obtain ⟨en, hen, h⟩ := (Outcome.bind_eq_ok _ _ _).1 h
    obtain ⟨vn, hvn, h⟩ := (Outcome.bind_eq_ok _ _ _).1 h
    obtain ⟨rest, hr, h⟩ := (Outcome.bind_eq_ok _ _ _).1 h
    simp at h; subst h
    obtain ⟨i1, vns, i2, i3⟩ := unitConsts_facts U cfg orig vs rest hr
    refine ⟨?_, vn :: vns, ?_, ?_⟩
    · simp only [List.map_cons, i1]; rfl
    · show acr U cfg id.original :: _ = _
      rw [hvn, i2]; rfl
    intro en' hen'
    have : en' = en := by rw [hen] at hen'; cases hen'; rfl
    subst this
    simp [i3 en' hen]
  | .tuple _ _ _ :: vs, cs, h => by simp [unitConsts] at h
  | .anonymousStruct _ _ _ :: vs, cs, h => by simp [unitConsts] at h

theorem algVariant_facts (U : UnicodeOps) (cfg : Cfg) (e : RustEnum) (sn tk : Str) (cst : List Str)
    (v : RustEnumVariant) (st st' : Imports) (g : GoAlgVariant)
    (h : algVariant U cfg e sn tk cst v st = .ok (g, st')) :
    g.wire = v.id.renamed ∧ ∃ vn tp, acr U cfg v.id.original = .ok vn ∧ acr U cfg (Rename.toPascal U tk) = .ok tp ∧
      g.constName = sn ++ tp ++ s%"Variant" ++ vn := by
  unfold algVariant at h
  obtain ⟨vn, hvn, h⟩ := (Outcome.bind_eq_ok _ _ _).1 h
  obtain ⟨⟨vt, st1⟩, _, h⟩ := (Outcome.bind_eq_ok _ _ _).1 h
  obtain ⟨tp, htp, h⟩ := (Outcome.bind_eq_ok _ _ _).1 h
  obtain ⟨payload, _, h⟩ := (Outcome.bind_eq_ok _ _ _).1 h
  cases h
  exact ⟨rfl, vn, tp, hvn, htp, rfl⟩

theorem algVariants_facts (U : UnicodeOps) (cfg : Cfg) (e : RustEnum) (sn tk : Str) (cst : List Str) :
    ∀ (vs : List RustEnumVariant) (st st' : Imports) (gs : List GoAlgVariant),
      algVariants U cfg e sn tk cst vs st = .ok (gs, st') →
        gs.map (·.wire) = vs.map (·.id.renamed) ∧
        ∃ vns : List Str, (vs.map fun v => acr U cfg v.id.original) = vns.map Outcome.ok ∧
          ∃ pre : Str, gs.map (·.constName) = vns.map (pre ++ ·)
  | [], st, st', gs, h => by
    simp [algVariants] at h; obtain ⟨rfl, _⟩ := h; exact ⟨rfl, [], rfl, [], rfl⟩
  | v :: vs, st, st', gs, h => by
    simp only [algVariants] at h
    obtain ⟨⟨g, st1⟩, hg, h⟩ := (Outcome.bind_eq_ok _ _ _).1 h
    obtain ⟨⟨gs', st2⟩, hr, h⟩ := (Outcome.bind_eq_ok _ _ _).1 h
    simp at h; obtain ⟨rfl, _⟩ := h
    obtain ⟨h1, vn, tp, hvn, htp, hcn⟩ := algVariant_facts U cfg e sn tk cst v st st1 g hg
    obtain ⟨i1, vns, i2, pre, i3⟩ := algVariants_facts U cfg e sn tk cst vs st1 st2 gs' hr
    refine ⟨by simp [h1, i1], vn :: vns, by simp [hvn, i2], sn ++ tp ++ s%"Variant", ?_⟩
    -- the prefix is the same for every variant: the tail either is empty or was built from the same `tp`
    cases vs with
    | nil =>
      simp [algVariants] at hr; obtain ⟨rfl, _⟩ := hr
      cases vns with
      | nil => simp [hcn]
      | cons a t => simp at i2
    | cons v2 vs2 =>
      simp only [algVariants] at hr
      obtain ⟨⟨g2, st3⟩, hg2, hr⟩ := (Outcome.bind_eq_ok _ _ _).1 hr
      obtain ⟨⟨gs2, st4⟩, hr2, hr⟩ := (Outcome.bind_eq_ok _ _ _).1 hr
      simp at hr; obtain ⟨rfl, _⟩ := hr
      obtain ⟨_, vn2, tp2, hvn2, htp2, hcn2⟩ := algVariant_facts U cfg e sn tk cst v2 st1 st3 g2 hg2
      have htpe : tp2 = tp := by rw [htp] at htp2; cases htp2; rfl
      subst htpe
      cases vns with
      | nil => simp at i2
      | cons a t =>
        simp only [List.map_cons, List.cons.injEq] at i2 i3
        have ha : a = vn2 := by
          have := i2.1; rw [hvn2] at this; cases this; rfl
        subst ha
        have hpre : pre = sn ++ tp2 ++ s%"Variant" := by
          have := i3.1; rw [hcn2] at this
          exact (List.append_cancel_right this).symm
        subst hpre
        simp only [List.map_cons, hcn, i3.1, i3.2]

/-- the data of an output: wire names, and constant names as a common prefix in front of the
acronym-converted identifiers -/
theorem facts (U : UnicodeOps) (cfg : Cfg) (e : RustEnum) (customStructs : List Str) (st st' : Imports) (d : EnumDecl)
    (h : enumFacts U cfg e customStructs st = .ok (d, st')) :
    (wire d).Names e ∧ (wire d).Keys e ∧
    ∃ (vns : List Str) (pre : Str), (e.variants.map fun v => acr U cfg v.id.original) = vns.map Outcome.ok ∧
      (wire d).cases.filterMap (·.caseId) = vns.map (pre ++ ·) := by
  unfold enumFacts at h
  cases hkeys : e.keys with
  | none =>
    simp only [hkeys] at h
    obtain ⟨⟨anonymous, st1⟩, _, h⟩ := (Outcome.bind_eq_ok _ _ _).1 h
    obtain ⟨name, hname, h⟩ := (Outcome.bind_eq_ok _ _ _).1 h
    obtain ⟨consts, hc, h⟩ := (Outcome.bind_eq_ok _ _ _).1 h
    simp at h; obtain ⟨rfl, _⟩ := h
    obtain ⟨h1, vns, h2, h3⟩ := unitConsts_facts U cfg e.id.original e.variants consts hc
    refine ⟨?_, ?_, vns, name, h2, ?_⟩
    · have := congrArg (List.map some) h1
      simpa [EnumWire.Names, wire, Function.comp_def] using this
    · simp [EnumWire.Keys, hkeys, wire]
    · rw [← h3 name hname]
      simp [wire, List.filterMap_map, Function.comp_def]
  | some p =>
    obtain ⟨tag, content⟩ := p
    simp only [hkeys] at h
    obtain ⟨⟨g, st1⟩, hg, h⟩ := (Outcome.bind_eq_ok _ _ _).1 h
    simp at h; obtain ⟨rfl, _⟩ := h
    unfold algEnumFacts at hg
    obtain ⟨⟨anonymous, st2⟩, _, hg⟩ := (Outcome.bind_eq_ok _ _ _).1 hg
    obtain ⟨name, _, hg⟩ := (Outcome.bind_eq_ok _ _ _).1 hg
    obtain ⟨tagField, _, hg⟩ := (Outcome.bind_eq_ok _ _ _).1 hg
    obtain ⟨short, _, hg⟩ := (Outcome.bind_eq_ok _ _ _).1 hg
    obtain ⟨tagAcr, _, hg⟩ := (Outcome.bind_eq_ok _ _ _).1 hg
    obtain ⟨⟨variants, st3⟩, hv, hg⟩ := (Outcome.bind_eq_ok _ _ _).1 hg
    simp at hg; obtain ⟨rfl, _⟩ := hg
    obtain ⟨h1, vns, h2, pre, h3⟩ := algVariants_facts U cfg e name tag customStructs e.variants st2 st3 variants hv
    refine ⟨?_, ?_, vns, pre, h2, ?_⟩
    · have := congrArg (List.map some) h1
      simpa [EnumWire.Names, wire, Function.comp_def] using this
    · simp only [EnumWire.Keys, hkeys, wire, alg_holes]
      intro x hx
      simp only [List.mem_cons, List.not_mem_nil, or_false] at hx
      rcases hx with rfl | rfl | rfl | rfl | rfl <;> simp
    · rw [← h3]
      simp [wire, List.filterMap_map, Function.comp_def]

/-- each variant has a constant of its own exactly when the acronym conversion keeps the variant
identifiers apart -/
theorem distinct_iff (U : UnicodeOps) (cfg : Cfg) (e : RustEnum) (customStructs : List Str) (st st' : Imports)
    (d : EnumDecl) (h : enumFacts U cfg e customStructs st = .ok (d, st')) :
    (wire d).Distinct ↔ (e.variants.map fun v => convertAcronyms U cfg.uppercaseAcronyms v.id.original).Nodup := by
  obtain ⟨_, _, vns, pre, h2, h3⟩ := facts U cfg e customStructs st st' d h
  show ((wire d).cases.filterMap (·.caseId)).Nodup ↔ (e.variants.map fun v => acr U cfg v.id.original).Nodup
  rw [h3, h2]
  constructor
  · intro hn
    exact nodup_map_on _ vns (nodup_of_map _ _ hn) fun a _ b _ hab => by cases hab; rfl
  · intro hn
    exact nodup_map_on _ vns (nodup_of_map _ _ hn) fun a _ b _ hab => List.append_cancel_left hab

/-- **Go**: whatever `write_enum` emits for an in-scope enum whose variant identifiers stay distinct
under the configured acronym conversion is correct on the wire -/
theorem correct (U : UnicodeOps) (cfg : Cfg) (e : RustEnum) (customStructs : List Str) (st st' : Imports) (d : EnumDecl)
    (hk : (e.variants.map fun v => convertAcronyms U cfg.uppercaseAcronyms v.id.original).Nodup)
    (h : enumFacts U cfg e customStructs st = .ok (d, st')) : (wire d).Correct e :=
  have f := facts U cfg e customStructs st st' d h
  ⟨f.1, (distinct_iff U cfg e customStructs st st' d h).2 hk, f.2.1⟩

/-- … and conversely: two variants that the acronym conversion maps to one name share one constant -/
theorem collide (U : UnicodeOps) (cfg : Cfg) (e : RustEnum) (customStructs : List Str) (st st' : Imports) (d : EnumDecl)
    (hk : ¬ (e.variants.map fun v => convertAcronyms U cfg.uppercaseAcronyms v.id.original).Nodup)
    (h : enumFacts U cfg e customStructs st = .ok (d, st')) : ¬ (wire d).Distinct :=
  fun hd => hk ((distinct_iff U cfg e customStructs st st' d h).1 hd)

/-- without configured acronyms the conversion is the identity -/
theorem convertAcronyms_nil (U : UnicodeOps) (name : Str) : convertAcronyms U [] name = .ok name := rfl

end TsV.C02.Go
