import TsV.Lemmas.C03_Emission_Common
/-!
# C03, emission clause — a single-file run, from the source file to the one job handed to a back end
-/
namespace TsV.C03E
open TsV TsV.Syn TsV.Parser TsV.Visitor TsV.Pipeline TsV.Generate TsV.Outcome

/-- the back-end call of `Generate.run` -/
def genAll (E : Ext) (lang : LangCfg) (mf : Bool)
    (jobs : List (Str × ParsedData × Option Pipeline.ScopedCrateTypes)) : Outcome (List (Str × Str)) :=
  match lang with
  | .typescript cfg => Lang.TypeScript.generateAll E cfg mf jobs
  | .kotlin cfg => Lang.Kotlin.generateAll E cfg mf jobs
  | .swift cfg => Lang.Swift.generateAll E cfg mf jobs
  | .scala cfg => Lang.Scala.generateAll E cfg mf jobs
  | .go cfg => Lang.Go.generateAll E cfg mf jobs
  | .python cfg => Lang.Python.generateAll E cfg mf jobs

theorem genAll_nil (E : Ext) (lang : LangCfg) : genAll E lang false [] = .ok [] := by
  cases lang <;> rfl

/-! ## what the visitor collects -/

theorem collectAll_spec (path : Str) : ∀ (outs : List (Outcome RustItem)) (d : ParsedData),
    (∀ o ∈ outs, NP o) →
    ∃ d', C03.collectAll path d outs = .ok d' ∧
      d'.structs = d.structs ++ structsOf (okItems outs) ∧ d'.enums = d.enums ++ enumsOf (okItems outs) ∧
      d'.aliases = d.aliases ++ aliasesOf (okItems outs) ∧ d'.consts = d.consts ++ constsOf (okItems outs) ∧
      d'.errors = d.errors ++ (errKinds outs).map (fun e => (e, path)) ∧
      d'.crateName = d.crateName ∧ d'.fileName = d.fileName ∧ d'.multiFile = d.multiFile ∧
      d'.importTypes = d.importTypes
  | [], d, _ => ⟨d, rfl, by simp [okItems, errKinds, structsOf, enumsOf, aliasesOf, constsOf]⟩
  | o :: os, d, h => by
    have hos : ∀ x ∈ os, NP x := fun x hx => h x (by simp [hx])
    cases o with
    | ok it =>
      obtain ⟨d', h1, h2⟩ := collectAll_spec path os (push d it) hos
      refine ⟨d', by simp [C03.collectAll, collectResult, h1], ?_⟩
      cases it <;>
        simpa [push, okItems, errKinds, structsOf, enumsOf, aliasesOf, constsOf, List.append_assoc] using h2
    | err e =>
      obtain ⟨d', h1, h2⟩ := collectAll_spec path os { d with errors := d.errors ++ [(e, path)] } hos
      refine ⟨d', by simp [C03.collectAll, collectResult, h1], ?_⟩
      simpa [okItems, errKinds, List.append_assoc] using h2
    | panic s =>
      have := h (.panic s) (by simp)
      simp [NP, Outcome.isPanic] at this

/-- the four item lists put back together are the list, up to order -/
theorem split_perm : ∀ l : List RustItem,
    ((aliasesOf l).map RustItem.alias ++ (structsOf l).map RustItem.struct ++ (enumsOf l).map RustItem.enum ++
      (constsOf l).map RustItem.const).Perm l
  | [] => by simp [aliasesOf, structsOf, enumsOf, constsOf]
  | it :: l => by
    have ih := split_perm l
    cases it with
    | struct s =>
      simp only [aliasesOf, structsOf, enumsOf, constsOf, List.filterMap_cons, List.map_cons] at ih ⊢
      refine List.Perm.trans ?_ (ih.cons _)
      simp only [List.append_assoc]
      exact List.perm_middle
    | «enum» e =>
      simp only [aliasesOf, structsOf, enumsOf, constsOf, List.filterMap_cons, List.map_cons] at ih ⊢
      refine List.Perm.trans ?_ (ih.cons _)
      have : ∀ (a b c d : List RustItem) (x : RustItem), (a ++ b ++ (x :: c) ++ d).Perm (x :: (a ++ b ++ c ++ d)) := by
        intro a b c d x
        have := @List.perm_middle _ x (a ++ b) (c ++ d)
        simpa [List.append_assoc] using this
      exact this _ _ _ _ _
    | alias a =>
      simp only [aliasesOf, structsOf, enumsOf, constsOf, List.filterMap_cons, List.map_cons] at ih ⊢
      simpa [List.append_assoc] using ih.cons (RustItem.alias a)
    | const c =>
      simp only [aliasesOf, structsOf, enumsOf, constsOf, List.filterMap_cons, List.map_cons] at ih ⊢
      refine List.Perm.trans ?_ (ih.cons _)
      have : ∀ (a b c d : List RustItem) (x : RustItem), (a ++ b ++ c ++ (x :: d)).Perm (x :: (a ++ b ++ c ++ d)) := by
        intro a b c d x
        exact List.perm_middle
      exact this _ _ _ _ _

theorem structsOf_map_rec (c : Str) (r : Renames) (l : List RustItem) :
    structsOf (l.map (recItem c r)) =
      (structsOf l).map fun s => { s with fields := s.fields.map (checkField c r []) } := by
  induction l with
  | nil => rfl
  | cons it t ih => cases it <;> simp_all [structsOf, recItem]

theorem enumsOf_map_rec (c : Str) (r : Renames) (l : List RustItem) :
    enumsOf (l.map (recItem c r)) =
      (enumsOf l).map fun e => { e with variants := e.variants.map (checkVariant c r []) } := by
  induction l with
  | nil => rfl
  | cons it t ih => cases it <;> simp_all [enumsOf, recItem]

theorem aliasesOf_map_rec (c : Str) (r : Renames) (l : List RustItem) :
    aliasesOf (l.map (recItem c r)) = (aliasesOf l).map fun a => { a with ty := checkType c r [] a.ty } := by
  induction l with
  | nil => rfl
  | cons it t ih => cases it <;> simp_all [aliasesOf, recItem]

theorem constsOf_map_rec (c : Str) (r : Renames) (l : List RustItem) :
    constsOf (l.map (recItem c r)) = constsOf l := by
  induction l with
  | nil => rfl
  | cons it t ih => cases it <;> simp_all [constsOf, recItem]

/-- the reconciled data of a one-crate, no-import run holds the reconciled parsed items, each once -/
theorem reconciled_perm (c : Str) (d : ParsedData) (P : List RustItem)
    (hs : d.structs = structsOf P) (he : d.enums = enumsOf P) (ha : d.aliases = aliasesOf P)
    (hc : d.consts = constsOf P) (hi : d.importTypes = []) (r : Renames) :
    (C12L.itemsOf (reconcileOne r c d)).Perm (P.map (recItem c r)) := by
  refine List.Perm.trans ?_ (split_perm (P.map (recItem c r)))
  rw [structsOf_map_rec, enumsOf_map_rec, aliasesOf_map_rec, constsOf_map_rec]
  unfold C12L.itemsOf
  simp only [reconcileOne, hi, hs, he, ha, hc, sortBy]
  exact (((List.mergeSort_perm _ _).map _).append ((List.mergeSort_perm _ _).map _)).append
    ((List.mergeSort_perm _ _).map _) |>.append ((List.mergeSort_perm _ _).map _)

/-! ## the run -/

/-- what `parser::parse` returns for the file, in terms of the parse half -/
theorem parseFile_single (E : Ext) (lang : LangCfg) (targetOs : List Str)
    (pick : List ImportedType → Option ImportedType) (f : SourceFile) :
    ∃ d : ParsedData,
      d.structs = structsOf (parsedItems E (ctxOf lang targetOs) f.file) ∧
      d.enums = enumsOf (parsedItems E (ctxOf lang targetOs) f.file) ∧
      d.aliases = aliasesOf (parsedItems E (ctxOf lang targetOs) f.file) ∧
      d.consts = constsOf (parsedItems E (ctxOf lang targetOs) f.file) ∧
      d.errors = (parseErrs E (ctxOf lang targetOs) f.file).map (fun e => (e, f.path)) ∧
      d.crateName = f.crateName ∧ d.multiFile = false ∧ d.importTypes = [] ∧
      parseFile E (ctxOf lang targetOs) pick f.crateName f.fileName f.path f.file =
        .ok (if Visitor.isEmpty d then none else some d) := by
  let ctx := ctxOf lang targetOs
  let d0 : ParsedData := { crateName := f.crateName, fileName := f.fileName, multiFile := false }
  obtain ⟨d, hcol, h1, h2, h3, h4, h5, h6, _, h8, h9⟩ := collectAll_spec f.path
    ((sourceItems ctx f.file).map (C03.parseItem E ctx)) d0
    (by intro o ho; simp only [List.mem_map] at ho; obtain ⟨it, _, rfl⟩ := ho; exact C03.parseItem_np E ctx it)
  refine ⟨d, by simpa [d0, parsedItems] using h1, by simpa [d0, parsedItems] using h2,
    by simpa [d0, parsedItems] using h3, by simpa [d0, parsedItems] using h4,
    by simpa [d0, parseErrs] using h5, h6, h8, h9, ?_⟩
  have hmf : ctx.multiFile = false := rfl
  unfold parseFile
  by_cases hm : f.file.marker = true
  · simp only [hm, Bool.not_true, Bool.false_eq_true, if_false]
    unfold visitFile
    by_cases hacc : (TargetOs.accept f.file.attrs ctx.targetOs).getD true = true
    · have hsrc : sourceItems ctx f.file = C03.annotatedList ctx f.file.items := by
        simp [sourceItems, hm, hacc]
      rw [hsrc] at hcol
      have hacc' : (TargetOs.accept f.file.attrs (ctxOf lang targetOs).targetOs).getD true = true := hacc
      simp only [hacc', if_true]
      rw [C03.addPaths_single E _ hmf, C03.visitItems_collects E _ hmf]
      have : (ctxOf lang targetOs).multiFile = false := rfl
      simp only [this]
      rw [show ({ crateName := f.crateName, fileName := f.fileName, multiFile := false } : ParsedData) = d0 from rfl, hcol]
      simp only [Outcome.bind_ok, h8, d0, Bool.false_eq_true, if_false, pure_eq_ok]
      split <;> rfl
    · have hsrc : sourceItems ctx f.file = [] := by simp [sourceItems, hacc]
      rw [hsrc] at hcol
      simp only [List.map_nil, C03.collectAll] at hcol
      cases hcol
      have hacc' : ¬ (TargetOs.accept f.file.attrs (ctxOf lang targetOs).targetOs).getD true = true := hacc
      simp only [hacc']
      have : (ctxOf lang targetOs).multiFile = false := rfl
      simp [this, d0, Visitor.isEmpty]
  · have hm' : f.file.marker = false := by simpa using hm
    have hsrc : sourceItems ctx f.file = [] := by simp [sourceItems, hm']
    rw [hsrc] at hcol
    simp only [List.map_nil, C03.collectAll] at hcol
    cases hcol
    simp [hm', d0, Visitor.isEmpty]

/-- **a single-file run**: nothing at all when no annotated item parses or fails; the parse errors
when there are any; otherwise one job for the back end, holding the reconciled parsed items -/
theorem run_single (E : Ext) (lang : LangCfg) (targetOs : List Str)
    (pick : List ImportedType → Option ImportedType) (f : SourceFile) :
    ∃ d' : ParsedData,
      (C12L.itemsOf d').Perm ((parsedItems E (ctxOf lang targetOs) f.file).map
        (recItem f.crateName (renamesFor f.crateName (parsedItems E (ctxOf lang targetOs) f.file)))) ∧
      d'.multiFile = false ∧ d'.crateName = f.crateName ∧
      run E lang false targetOs pick [f] =
        if parsedItems E (ctxOf lang targetOs) f.file = [] ∧ parseErrs E (ctxOf lang targetOs) f.file = [] then
          .ok (.outputs [])
        else if parseErrs E (ctxOf lang targetOs) f.file ≠ [] then
          .ok (.parseErrors ((parseErrs E (ctxOf lang targetOs) f.file).map fun e => (e, f.path)))
        else (genAll E lang false [(f.crateName, d', none)]).bind fun o => .ok (.outputs o) := by
  obtain ⟨d, hs, he, ha, hc, herr, hcr, hmf, himp, hparse⟩ := parseFile_single E lang targetOs pick f
  generalize hP : parsedItems E (ctxOf lang targetOs) f.file = P at *
  generalize hErr : parseErrs E (ctxOf lang targetOs) f.file = errs at *
  let a := addAssign {} d
  have has : a.structs = structsOf P := by simp [a, addAssign, hs]
  have hae : a.enums = enumsOf P := by simp [a, addAssign, he]
  have haa : a.aliases = aliasesOf P := by simp [a, addAssign, ha]
  have hac : a.consts = constsOf P := by simp [a, addAssign, hc]
  have hai : a.importTypes = [] := by simp [a, addAssign, himp]
  have hren : collectSerdeRenames [(f.crateName, a)] = renamesFor f.crateName P := by
    simp [collectSerdeRenames, renamesFor, has, hae, haa]
  refine ⟨reconcileOne (renamesFor f.crateName P) f.crateName a,
    reconciled_perm f.crateName a P has hae haa hac hai _, by simp [reconcileOne, a, addAssign, hmf],
    by simp [reconcileOne, a, addAssign, hcr], ?_⟩
  have hempty : Visitor.isEmpty d = true ↔ P = [] ∧ errs = [] := by
    have hPe : P = [] ↔ structsOf P = [] ∧ enumsOf P = [] ∧ aliasesOf P = [] ∧ constsOf P = [] := by
      constructor
      · rintro rfl; simp [structsOf, enumsOf, aliasesOf, constsOf]
      · rintro ⟨h1, h2, h3, h4⟩
        cases P with
        | nil => rfl
        | cons it t => cases it <;> simp [structsOf, enumsOf, aliasesOf, constsOf] at h1 h2 h3 h4
    simp only [Visitor.isEmpty, hs, he, ha, hc, herr, Bool.and_eq_true, List.isEmpty_iff, List.map_eq_nil_iff, hPe,
      and_assoc]
  have hpa : parseAll E { ignoredTypes := ignoredTypes lang, multiFile := false, targetOs } pick [f] =
      .ok (if Visitor.isEmpty d then [] else [d]) := by
    have : ({ ignoredTypes := ignoredTypes lang, multiFile := false, targetOs } : ParseContext) = ctxOf lang targetOs := rfl
    simp only [parseAll, this, hparse, Outcome.bind_ok]
    cases Visitor.isEmpty d <;> rfl
  unfold run
  simp only [hpa, Outcome.bind_ok]
  by_cases hem : Visitor.isEmpty d = true
  · have := hempty.1 hem
    simp only [hem, if_true, this, and_self]
    have hg := genAll_nil E lang
    cases lang <;> simp [collect, reconcile, allErrors, genAll] at hg ⊢ <;> simp [hg]
  · have hne : ¬ (P = [] ∧ errs = []) := fun h => hem (hempty.2 h)
    simp only [hem, Bool.false_eq_true, if_false, hne]
    have hcollect : collect [d] = [(d.crateName, a)] := by simp [collect, upsert, a]
    have hrec : reconcile [(d.crateName, a)] =
        [(f.crateName, reconcileOne (renamesFor f.crateName P) f.crateName a)] := by
      simp only [reconcile, List.map_cons, List.map_nil, hcr, hren]
    have herrs : allErrors [(f.crateName, reconcileOne (renamesFor f.crateName P) f.crateName a)] =
        errs.map fun e => (e, f.path) := by
      simp [allErrors, reconcileOne, a, addAssign, herr]
    simp only [hcollect, hrec, herrs]
    by_cases hee : errs = []
    · simp only [hee, List.map_nil, List.isEmpty_nil, Bool.not_true, Bool.false_eq_true, if_false, ne_eq,
        not_true_eq_false, List.map_cons]
      cases lang <;> rfl
    · have : (errs.map fun e => (e, f.path)).isEmpty = false := by
        cases errs with
        | nil => exact absurd rfl hee
        | cons x t => rfl
      simp [this, hee]

end TsV.C03E

/-! ## reconciliation changes no definition: the `*Defs` of an item only read its kind, its names
and the names / emptiness of its members -/

namespace TsV.C03E
open TsV TsV.Pipeline TsV.Lang

theorem checkVariant_id (c : Str) (r : Renames) (v : RustEnumVariant) : (checkVariant c r [] v).id = v.id := by
  cases v <;> rfl

theorem structVariantsOf_rec (c : Str) (r : Renames) (e : RustEnum) :
    structVariantsOf { e with variants := e.variants.map (checkVariant c r []) } =
      (structVariantsOf e).map fun p => (p.1, p.2.map (checkField c r [])) := by
  unfold structVariantsOf
  show List.filterMap _ (List.map (checkVariant c r []) e.variants) = _
  generalize e.variants = vs
  induction vs with
  | nil => rfl
  | cons v t ih => cases v <;> simp_all [checkVariant]

theorem tsDefs_rec (U : UnicodeOps) (c : Str) (r : Renames) (it : RustItem) :
    tsDefs U (recItem c r it) = tsDefs U it := by
  cases it <;> rfl

theorem ktDefs_rec (cfg : Kotlin.Cfg) (c : Str) (r : Renames) (it : RustItem) :
    ktDefs cfg (recItem c r it) = ktDefs cfg it := by
  cases it with
  | struct s => simp [ktDefs, recItem, ktStructKw]
  | alias a => rfl
  | const k => rfl
  | «enum» e =>
    simp only [ktDefs, recItem, structVariantsOf_rec]
    simp [ktStructKw, Function.comp_def]

theorem swDefs_rec (cfg : Swift.Cfg) (c : Str) (r : Renames) (it : RustItem) :
    swDefs cfg (recItem c r it) = swDefs cfg it := by
  cases it with
  | struct s => rfl
  | alias a => rfl
  | const k => rfl
  | «enum» e =>
    simp only [swDefs, recItem, structVariantsOf_rec]
    simp [Function.comp_def]

theorem scDefs_rec (c : Str) (r : Renames) (it : RustItem) : scDefs (recItem c r it) = scDefs it := by
  cases it with
  | struct s => simp [scDefs, recItem, scStructKw]
  | alias a => rfl
  | const k => rfl
  | «enum» e =>
    simp only [scDefs, recItem, structVariantsOf_rec]
    simp [scStructKw, Function.comp_def]

theorem mapM'_map_left {α β γ} (f : β → Outcome γ) (g : α → β) : ∀ l : List α,
    Outcome.mapM' f (l.map g) = Outcome.mapM' (fun a => f (g a)) l
  | [] => rfl
  | a :: t => by simp [Outcome.mapM', mapM'_map_left f g t]

theorem goDefs_rec (U : UnicodeOps) (cfg : Go.Cfg) (c : Str) (r : Renames) (it : RustItem) :
    goDefs U cfg (recItem c r it) = goDefs U cfg it := by
  cases it with
  | struct s => rfl
  | alias a => rfl
  | const k => rfl
  | «enum» e =>
    simp only [goDefs, recItem, structVariantsOf_rec, mapM'_map_left]

theorem pyDefs_rec (E : Ext) (c : Str) (r : Renames) (it : RustItem) : pyDefs E (recItem c r it) = pyDefs E it := by
  cases it with
  | struct s => rfl
  | alias a => rfl
  | const k => rfl
  | «enum» e =>
    simp only [pyDefs, recItem, structVariantsOf_rec]
    simp [Function.comp_def, checkVariant_id]

theorem isConst_rec (c : Str) (r : Renames) (it : RustItem) : isConst (recItem c r it) = isConst it := by
  cases it <;> rfl

end TsV.C03E

namespace TsV.C03E
open TsV TsV.Pipeline TsV.Generate

/-- a file whose only annotated accepted item parses to `p`: the back end gets exactly `[rec p]` -/
theorem run_single_one (E : Ext) (lang : LangCfg) (targetOs : List Str)
    (pick : List ImportedType → Option ImportedType) (f : SourceFile) (p : RustItem)
    (hP : parsedItems E (ctxOf lang targetOs) f.file = [p]) (hE : parseErrs E (ctxOf lang targetOs) f.file = []) :
    ∃ d' : ParsedData, C12L.itemsOf d' = [recItem f.crateName (renamesFor f.crateName [p]) p] ∧
      d'.multiFile = false ∧ d'.crateName = f.crateName ∧
      run E lang false targetOs pick [f] =
        (genAll E lang false [(f.crateName, d', none)]).bind fun o => .ok (.outputs o) := by
  obtain ⟨d', hperm, hmf, hcr, hrun⟩ := run_single E lang targetOs pick f
  rw [hP] at hperm hrun
  rw [hE] at hrun
  refine ⟨d', by simpa using hperm, hmf, hcr, ?_⟩
  rw [hrun]
  simp

/-- a job whose item list is one enum holds exactly that enum -/
theorem itemsOf_enum (d : ParsedData) (e : RustEnum) (h : C12L.itemsOf d = [.enum e]) :
    d.aliases = [] ∧ d.structs = [] ∧ d.enums = [e] ∧ d.consts = [] := by
  unfold C12L.itemsOf at h
  cases ha : d.aliases with
  | cons a t => simp [ha] at h
  | nil =>
    cases hs : d.structs with
    | cons a t => simp [ha, hs] at h
    | nil =>
      cases he : d.enums with
      | nil =>
        cases hc : d.consts with
        | nil => simp [ha, hs, he, hc] at h
        | cons c t => simp [ha, hs, he, hc] at h
      | cons e' t =>
        simp [ha, hs, he] at h
        obtain ⟨rfl, rfl, hc⟩ := h
        exact ⟨rfl, rfl, rfl, hc⟩

end TsV.C03E
