import TsV.Lemmas.Rename
/-!
# C16 — `rename_all` case conversion agrees with serde_derive's algorithm

`Serde.applyField` / `Serde.applyVariant` are a port of `serde_derive/src/internals/case.rs`
(tied to the vendored source by the correspondence check); `Rename.renameAllToCase` is the model of
typeshare.  serde_derive byte-slices `[..1]` under `camelCase` and therefore panics (at compile
time of the user's crate) on an empty Pascal form or a non-ASCII first letter; there is nothing to
agree with then, so agreement is stated as "whenever serde produces a name, typeshare produces the
same name" (`Agree`).
-/
namespace TsV.C16
open TsV TsV.Str TsV.Rename TsV.Serde TsV.RenameLemmas

/-- the property at full strength: for each of the eight rules typeshare's name equals serde's,
in field position and in variant position, for every identifier -/
def Agree (ts serde : Outcome Str) : Prop := ∀ v, serde = .ok v → ts = .ok v

def C16_full (U : UnicodeOps) : Prop :=
  ∀ (r : Str) (rule : Rule) (s : Str), Rule.ofStr r = some rule →
    Agree (renameAllToCase U s (some r)) (applyField rule s) ∧
    Agree (renameAllToCase U s (some r)) (applyVariant U rule s)

/-- the pinned tree does not satisfy it: variant `URL` under `camelCase` gives `url`, serde `uRL` -/
theorem C16_not_full : ¬ C16_full UnicodeOps.ascii := by
  intro h
  have := (h s%"camelCase" .camel s%"URL" (by decide)).2 s%"uRL" (by decide)
  revert this
  decide

/-- conventionally named fields: `[a-z0-9_]*` -/
def FieldConv (s : Str) : Prop := ∀ c ∈ s, fcChar c = true

/-- UpperCamelCase variants: a capital, then letters and digits, with at least one lower-case
letter — or a single capital followed only by digits -/
def UpperCamel (s : Str) : Prop :=
  ∃ c rest, s = c :: rest ∧ isAsciiUpper c = true ∧ (∀ x ∈ rest, alnum x = true) ∧
    ((∃ x ∈ rest, isAsciiLower x = true) ∨ (∀ x ∈ rest, isAsciiDigit x = true))

/-- typeshare's dispatch, re-expressed over serde's rule type -/
def byRule (U : UnicodeOps) (s : Str) : Option Rule → Outcome Str
  | some .lower => .ok (toAsciiLower s)
  | some .upper => .ok (toAsciiUpper s)
  | some .pascal => .ok (toPascal U s)
  | some .camel => .ok (toCamel U s)
  | some .snake => .ok (toSnake U s)
  | some .screamingSnake => .ok (toScreamingSnake U s)
  | some .kebab => .ok (toKebab U s)
  | some .screamingKebab => .ok (toScreamingKebab U s)
  | some .none => .ok s
  | none => .ok s

/-- the dispatch recognises exactly serde's eight rule names, in the same way -/
theorem rename_by_rule (U : UnicodeOps) (s r : Str) :
    renameAllToCase U s (some r) = byRule U s (Rule.ofStr r) := by
  simp only [renameAllToCase, Rule.ofStr]
  repeat' split
  all_goals first | rfl | simp_all [byRule]

/-- **An unknown rule leaves names unchanged.** -/
theorem unknown_rule (U : UnicodeOps) (s r : Str) (h : Rule.ofStr r = none) :
    renameAllToCase U s (some r) = .ok s := by
  rw [rename_by_rule, h]; rfl

/-- no `rename_all` at all -/
theorem no_rule (U : UnicodeOps) (s : Str) : renameAllToCase U s none = .ok s := rfl

theorem agrees_ok (a b : Str) (h : a = b) : Agree (Outcome.ok a) (.ok b) := by
  subst h; intro v hv; exact hv

theorem lowerFirst_agrees (a b : Str) (h : a = b) :
    Agree (.ok (Rename.lowerFirst a)) (Serde.lowerFirst b) := by
  subst h
  intro v hv
  cases a with
  | nil => simp [Serde.lowerFirst] at hv
  | cons c t =>
    simp only [Serde.lowerFirst] at hv
    split at hv
    · simpa [Rename.lowerFirst] using hv
    · simp at hv

/-- **Field position.** On conventionally named fields every one of the eight rules gives serde's key. -/
theorem C16_field (U : UnicodeOps) (hU : U.AsciiCorrect) (r : Str) (rule : Rule)
    (hr : Rule.ofStr r = some rule) (s : Str) (hs : FieldConv s) :
    Agree (renameAllToCase U s (some r)) (applyField rule s) := by
  rw [rename_by_rule, hr]
  have hascii : ∀ c ∈ s, c.toNat < 128 := fun c hc => fc_ascii c (hs c hc)
  have hlow : ∀ c ∈ s, asciiLower c = c := fun c hc => fc_lowerId c (hs c hc)
  have hsnake : toSnake U s = s := by
    unfold toSnake
    apply snakeGo_id
    intro c hc
    refine ⟨?_, hlow c hc⟩
    rw [hU.upper c (hascii c hc)]; exact fc_notUpper c (hs c hc)
  have hpascal : toPascal U s = fieldPascal s := pascalGo_field _ s hlow true
  cases rule with
  | none => simp only [byRule, applyField]; exact agrees_ok _ _ rfl
  | lower =>
    simp only [byRule, applyField]
    exact agrees_ok _ _ (toAsciiLower_id s hlow)
  | upper => simp only [byRule, applyField]; exact agrees_ok _ _ rfl
  | pascal => simp only [byRule, applyField]; exact agrees_ok _ _ hpascal
  | camel => simp only [byRule, applyField, toCamel]; exact lowerFirst_agrees _ _ hpascal
  | snake => simp only [byRule, applyField]; exact agrees_ok _ _ hsnake
  | screamingSnake =>
    simp only [byRule, applyField, toScreamingSnake, hsnake]; exact agrees_ok _ _ rfl
  | kebab => simp only [byRule, applyField, toKebab, hsnake]; exact agrees_ok _ _ rfl
  | screamingKebab =>
    simp only [byRule, applyField, toScreamingKebab, toKebab, hsnake]
    exact agrees_ok _ _ (upper_replace_comm s)

/-- **Variant position.** On UpperCamelCase variants every one of the eight rules gives serde's name. -/
theorem C16_variant (U : UnicodeOps) (hU : U.AsciiCorrect) (r : Str) (rule : Rule)
    (hr : Rule.ofStr r = some rule) (s : Str) (hs : UpperCamel s) :
    Agree (renameAllToCase U s (some r)) (applyVariant U rule s) := by
  rw [rename_by_rule, hr]
  obtain ⟨c, rest, rfl, hc, hrest, hshape⟩ := hs
  -- when the all-caps flag is set (no lowercase letter), the tail consists of digits only
  have hflag : isAllUpper U (c :: rest) = true → ∀ x ∈ rest, isAsciiDigit x = true := by
    intro hf
    rcases hshape with ⟨x, hx, hl⟩ | hd
    · rw [isAllUpper_asciiLower U hU (c :: rest) x (by simp [hx]) hl] at hf
      exact absurd hf (by decide)
    · exact hd
  have hpascal : toPascal U (c :: rest) = c :: rest := by
    unfold toPascal
    simp only [pascalGo, upper_ne_us c hc, if_false, if_true, upper_upperId c hc]
    congr 1
    apply pascalGo_id
    intro x hx
    exact ⟨alnum_ne_us x (hrest x hx), fun hf => digit_lowerId x (hflag hf x hx)⟩
  have hsnake : toSnake U (c :: rest) = variantSnake U (c :: rest) := by
    unfold toSnake variantSnake
    simp only [snakeGo, variantSnakeGo, Bool.not_true, Bool.false_and, Bool.false_eq_true, if_false,
      List.nil_append]
    congr 1
    apply snakeGo_variant
    intro hf x hx
    have hd := hflag hf x hx
    rw [hU.upper x (digit_ascii x hd)]; exact digit_notUpper x hd
  cases rule with
  | none => simp only [byRule, applyVariant]; exact agrees_ok _ _ rfl
  | lower => simp only [byRule, applyVariant]; exact agrees_ok _ _ rfl
  | upper => simp only [byRule, applyVariant]; exact agrees_ok _ _ rfl
  | pascal => simp only [byRule, applyVariant]; exact agrees_ok _ _ hpascal
  | camel => simp only [byRule, applyVariant, toCamel]; exact lowerFirst_agrees _ _ hpascal
  | snake => simp only [byRule, applyVariant]; exact agrees_ok _ _ hsnake
  | screamingSnake =>
    simp only [byRule, applyVariant, toScreamingSnake, hsnake]; exact agrees_ok _ _ rfl
  | kebab => simp only [byRule, applyVariant, toKebab, hsnake]; exact agrees_ok _ _ rfl
  | screamingKebab =>
    simp only [byRule, applyVariant, toScreamingKebab, toKebab, hsnake]
    exact agrees_ok _ _ (upper_replace_comm _)

/-! ### `lowercase` / `UPPERCASE` (repaired by the `fix:` commit 7d1c05f)

Before the repair the two rules were the Unicode mappings `U.lowerStr` / `U.upperStr`, which agree
with serde's ASCII mappings on ASCII names only (class `unicode-case-mapping`: variant `É` under
`lowercase` gave `é`).  Now they are serde's own functions, so the agreement no longer depends on the
Unicode tables `U` nor on the shape of the identifier. -/

/-- **Variant position, `lowercase` and `UPPERCASE`: serde's name for every identifier whatsoever**
(any Unicode tables, no `AsciiCorrect`, no `UpperCamel`). -/
theorem C16_lower_upper_variant (U : UnicodeOps) (s : Str) :
    renameAllToCase U s (some s%"lowercase") = applyVariant U .lower s ∧
    renameAllToCase U s (some s%"UPPERCASE") = applyVariant U .upper s := by
  constructor <;> (rw [rename_by_rule]; rfl)

/-- **Field position, `UPPERCASE`: serde's key for every identifier whatsoever.** -/
theorem C16_upper_field (U : UnicodeOps) (s : Str) :
    renameAllToCase U s (some s%"UPPERCASE") = applyField .upper s := by
  rw [rename_by_rule]; rfl

/-- **Field position, `lowercase`, exactly**: serde leaves a field untouched under `lowercase`
(`apply_to_field`: `None | LowerCase | SnakeCase => field.to_owned()`), typeshare lower-cases its
ASCII capitals; so the two agree iff the field has no ASCII capital.  This is all that still
separates the model from serde under these two rules (it is outside `FieldConv`, and of the same
kind as `snake-splits-fields`: serde assumes fields are already snake_case). -/
theorem C16_lower_field_exact (U : UnicodeOps) (s : Str) :
    Agree (renameAllToCase U s (some s%"lowercase")) (applyField .lower s) ↔ toAsciiLower s = s := by
  rw [rename_by_rule]
  show Agree (Outcome.ok (toAsciiLower s)) (.ok s) ↔ _
  constructor
  · intro h
    have := h s rfl
    exact Outcome.ok.inj this
  · intro h; exact agrees_ok _ _ h

/-- the two rules no longer consult the Unicode tables at all -/
theorem C16_lower_upper_unicode_free (U U' : UnicodeOps) (s r : Str)
    (hr : r = s%"lowercase" ∨ r = s%"UPPERCASE") :
    renameAllToCase U s (some r) = renameAllToCase U' s (some r) := by
  rcases hr with rfl | rfl <;> (rw [rename_by_rule, rename_by_rule]; rfl)

/-- a Unicode table that maps `É ↦ é`, `é ↦ É`, `ß ↦ SS` (what Rust `std` does) — not `ascii` -/
def frenchU : UnicodeOps :=
  { UnicodeOps.ascii with
    isUpper := fun c => isAsciiUpper c || c == 'É'
    isLower := fun c => isAsciiLower c || c == 'é' || c == 'ß'
    toLower := fun c => if c == 'É' then ['é'] else [asciiLower c]
    toUpper := fun c => if c == 'é' then ['É'] else if c == 'ß' then ['S', 'S'] else [asciiUpper c] }

/-- the repaired witnesses of `unicode-case-mapping`, as positive regression examples: under a
Unicode table that does map the letters, typeshare now gives serde's names (before the repair:
`é`, `ÉCLAIR`, `STRASSE`) -/
example : renameAllToCase frenchU s%"É" (some s%"lowercase") = .ok s%"É" ∧
    applyVariant frenchU .lower s%"É" = .ok s%"É" := by decide
example : renameAllToCase frenchU s%"Éclair" (some s%"lowercase") = .ok s%"Éclair" ∧
    renameAllToCase frenchU s%"éclair" (some s%"UPPERCASE") = .ok s%"éCLAIR" ∧
    applyField .upper s%"éclair" = .ok s%"éCLAIR" := by decide
example : renameAllToCase frenchU s%"straße" (some s%"UPPERCASE") = .ok s%"STRAßE" ∧
    applyField .upper s%"straße" = .ok s%"STRAßE" ∧ frenchU.upperStr s%"straße" = s%"STRASSE" := by decide
/-- the remaining difference under `lowercase`: a field with a capital (outside the convention) -/
example : renameAllToCase .ascii s%"fooBar" (some s%"lowercase") = .ok s%"foobar" ∧
    applyField .lower s%"fooBar" = .ok s%"fooBar" := by decide

/-! ### the all-capitals special case (class `allcaps-special-case`; narrowed by the `fix:` commit 8f4a2d5)

`to_pascal_case` / `to_snake_case` treat a name that is "all uppercase, such as URL or TOTP" specially
(the tail is lower-cased, no `_` is inserted).  Before the repair "all uppercase" was
`to_ascii_uppercase() == self`, true of every name without an *ASCII* lowercase letter (`ΑλφαΒήτα`); now it is
`Known_allcaps`: no lowercase letter of any script.  The class is smaller, the divergence inside it
stays (`URL`, `ΟΔΟΣ`); outside it the snake / kebab family is serde's for every identifier whatsoever. -/

/-- the known class: the name has no lowercase letter (`char::is_lowercase`) of any script -/
def Known_allcaps (U : UnicodeOps) (s : Str) : Prop := ∀ c ∈ s, U.isLower c = false

instance (U : UnicodeOps) (s : Str) : Decidable (Known_allcaps U s) := by unfold Known_allcaps; infer_instance

theorem known_allcaps_iff (U : UnicodeOps) (s : Str) : Known_allcaps U s ↔ isAllUpper U s = true :=
  (isAllUpper_iff U s).symm

/-- over ASCII names the class is the one the code tested before the repair -/
theorem known_allcaps_ascii (U : UnicodeOps) (hU : U.AsciiCorrect) (s : Str) (h : ∀ c ∈ s, c.toNat < 128) :
    Known_allcaps U s ↔ toAsciiUpper s = s := by
  rw [known_allcaps_iff, isAllUpper_ascii U hU s h]; exact beq_iff_eq

/-- `snakeGo` with the flag set inserts nothing -/
theorem snakeGo_flag (U : UnicodeOps) (s : Str) : ∀ first, snakeGo U true first s = toAsciiLower s := by
  induction s with
  | nil => intro _; rfl
  | cons c t ih => intro first; simp [snakeGo, toAsciiLower, ih]

/-- serde's variant form inserts nothing exactly when no character after the first is a capital -/
theorem variantSnakeGo_plain (U : UnicodeOps) (s : Str) :
    variantSnakeGo U false s = toAsciiLower s ↔ ∀ c ∈ s, U.isUpper c = false := by
  induction s with
  | nil => simp [variantSnakeGo, toAsciiLower]
  | cons c t ih =>
    simp only [variantSnakeGo, toAsciiLower, List.map_cons, Bool.not_false, Bool.true_and, List.mem_cons,
      forall_eq_or_imp]
    cases hc : U.isUpper c with
    | false =>
      simp only [Bool.false_eq_true, if_false, List.nil_append, List.cons.injEq, true_and]
      exact ih
    | true =>
      simp only [if_true, List.cons_append, List.nil_append, List.cons.injEq, Bool.true_eq_false, false_and, iff_false]
      intro h
      have hl := congrArg List.length h.2
      have hlen : ∀ (b : Bool) (u : Str), (variantSnakeGo U b u).length ≥ u.length := by
        intro b u
        induction u generalizing b with
        | nil => simp [variantSnakeGo]
        | cons x u ihu =>
          simp only [variantSnakeGo, List.length_append, List.length_cons]
          have := ihu false
          omega
      have := hlen false t
      simp only [List.length_cons, List.length_map] at hl
      omega

/-- **Variant position, the snake / kebab family, every identifier of every script, exactly**: typeshare's
snake form is serde's iff the name is outside the known class, or is inside it but has no capital after the
first character (then neither inserts a `_`).  No `AsciiCorrect`, no `UpperCamel`. -/
theorem C16_variant_snake_exact (U : UnicodeOps) (s : Str) :
    toSnake U s = variantSnake U s ↔ (¬ Known_allcaps U s ∨ ∀ c ∈ s.tail, U.isUpper c = false) := by
  rw [known_allcaps_iff]
  cases s with
  | nil => simp [toSnake, variantSnake, snakeGo, variantSnakeGo]
  | cons c rest =>
    unfold toSnake variantSnake
    simp only [snakeGo, variantSnakeGo, Bool.not_true, Bool.false_and, Bool.false_eq_true, if_false,
      List.nil_append, List.cons.injEq, true_and, List.tail_cons]
    cases hf : isAllUpper U (c :: rest) with
    | false =>
      simp only [Bool.false_eq_true, not_false_eq_true, true_or, iff_true]
      exact snakeGo_variant U false rest (fun h => absurd h (by decide))
    | true =>
      simp only [not_true_eq_false, false_or]
      rw [snakeGo_flag]
      constructor
      · intro h; exact (variantSnakeGo_plain U rest).1 h.symm
      · intro h; exact ((variantSnakeGo_plain U rest).2 h).symm

/-- **outside the known class the four snake / kebab rules give serde's variant name, for every identifier** -/
theorem C16_variant_snake_family (U : UnicodeOps) (s : Str) (hk : ¬ Known_allcaps U s) (r : Str) (rule : Rule)
    (hr : Rule.ofStr r = some rule)
    (hfam : rule = .snake ∨ rule = .screamingSnake ∨ rule = .kebab ∨ rule = .screamingKebab) :
    renameAllToCase U s (some r) = applyVariant U rule s := by
  rw [rename_by_rule, hr]
  have hsnake := (C16_variant_snake_exact U s).2 (Or.inl hk)
  rcases hfam with rfl | rfl | rfl | rfl
  · simp only [byRule, applyVariant, hsnake]
  · simp only [byRule, applyVariant, toScreamingSnake, hsnake]
  · simp only [byRule, applyVariant, toKebab, hsnake]
  · simp only [byRule, applyVariant, toScreamingKebab, toKebab, hsnake, upper_replace_comm]

/-- inside the class with a capital after the first character the family differs from serde (`URL`, `ΟΔΟΣ`) -/
theorem C16_variant_snake_known_fails (U : UnicodeOps) (s : Str) (hk : Known_allcaps U s)
    (hcap : ∃ c ∈ s.tail, U.isUpper c = true) :
    ¬ Agree (renameAllToCase U s (some s%"snake_case")) (applyVariant U .snake s) := by
  intro h
  have h1 := h _ rfl
  rw [rename_by_rule] at h1
  have h2 : toSnake U s = variantSnake U s := Outcome.ok.inj h1
  rcases (C16_variant_snake_exact U s).1 h2 with h3 | h3
  · exact h3 hk
  · obtain ⟨c, hc, hu⟩ := hcap
    rw [h3 c hc] at hu
    exact absurd hu (by decide)

/-- **PascalCase / camelCase in variant position, any script**: a name outside the known class without `_`
whose first character is not an ASCII lowercase letter is left as it is, like serde does -/
theorem C16_variant_pascal_any (U : UnicodeOps) (c : Char) (rest : Str) (hk : ¬ Known_allcaps U (c :: rest))
    (hc : asciiUpper c = c) (hus : ∀ x ∈ c :: rest, x ≠ '_') :
    renameAllToCase U (c :: rest) (some s%"PascalCase") = applyVariant U .pascal (c :: rest) ∧
    Agree (renameAllToCase U (c :: rest) (some s%"camelCase")) (applyVariant U .camel (c :: rest)) := by
  have hf : isAllUpper U (c :: rest) = false := by
    cases h : isAllUpper U (c :: rest) with
    | false => rfl
    | true => exact absurd ((known_allcaps_iff U _).2 h) hk
  have hpascal : toPascal U (c :: rest) = c :: rest := by
    unfold toPascal
    rw [hf]
    simp only [pascalGo, hus c (by simp), if_false, if_true, hc]
    congr 1
    exact pascalGo_id false rest (fun x hx => ⟨hus x (by simp [hx]), fun h => absurd h (by decide)⟩)
  constructor
  · rw [rename_by_rule]; show Outcome.ok (toPascal U (c :: rest)) = .ok (c :: rest); rw [hpascal]
  · rw [rename_by_rule]; exact lowerFirst_agrees _ _ hpascal

/-- a Unicode table that knows the Greek letters (what Rust `std` says of them) — not `ascii` -/
def greekU : UnicodeOps :=
  { UnicodeOps.ascii with
    isUpper := fun c => isAsciiUpper c || (0x391 ≤ c.toNat && c.toNat ≤ 0x3A9)
    isLower := fun c => isAsciiLower c || (0x3AC ≤ c.toNat && c.toNat ≤ 0x3CE) }

/-- the repaired witnesses of `ascii-allcaps-test-on-unicode-names`, as positive regression examples: a Greek
UpperCamelCase name is not all capitals any more, and typeshare gives serde's names (before the repair:
`ΑλφαΒήτα` without the `_`, and `Οδόςa`) -/
example : ¬ Known_allcaps greekU s%"ΑλφαΒήτα" ∧ ¬ Known_allcaps greekU s%"ΟδόςA" := by decide
example : renameAllToCase greekU s%"ΑλφαΒήτα" (some s%"snake_case") = .ok s%"Αλφα_Βήτα" ∧
    applyVariant greekU .snake s%"ΑλφαΒήτα" = .ok s%"Αλφα_Βήτα" := by decide
example : renameAllToCase greekU s%"ΟδόςA" (some s%"PascalCase") = .ok s%"ΟδόςA" ∧
    applyVariant greekU .pascal s%"ΟδόςA" = .ok s%"ΟδόςA" := by decide
example : renameAllToCase greekU s%"ΑλφαΒήτα" (some s%"SCREAMING-KEBAB-CASE") =
    applyVariant greekU .screamingKebab s%"ΑλφαΒήτα" :=
  C16_variant_snake_family greekU _ (by decide) _ .screamingKebab (by decide) (by simp)
example : renameAllToCase greekU s%"ΟδόςA" (some s%"PascalCase") = applyVariant greekU .pascal s%"ΟδόςA" :=
  (C16_variant_pascal_any greekU 'Ο' s%"δόςA" (by decide) (by decide) (by decide)).1
/-- what stays open: names that really are all capitals, of any script -/
example : Known_allcaps greekU s%"ΟΔΟΣ" ∧ Known_allcaps greekU s%"URL" ∧ Known_allcaps .ascii s%"URL" := by decide
example : renameAllToCase greekU s%"ΟΔΟΣ" (some s%"snake_case") = .ok s%"ΟΔΟΣ" ∧
    applyVariant greekU .snake s%"ΟΔΟΣ" = .ok s%"Ο_Δ_Ο_Σ" := by decide
example : ¬ Agree (renameAllToCase greekU s%"ΟΔΟΣ" (some s%"snake_case")) (applyVariant greekU .snake s%"ΟΔΟΣ") :=
  C16_variant_snake_known_fails greekU _ (by decide) ⟨'Δ', by decide, by decide⟩
/-- the ASCII table does not know the Greek letters: with it (as with the code before the repair) the name
counts as all capitals — the theorems are about the table, the check supplies `std`'s -/
example : Known_allcaps .ascii s%"ΑλφαΒήτα" := by decide

/-! ### non-vacuity and the known divergences as kernel-checked witnesses -/
example : FieldConv s%"address_line1" := by unfold FieldConv; decide
example : UpperCamel s%"AddressLine1" :=
  ⟨'A', s%"ddressLine1", rfl, by decide, by decide, Or.inl ⟨'d', by decide, by decide⟩⟩
example : UpperCamel s%"A1" := ⟨'A', s%"1", rfl, by decide, by decide, Or.inr (by decide)⟩
example : renameAllToCase .ascii s%"address_line1" (some s%"camelCase") = .ok s%"addressLine1" := by decide
example : renameAllToCase .ascii s%"AddressLine1" (some s%"SCREAMING-KEBAB-CASE") = .ok s%"ADDRESS-LINE1" := by decide
/-- all-caps special case (outside UpperCamelCase): typeshare `url`, serde `uRL` -/
example : renameAllToCase .ascii s%"URL" (some s%"camelCase") = .ok s%"url" ∧
    applyVariant .ascii .camel s%"URL" = .ok s%"uRL" := by decide
/-- a field with a capital (outside the convention): typeshare splits, serde does not -/
example : renameAllToCase .ascii s%"fooBar" (some s%"snake_case") = .ok s%"foo_bar" ∧
    applyField .snake s%"fooBar" = .ok s%"fooBar" := by decide
/-- `__` under camelCase: serde_derive panics (compile error in the user crate), typeshare yields the empty name -/
example : renameAllToCase .ascii s%"__" (some s%"camelCase") = .ok [] ∧
    applyField .camel s%"__" = .panic s%"case.rs" := by decide

/-- typeshare's own conversion never fails (C07) -/
theorem rename_total (U : UnicodeOps) (s : Str) (rule : Option Str) :
    ∃ v, renameAllToCase U s rule = .ok v := by
  cases rule with
  | none => exact ⟨s, rfl⟩
  | some r =>
    rw [rename_by_rule]
    cases Rule.ofStr r with
    | none => exact ⟨_, rfl⟩
    | some rule => cases rule <;> exact ⟨_, rfl⟩

end TsV.C16
