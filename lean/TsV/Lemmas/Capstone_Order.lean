import TsV.Lemmas.Capstone_Run
/-!
# Capstone — clauses 5 (C09, references) and 6 (C11, dependency order) for the items of one file

* `progOf l` — the `ParsedData` holding the parsed items `l` (what C09 calls the program); its
  `serde(rename)` table is the one the run uses (`renamesOf_progOf`), its type items are the non-const
  parsed items (`mem_typeItems_progOf`).
* `order_hyps_perm` — the hypotheses of `C11_order` are invariant under permutation, so they can be stated
  on the list `emitted` (source order) although `reconcile` sorts the items before `topsort` sees them.
-/
namespace TsV.Cap
open TsV TsV.Pipeline TsV.Generate TsV.C03E TsV.Lang TsV.Deps TsV.C11

/-! ## clause 5: the program C09 speaks about -/

/-- the parsed items of a file as a `ParsedData` (a single crate named `""`) -/
def progOf (l : List RustItem) : ParsedData :=
  { structs := structsOf l, enums := enumsOf l, aliases := aliasesOf l, consts := constsOf l }

theorem renamesOf_progOf (l : List RustItem) : C09.renamesOf (progOf l) = renamesFor [] l := rfl

theorem mem_typeItems_progOf {l : List RustItem} {it : RustItem} :
    it ∈ C09.typeItems (progOf l) ↔ it ∈ l ∧ isConst it = false := by
  unfold C09.typeItems progOf structsOf enumsOf aliasesOf
  simp only [List.mem_append, List.mem_map, List.mem_filterMap]
  constructor
  · rintro ((⟨s, ⟨x, hx, hs⟩, rfl⟩ | ⟨e, ⟨x, hx, he⟩, rfl⟩) | ⟨a, ⟨x, hx, ha⟩, rfl⟩)
    · cases x <;> simp at hs; subst hs; exact ⟨hx, rfl⟩
    · cases x <;> simp at he; subst he; exact ⟨hx, rfl⟩
    · cases x <;> simp at ha; subst ha; exact ⟨hx, rfl⟩
  · rintro ⟨hl, hc⟩
    cases it with
    | struct s => exact .inl (.inl ⟨s, ⟨_, hl, rfl⟩, rfl⟩)
    | «enum» e => exact .inl (.inr ⟨e, ⟨_, hl, rfl⟩, rfl⟩)
    | alias a => exact .inr ⟨a, ⟨_, hl, rfl⟩, rfl⟩
    | const k => simp [isConst] at hc

theorem refs_const (lc : LangCfg) (r : Renames) (k : RustConst) : C09.refs lc r (.const k) = [] := rfl

theorem defName_rec (lc : LangCfg) (c : Str) (r : Renames) (it : RustItem) :
    C09.defName lc (recItem c r it) = C09.defName lc it := by
  cases lc <;> cases it <;> rfl

/-- **C09 on the items of one file**: every reference (C09's `refs`, spelled as the back end spells the
leaf `reconcile` left there) outside `KnownRef` is spelled with the name its target is defined under -/
theorem refs_consistent (lc : LangCfg) (l : List RustItem) (hs : C09.InScope (progOf l)) (hc : C09.CfgOk lc)
    (hsh : C09.Known_shadow (progOf l) = false) :
    ∀ it ∈ l, ∀ ref ∈ C09.refs lc (renamesFor [] l) it, C09.KnownRef lc (progOf l) ref = false →
      ∀ n, C09.Defines lc (progOf l) ref.target n → ref.spelling = n := by
  intro it hit ref href hk n hd
  cases hci : isConst it with
  | true =>
    cases it with
    | const k => simp [refs_const] at href
    | _ => simp [isConst] at hci
  | false =>
    rw [← renamesOf_progOf] at href
    exact C09.C09_partial (progOf l) hs lc hc hsh it (mem_typeItems_progOf.2 ⟨hit, hci⟩) ref href hk n hd

/-! ## clause 6: the hypotheses of `C11_order` do not depend on the order of the list -/

theorem namesDistinct_perm {L J : List RustItem} (hp : J.Perm L) (h : NamesDistinct L) : NamesDistinct J :=
  ((hp.map RustItem.originalName).nodup_iff).2 h

theorem depthOk_perm {L J : List RustItem} (hp : J.Perm L) (h : DepthOk L) : DepthOk J := by
  intro it hit t ht
  have := h it (hp.subset hit) t ht
  simpa [fuelFor, hp.length_eq] using this

theorem lookup_isSome_perm {L J : List RustItem} (hp : J.Perm L) (g : Str) (h : (lookup J g).isSome) :
    (lookup L g).isSome := by
  obtain ⟨thing, ht⟩ := Option.isSome_iff_exists.1 h
  have hn := lookup_name ht
  have hm := hp.subset (lookup_mem ht)
  rw [← hn]
  exact lookup_isSome_of_mem hm

theorem genericsUsed_perm {L J : List RustItem} (hp : J.Perm L) (h : GenericsUsed L) : GenericsUsed J := by
  intro it hit g hg hl
  exact h it (hp.subset hit) g hg (lookup_isSome_perm hp g hl)

theorem refReach_perm {L J : List RustItem} (hp : J.Perm L) {i j : Nat} (h : RefReach J i j) :
    ∃ a b, J[i]? = some a ∧ J[j]? = some b ∧
      ∀ (i' j' : Nat), L[i']? = some a → L[j']? = some b → RefReach L i' j' := by
  induction h with
  | single hr =>
    obtain ⟨a, b, ha, hb, hx⟩ := refers_iff.1 hr
    exact ⟨a, b, ha, hb, fun i' j' ha' hb' => .single (refers_iff.2 ⟨a, b, ha', hb', hx⟩)⟩
  | step _ hr ih =>
    obtain ⟨a, m, ha, hm, hall⟩ := ih
    obtain ⟨m', b, hm', hb, hx⟩ := refers_iff.1 hr
    rw [hm] at hm'
    cases hm'
    refine ⟨a, b, ha, hb, fun i' j' ha' hb' => ?_⟩
    obtain ⟨k', hk'⟩ := List.getElem?_of_mem (hp.subset (List.mem_iff_getElem?.2 ⟨_, hm⟩))
    exact .step (hall i' k' ha' hk') (refers_iff.2 ⟨m, b, hk', hb', hx⟩)

theorem acyclic_perm {L J : List RustItem} (hp : J.Perm L) (h : AcyclicRefs L) : AcyclicRefs J := by
  intro i hi
  obtain ⟨a, b, ha, hb, hall⟩ := refReach_perm hp hi
  rw [ha] at hb
  cases hb
  obtain ⟨i', hi'⟩ := List.getElem?_of_mem (hp.subset (List.mem_iff_getElem?.2 ⟨_, ha⟩))
  exact h i' (hall i' i' hi' hi')

/-- **C11 on the blocks of one file**: if the items the back end received (in any order) have distinct
names, bounded depth, used alias parameters and an acyclic reference relation, then the order
`generate_types` writes in puts every definition after the definitions it mentions -/
theorem order_of_generateOrder (d : ParsedData) (items L : List RustItem)
    (ho : Pipeline.generateOrder d = some items) (hp : (C12L.itemsOf d).Perm L)
    (h1 : NamesDistinct L) (h2 : DepthOk L) (h3 : GenericsUsed L) (h4 : AcyclicRefs L) :
    ∀ (pa pb : Nat) (a b : RustItem), items[pa]? = some a → items[pb]? = some b →
      b.originalName ∈ refsItem a → pb < pa := by
  obtain ⟨out, hout, _, hord⟩ := C11_order (C12L.itemsOf d) (namesDistinct_perm hp h1) (depthOk_perm hp h2)
    (genericsUsed_perm hp h3) (acyclic_perm hp h4)
  have : Deps.topsort (C12L.itemsOf d) = some items := ho
  rw [this] at hout
  cases hout
  exact hord

end TsV.Cap

namespace TsV.Cap
open TsV TsV.Pipeline TsV.Generate TsV.C03E TsV.Lang TsV.Deps TsV.C11

/-! ## the run, up to the back-end call -/

/-- a run that produces output parsed every annotated accepted item, and — unless there was nothing to
print — called the back end once, on the reconciled parsed items (each once, sorted by `reconcile`) -/
theorem run_core (E : Ext) (lang : LangCfg) (targetOs : List Str)
    (pick : List ImportedType → Option ImportedType) (f : SourceFile) (outs : List (Str × Str))
    (h : run E lang false targetOs pick [f] = .ok (.outputs outs)) :
    (sourceItems (ctxOf lang targetOs) f.file).map (C03.parseItem E (ctxOf lang targetOs)) =
      (parsedItems E (ctxOf lang targetOs) f.file).map Outcome.ok ∧
    (parsedItems E (ctxOf lang targetOs) f.file = [] → outs = []) ∧
    (parsedItems E (ctxOf lang targetOs) f.file ≠ [] → ∃ d' : ParsedData,
      (C12L.itemsOf d').Perm (C03_Emission.emitted E lang targetOs f) ∧ d'.multiFile = false ∧
      d'.crateName = f.crateName ∧ genAll E lang false [(f.crateName, d', none)] = .ok outs) := by
  obtain ⟨herr, _, hnil, hcons⟩ := C03_Emission.run_outputs E lang targetOs pick f outs h
  exact ⟨parsed_aligned E _ _ herr, hnil, hcons⟩

/-- no parsed item: no annotated accepted source item -/
theorem sourceItems_nil_of_aligned {E : Ext} {ctx : ParseContext} {f : Syn.File}
    (hal : (sourceItems ctx f).map (C03.parseItem E ctx) = (parsedItems E ctx f).map Outcome.ok)
    (hP : parsedItems E ctx f = []) : sourceItems ctx f = [] := by
  rw [hP] at hal
  simpa using hal

/-- **clause 6**, as a statement about the order `items` of the blocks -/
def OrderClause (emitted items : List RustItem) : Prop :=
  NamesDistinct emitted → DepthOk emitted → GenericsUsed emitted → AcyclicRefs emitted →
    ∀ (pa pb : Nat) (a b : RustItem), items[pa]? = some a → items[pb]? = some b →
      b.originalName ∈ refsItem a → pb < pa

theorem orderClause_nil (emitted : List RustItem) : OrderClause emitted [] := by
  intro _ _ _ _ pa pb a b ha
  simp at ha

theorem orderClause_of (d : ParsedData) (items emitted : List RustItem)
    (ho : Pipeline.generateOrder d = some items) (hp : (C12L.itemsOf d).Perm emitted) : OrderClause emitted items :=
  fun h1 h2 h3 h4 => order_of_generateOrder d items emitted ho hp h1 h2 h3 h4

/-- **clause 5** (C09's scope: a single crate named `""`, `InScope`, `CfgOk`, no shadowing; per reference:
outside `KnownRef`, i.e. not a reference to a renamed Go enum) -/
def RefsClause (lc : LangCfg) (crate : Str) (parsed : List RustItem) : Prop :=
  crate = [] → C09.InScope (progOf parsed) → C09.CfgOk lc → C09.Known_shadow (progOf parsed) = false →
    ∀ it ∈ parsed, ∀ ref ∈ C09.refs lc (renamesFor crate parsed) it, C09.KnownRef lc (progOf parsed) ref = false →
      ∀ n, C09.Defines lc (progOf parsed) ref.target n → ref.spelling = n

theorem refsClause (lc : LangCfg) (crate : Str) (parsed : List RustItem) : RefsClause lc crate parsed := by
  intro hc hs hcfg hsh
  subst hc
  exact refs_consistent lc parsed hs hcfg hsh

end TsV.Cap
