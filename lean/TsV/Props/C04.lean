import TsV.Model.Generate
import TsV.Lemmas.C04_Parse
import TsV.Lemmas.C04_TypeScript
import TsV.Lemmas.C04_Kotlin
import TsV.Lemmas.C04_Swift
import TsV.Lemmas.C04_Scala
import TsV.Lemmas.C04_Go
import TsV.Lemmas.C04_GoAcr
import TsV.Lemmas.C04_Python
/-!
# C04 — a generated field is optional iff the Rust field is `Option<T>` or `serde(default)`

STATEMENT (given): a field (or newtype-variant payload) is marked optional/nullable in the generated
definition, using the target language's idiom, exactly when its Rust type is `Option<T>` or the
field carries the bare `serde(default)` attribute; otherwise it is required.  The optional marker
never changes the underlying translated type, and `Option<Option<T>>` stays distinguishable from
`Option<T>` where the back end supports it (TypeScript `?` plus `| null`).

Layout of the formal statement (`C04_full`):

* `ParseClause` — the two sources of optionality as the parser computes them are exactly the
  specification on the source (`bareDefault`, `isOptionSyn`, `isDoubleOptionSyn`, all defined in
  `Lemmas/C04_Parse.lean` without reference to the parser model), for named fields, newtype
  payloads, newtype structs and aliases.
* `FieldClause` — for every back end and configuration and every field in the property's
  quantifier (`InScope`): the declaration generated for the field *means* (binding semantics
  `Declares`) "optional" exactly when `opt f`, and its type without the marker is the translation
  (`Translates`) of the `Option`-stripped Rust type.
* `DoubleOptionClause` — TypeScript prints ` | null` exactly for `Option<Option<_>>`.
* `OptionTypeClause` — where the marker lives in the type (payloads, aliases, nested positions):
  the translation of `Option<r>` is the language's optional-type constructor applied to the
  translation of `r`.
* `PayloadClause`, `AliasClause` — newtype payloads and aliases print the translation of their
  type (TypeScript additionally `content?:` / ` | undefined` exactly for `Option<_>`).

The model (= the current code) violates `FieldClause` in one class: Scala prints `name: T = _` for
a non-`Option` field with `serde(default)`.  Hence `C04_not_full`, `Known_scalaDefaultNonOption`,
`C04_partial` (everything else holds) and `C04_known_exact` (inside the class it always fails).

Trusted specification (binding semantics) — small functions in the `Lemmas/C04_*.lean` files:
`Ts.isOptional/stripOptional/orNull`, `Kt.isOptional/stripOptional`, `Sw.isOptional/stripOptional`,
`Sc.isOptional/stripOptional`, `Go.isOptional/stripOptional`, `Py.Denotes` (relation, because of the
`Annotated[…]` wrapper), and on the source side `bareDefault`, `peel`, `isOptionSyn`,
`isDoubleOptionSyn`, `effectiveType`; in this file `Declares`, `Translates`, `optionalType`.
-/
namespace TsV.C04
open TsV TsV.Syn TsV.Parser TsV.RustTypes TsV.Lang TsV.Generate

/-! ## the statement -/

/-- **binding semantics of one generated field declaration**: the declaration back end `B`
generates for field `f` (of a struct or struct variant with generic parameters `gens`) says
"optional" iff `o`, and `core` is its type text without the optional marker.  (Swift: the stored
property and the initialiser parameter carry the same pair; `Sw.field` is stated on it.) -/
def Declares (E : Ext) (gens : List Str) (f : RustField) : LangCfg → Bool → Str → Prop
  | .typescript cfg, o, core =>
    ∃ st st' tf, TypeScript.fieldFacts cfg gens f st = .ok (tf, st') ∧
      Ts.isOptional tf = o ∧ Ts.stripOptional tf = core
  | .kotlin cfg, o, core =>
    ∃ rsn priv p, Kotlin.paramFacts cfg gens rsn priv f = .ok p ∧
      Kt.isOptional p = o ∧ Kt.stripOptional p = core
  | .swift cfg, o, core =>
    ∃ st st' ty, Swift.fieldType cfg gens f st = .ok (ty, st') ∧
      Sw.isOptional ty (Swift.fieldOptional f) = o ∧ Sw.stripOptional ty (Swift.fieldOptional f) = core
  | .scala cfg, o, core =>
    ∃ p, Scala.paramFacts cfg gens f = .ok p ∧ Sc.isOptional p = o ∧ Sc.stripOptional p = core
  | .go cfg, o, core =>
    ∃ st st' g, Go.fieldFacts E.U cfg f st = .ok (g, st') ∧
      Go.isOptional cfg g = o ∧ Go.stripOptional g = core
  | .python cfg, o, core =>
    ∃ st st' p, Python.fieldFacts E cfg gens f st = .ok (p, st') ∧ Py.Denotes p o core

/-- `s` is back end `B`'s translation of the Rust type `t` (`Language::format_type`, for some
printer state — the state only collects imports; for Go followed by the acronym pass that
`write_field` applies to type texts) -/
def Translates (E : Ext) (gens : List Str) (t : RustType) : LangCfg → Str → Prop
  | .typescript cfg, s => ∃ st st', TypeScript.formatType cfg gens t st = .ok (s, st')
  | .kotlin cfg, s => Kotlin.formatType cfg gens t = .ok s
  | .swift cfg, s => ∃ st st', Swift.formatType cfg gens t st = .ok (s, st')
  | .scala cfg, s => Scala.formatType cfg gens t = .ok s
  | .go cfg, s => ∃ st st' raw, Go.formatType cfg t st = .ok (raw, st') ∧ Go.acr E.U cfg raw = .ok s
  | .python cfg, s => ∃ st st', Python.formatType cfg gens t st = .ok (s, st')

/-- the configured type mappings do not replace the `Option<…>` type `t` itself (only the back
ends whose `format_special_type` consults the mappings are concerned) -/
def NoOptionMapping (t : RustType) : LangCfg → Prop
  | .typescript cfg => NoOptionKey cfg.typeMappings t
  | .go cfg => NoOptionKey cfg.typeMappings t
  | .python cfg => NoOptionKey cfg.typeMappings t
  | _ => True

/-- the per-language field decorator `#[typeshare(<lang>(type = "…"))]` -/
def overrideOf (f : RustField) : LangCfg → Option Str
  | .typescript _ => typeOverride f .typescript
  | .kotlin _ => typeOverride f .kotlin
  | .swift _ => typeOverride f .swift
  | .scala _ => typeOverride f .scala
  | .go _ => typeOverride f .go
  | .python _ => none            -- the Python back end never reads type overrides

/-- **the property's quantifier** over fields and configurations: every field type, with or
without `serde(default)`, every configuration (prefix, package, type mappings, `no_pointer_slice`,
acronyms …) except
* a per-language `type = "…"` override on the field (the user's text replaces the translated type
  altogether; the property's quantifier has no such dimension — what happens then is described by
  the `*.field_override` lemmas),
* a type mapping keyed by the field's own `Option<…>` type (replaces the optional type by
  configuration), and for Go with `no_pointer_slice` one keyed by the `Vec<…>` under the `Option`,
* Swift: a head identifier whose translation itself ends in `?` (`Sw.HeadNoQ`; never the case for
  Rust identifiers with mappings/prefixes that do not end in `?`, see `Sw.formatSimple_noQ`),
* Go: an acronym whose Pascal-cased pattern is empty or begins with `*`, `[` or `]`
  (`Go.SaneAcronyms`; never the case for alphanumeric acronyms). -/
def InScope (gens : List Str) (f : RustField) (B : LangCfg) : Prop :=
  overrideOf f B = none ∧ NoOptionMapping f.ty B ∧
  (match B with
   | .swift cfg => f.ty.isOptional = false → Sw.HeadNoQ cfg gens f.ty
   | .go cfg => Go.SliceUnmapped cfg f.ty ∧ Go.SaneAcronyms cfg
   | _ => True)

/-- what C04 demands of one field in one back end: every reading of the generated declaration
says "optional" exactly when `opt f`, and the declaration reads with the translation of the
`Option`-stripped Rust type as its type without the marker.  (For the five back ends whose
semantics is a function the reading is unique, so `core' = core`: `C04_partial_functional`.
For Python the same text reads bare or as `Annotated[…]`, hence the existential.) -/
def FieldSpec (E : Ext) (B : LangCfg) (gens : List Str) (f : RustField) : Prop :=
  ∀ o core, Declares E gens f B o core →
    o = opt f ∧ ∃ core', Declares E gens f B o core' ∧ Translates E gens (stripOption f.ty) B core'

/-- source side: `has_default`, `is_optional`, `is_double_optional` are the specification -/
def ParseClause : Prop :=
  (∀ (E : Ext) (cf : Bool) (ra : Option Str) (f : Field) (rf : RustField),
    parseField E cf ra f = .ok rf →
      rf.hasDefault = bareDefault f.attrs ∧
      ∃ t, effectiveType E f.attrs f.ty = some t ∧
        rf.ty.isOptional = isOptionSyn t ∧ rf.ty.isDoubleOptional = isDoubleOptionSyn t) ∧
  -- newtype payloads, newtype structs, aliases: only the type matters
  (∀ (E : Ext) (attrs : List Attr) (ty : SynType) (r : RustType),
    fieldType E attrs ty = .ok r →
      ∃ t, effectiveType E attrs ty = some t ∧
        r.isOptional = isOptionSyn t ∧ r.isDoubleOptional = isDoubleOptionSyn t)

def FieldClause : Prop :=
  ∀ (E : Ext) (B : LangCfg) (gens : List Str) (f : RustField), InScope gens f B → FieldSpec E B gens f

def DoubleOptionClause : Prop :=
  ∀ (cfg : TypeScript.Cfg) (gens : List Str) (f : RustField) (st st' : TypeScript.CustomMap)
    (tf : TypeScript.TsField),
    TypeScript.fieldFacts cfg gens f st = .ok (tf, st') → Ts.orNull tf = f.ty.isDoubleOptional

/-- each language's optional *type* constructor, applied to the translation `s` of `r` -/
def optionalType (r : RustType) (s : Str) : LangCfg → Str
  | .typescript _ => s                       -- erased; the marker goes on the key (`?`, `| undefined`)
  | .kotlin _ => s ++ s%"?"
  | .swift _ => s ++ s%"?"
  | .scala _ => s%"Option[" ++ s ++ s%"]"
  | .go cfg => Go.ptr cfg r ++ s             -- `*`, or nothing for a slice under `no_pointer_slice`
  | .python _ => s%"Optional[" ++ s ++ s%"]"

def OptionTypeClause : Prop :=
  ∀ (E : Ext) (B : LangCfg) (gens : List Str) (r : RustType) (s : Str),
    NoOptionMapping (.option r) B →
    (match B with | .go cfg => Go.SaneAcronyms cfg | _ => True) →
    Translates E gens (.option r) B s →
      ∃ s0, Translates E gens r B s0 ∧ s = optionalType r s0 B

/-- newtype-variant payloads: the translation of the payload type is what is printed
(TypeScript: and `content?:` exactly for `Option<_>`) -/
def PayloadClause : Prop :=
  (∀ cfg e tag content id cs ty st st' text,
    TypeScript.writeVariant cfg e tag content (.tuple id cs ty) st = .ok (text, st') →
    ∃ t, TypeScript.formatType cfg e.genericTypes ty st = .ok (t, st') ∧
      text = nl ++ TypeScript.comments 1 cs ++ s%"\t| { " ++ tag ++ s%": " ++ debugStr id.renamed ++ s%", " ++
        content ++ (if ty.isOptional then s%"?" else []) ++ s%": " ++ t ++ s%" }") ∧
  (∀ cfg e ck id cs ty c, Kotlin.caseFacts cfg e ck (.tuple id cs ty) = .ok c →
    ∃ t, c.payload = .content ck t ∧ Kotlin.formatType cfg e.genericTypes ty = .ok t) ∧
  (∀ U cfg e id cs ty st st' c, Swift.algebraicCase U cfg e (.tuple id cs ty) st = .ok (c, st') →
    ∃ t, c.payload = some ⟨Swift.kw t, ty.isOptional⟩ ∧
      Swift.formatType cfg e.genericTypes ty st = .ok (t, st')) ∧
  (∀ cfg e tag ck id cs ty c, e.keys = some (tag, ck) → Scala.caseFacts cfg e (.tuple id cs ty) = .ok c →
    ∃ t, c.content = some (e.genericTypes, ck, t) ∧ Scala.formatType cfg e.genericTypes ty = .ok t) ∧
  (∀ U cfg e sn tag cstructs id cs ty st st' v,
    Go.algVariant U cfg e sn tag cstructs (.tuple id cs ty) st = .ok (v, st') →
    ∃ t p, Go.formatType cfg ty st = .ok (t, st') ∧ Go.acr U cfg t = .ok p.ty ∧ v.payload = some p) ∧
  (∀ E cfg e tag content id cs ty st st' v,
    Python.variantFacts E cfg e tag content (.tuple id cs ty) st = .ok (v, st') →
    ∃ t st1, v.contentType = some t ∧ Python.formatType cfg e.genericTypes ty st = .ok (t, st1))

/-- aliases (`type X = …`, newtype structs): the translation of the aliased type is what is
printed (TypeScript: and ` | undefined` exactly for `Option<_>`; Kotlin `JvmInline` value classes
follow the field rule) -/
def AliasClause : Prop :=
  (∀ cfg a st st' text, TypeScript.writeAlias cfg a st = .ok (text, st') →
    ∃ ty, TypeScript.formatType cfg a.genericTypes a.ty st = .ok (ty, st') ∧
      text = TypeScript.comments 0 a.comments ++ s%"export type " ++ a.id.renamed ++
        genericSuffix a.genericTypes ++ s%" = " ++ ty ++
        (if a.ty.isOptional then s%" | undefined" else []) ++ s%";\n\n") ∧
  (∀ cfg a d, Kotlin.aliasFacts cfg a = .ok d →
    (Kotlin.isInline a.decorators = false ∧ ∃ ty, d = .typeAlias a.comments (cfg.pfx ++ a.id.renamed)
        (genericSuffix a.genericTypes) ty ∧ Kotlin.formatType cfg a.genericTypes a.ty = .ok ty) ∨
    (Kotlin.isInline a.decorators = true ∧ ∃ p, Kt.params d = [p] ∧ Kt.isOptional p = a.ty.isOptional ∧
        Kotlin.formatType cfg [] (stripOption a.ty) = .ok (Kt.stripOptional p))) ∧
  (∀ U cfg a st st' text, Swift.writeAlias U cfg a st = .ok (text, st') →
    ∃ ty, Swift.formatType cfg a.genericTypes a.ty st = .ok (ty, st') ∧
      text = nl ++ Swift.comments U 0 a.comments ++ s%"public typealias " ++ Swift.kw (cfg.pfx ++ a.id.renamed) ++
        genericSuffix a.genericTypes ++ s%" = " ++ ty ++ nl) ∧
  (∀ cfg a sa, Scala.aliasFacts cfg a = .ok sa → Scala.formatType cfg a.genericTypes a.ty = .ok sa.ty) ∧
  (∀ U cfg a st st' ga, Go.aliasFacts U cfg a st = .ok (ga, st') → Go.formatType cfg a.ty st = .ok (ga.ty, st')) ∧
  (∀ cfg a st st' pa, Python.aliasFacts cfg a st = .ok (pa, st') →
    ∃ st1, Python.formatType cfg a.genericTypes a.ty st = .ok (pa.ty, st1) ∧
      st' = a.genericTypes.foldl Python.addTypeVar st1)

/-- **C04 at full strength over the model** -/
def C04_full : Prop :=
  ParseClause ∧ FieldClause ∧ DoubleOptionClause ∧ OptionTypeClause ∧ PayloadClause ∧ AliasClause

/-! ## the known class -/

/-- Scala, a field with `serde(default)` whose type is not `Option<_>` -/
def Known_scalaDefaultNonOption (B : LangCfg) (f : RustField) : Bool :=
  match B with
  | .scala _ => f.hasDefault && !f.ty.isOptional
  | _ => false

/-! ## the clauses that hold -/

theorem parseClause : ParseClause := by
  refine ⟨?_, ?_⟩
  · intro E cf ra f rf h
    obtain ⟨hd, hty⟩ := parseField_ok E cf ra f rf h
    obtain ⟨t, het, htf⟩ := fieldType_spec E f.attrs f.ty rf.ty hty
    exact ⟨by rw [hd, serdeDefault_eq], t, het, isOptional_spec t _ htf, isDoubleOptional_spec t _ htf⟩
  · intro E attrs ty r h
    obtain ⟨t, het, htf⟩ := fieldType_spec E attrs ty r h
    exact ⟨t, het, isOptional_spec t _ htf, isDoubleOptional_spec t _ htf⟩

theorem doubleOptionClause : DoubleOptionClause := by
  intro cfg gens f st st' tf h
  exact (Ts.field h).2.1

theorem payloadClause : PayloadClause :=
  ⟨fun _ _ _ _ _ _ _ _ _ _ h => Ts.payload h,
   fun _ _ _ _ _ _ _ h => Kt.payload h,
   fun _ _ _ _ _ _ _ _ _ h => Sw.payload h,
   fun _ _ _ _ _ _ _ _ hk h => Sc.payload hk h,
   fun _ _ _ _ _ _ _ _ _ _ _ _ h => Go.payload h,
   fun _ _ _ _ _ _ _ _ _ _ _ h => Py.payload h⟩

theorem aliasClause : AliasClause :=
  ⟨fun _ _ _ _ _ h => Ts.alias h,
   fun _ _ _ h => Kt.alias h,
   fun _ _ _ _ _ _ h => Sw.alias h,
   fun _ _ _ h => Sc.alias h,
   fun _ _ _ _ _ _ h => Go.alias h,
   fun _ _ _ _ _ h => Py.alias h⟩

theorem optionTypeClause : OptionTypeClause := by
  intro E B gens r s hk hsane h
  cases B with
  | typescript cfg =>
    obtain ⟨st, st', h⟩ := h
    rw [Ts.formatType_option st hk] at h
    exact ⟨s, ⟨st, st', h⟩, rfl⟩
  | kotlin cfg =>
    obtain ⟨s0, h0, hs⟩ := Kt.formatType_option_ok h
    exact ⟨s0, h0, hs⟩
  | swift cfg =>
    obtain ⟨st, st', h⟩ := h
    obtain ⟨s0, h0, hs⟩ := Sw.formatType_option_ok h
    exact ⟨s0, ⟨st, st', h0⟩, hs⟩
  | scala cfg =>
    obtain ⟨s0, h0, hs⟩ := Sc.formatType_option_ok h
    exact ⟨s0, h0, hs⟩
  | go cfg =>
    obtain ⟨st, st', raw, h, hacr⟩ := h
    obtain ⟨raw0, h0, hraw⟩ := Go.formatType_option_ok hk h
    subst hraw
    have ha := Go.acrTransparent_of_sane E.U cfg hsane
    by_cases hv : (r.isVec && cfg.noPointerSlice) = true
    · have hp : Go.ptr cfg r = [] := by simp [Go.ptr, hv]
      rw [hp, List.nil_append] at hacr
      exact ⟨s, ⟨st, st', raw0, h0, hacr⟩, by simp [optionalType, hp]⟩
    · have hp : Go.ptr cfg r = s%"*" := by simp [Go.ptr, hv]
      rw [hp] at hacr
      have hacr' : Go.acr E.U cfg ('*' :: raw0) = .ok s := hacr
      rw [ha '*' raw0 (by simp)] at hacr'
      obtain ⟨s0, hs0, hs⟩ := bind_ok hacr'
      simp only [Outcome.ok.injEq] at hs
      exact ⟨s0, ⟨st, st', raw0, h0, hs0⟩, by simp [optionalType, hp, ← hs]⟩
  | python cfg =>
    obtain ⟨st, st', h⟩ := h
    obtain ⟨s0, h0, hs⟩ := Py.formatType_option_ok hk h
    exact ⟨s0, ⟨_, st', h0⟩, hs⟩

/-! ## the field clause: partial, exact, not full -/

/-- Scala's half of the field clause that holds for every field: the marker follows `Option`
only, and never changes the type -/
theorem scala_field (E : Ext) (cfg : Scala.Cfg) (gens : List Str) (f : RustField)
    (hov : typeOverride f .scala = none) :
    ∀ o core, Declares E gens f (.scala cfg) o core →
      o = f.ty.isOptional ∧ Translates E gens (stripOption f.ty) (.scala cfg) core := by
  rintro o core ⟨p, hp, ho, hc⟩
  obtain ⟨h1, h2⟩ := Sc.field hov hp
  exact ⟨by rw [← ho, h1], by rw [← hc]; exact h2⟩

/-- the strong, reading-independent form for the back ends whose binding semantics is a function -/
def FieldSpecFunctional (E : Ext) (B : LangCfg) (gens : List Str) (f : RustField) : Prop :=
  ∀ o core, Declares E gens f B o core →
    o = opt f ∧ Translates E gens (stripOption f.ty) B core

def isPython : LangCfg → Bool
  | .python _ => true
  | _ => false

/-- **C04 for the five back ends with functional semantics**: every in-scope field outside the
known class, every configuration -/
theorem C04_partial_functional (E : Ext) (B : LangCfg) (gens : List Str) (f : RustField)
    (hpy : isPython B = false)
    (hs : InScope gens f B) (hk : Known_scalaDefaultNonOption B f = false) :
    FieldSpecFunctional E B gens f := by
  obtain ⟨hov, hmap, hextra⟩ := hs
  cases B with
  | typescript cfg =>
    rintro o core ⟨st, st', tf, h, ho, hc⟩
    obtain ⟨h1, _, h3⟩ := Ts.field h
    obtain ⟨st1, h3⟩ := h3 hov hmap
    exact ⟨by rw [← ho, h1], ⟨st, st1, by rw [← hc]; exact h3⟩⟩
  | kotlin cfg =>
    rintro o core ⟨rsn, priv, p, h, ho, hc⟩
    obtain ⟨h1, h2⟩ := Kt.field hov h
    exact ⟨by rw [← ho, h1], by rw [← hc]; exact h2⟩
  | swift cfg =>
    rintro o core ⟨st, st', ty, h, ho, hc⟩
    obtain ⟨h1, h2⟩ := Sw.field hov hextra h
    exact ⟨by rw [← ho, h1], ⟨st, st', by rw [← hc]; exact h2⟩⟩
  | scala cfg =>
    intro o core hd
    obtain ⟨h1, h2⟩ := scala_field E cfg gens f hov o core hd
    refine ⟨?_, h2⟩
    rw [h1]
    simp only [Known_scalaDefaultNonOption] at hk
    cases ho : f.ty.isOptional <;> cases hdef : f.hasDefault <;> simp_all [opt]
  | go cfg =>
    rintro o core ⟨st, st', g, h, ho, hc⟩
    obtain ⟨h1, inner, h2, h3⟩ :=
      Go.field hov hmap hextra.1 (Go.acrTransparent_of_sane E.U cfg hextra.2) h
    exact ⟨by rw [← ho, h1], ⟨st, st', inner, h2, by rw [← hc]; exact h3⟩⟩
  | python cfg => simp [isPython] at hpy

/-- **C04 holds for every in-scope field outside the known class**: every back end, every
configuration, every field type, with and without `serde(default)` -/
theorem C04_partial (E : Ext) (B : LangCfg) (gens : List Str) (f : RustField)
    (hs : InScope gens f B) (hk : Known_scalaDefaultNonOption B f = false) : FieldSpec E B gens f := by
  cases hpy : isPython B with
  | false =>
    intro o core hd
    obtain ⟨h1, h2⟩ := C04_partial_functional E B gens f hpy hs hk o core hd
    exact ⟨h1, core, hd, h2⟩
  | true =>
    cases B with
    | python cfg =>
      obtain ⟨_, hmap, _⟩ := hs
      rintro o core ⟨st, st', p, h, hden⟩
      obtain ⟨core', st0, st1, hf, hden'⟩ := Py.field hmap h
      -- the default (`None` or absent) fixes `o`
      have ho : o = opt f := by
        have h1 := hden.1
        rw [hden'.1] at h1
        cases o <;> cases hopt : opt f <;> simp_all
      subst ho
      exact ⟨rfl, core', ⟨st, st', p, h, hden'⟩, ⟨st0, st1, hf⟩⟩
    | _ => simp [isPython] at hpy

/-- **exact characterisation**: inside the known class the property always fails — the generated
Scala parameter is never optional although the field has `serde(default)` -/
theorem C04_known_exact (E : Ext) (B : LangCfg) (gens : List Str) (f : RustField)
    (hk : Known_scalaDefaultNonOption B f = true) :
    ∀ o core, Declares E gens f B o core → o = false ∧ opt f = true := by
  cases B with
  | scala cfg =>
    simp only [Known_scalaDefaultNonOption, Bool.and_eq_true, Bool.not_eq_true'] at hk
    rintro o core ⟨p, hp, ho, _⟩
    obtain ⟨_, h2, h3⟩ := Sc.field_default_non_option hk.1 hk.2 hp
    exact ⟨by rw [← ho, h2], h3⟩
  | _ => simp [Known_scalaDefaultNonOption] at hk

/-! ## the witness -/

def asciiExt : Ext := { U := UnicodeOps.ascii, parseType := fun _ => none }

/-- `#[serde(default)] pub bar: bool` -/
def witnessField : RustField :=
  { id := ⟨s%"bar", s%"bar", false⟩, ty := .prim .bool, comments := [], hasDefault := true, decorators := [] }

def witnessScala : LangCfg := .scala { package := s%"com.example" }

theorem witness_inScope : InScope [] witnessField witnessScala := ⟨rfl, trivial, trivial⟩

/-- what the Scala model prints for the witness: `bar: Boolean = _` -/
theorem witness_declares : Declares asciiExt [] witnessField witnessScala false s%"Boolean" :=
  ⟨{ comments := [], name := s%"bar", ty := s%"Boolean", default := s%" = _" }, rfl, by decide, by decide⟩

theorem witness_rendered :
    Scala.renderParam { comments := [], name := s%"bar", ty := s%"Boolean", default := s%" = _" } =
      s%"\tbar: Boolean = _" := by decide

/-- **the property does not hold at full strength** -/
theorem C04_not_full : ¬ C04_full := by
  rintro ⟨_, hfield, _⟩
  have := (hfield asciiExt witnessScala [] witnessField witness_inScope false _ witness_declares).1
  exact absurd this (by decide)

/-! ## every field of every struct and of every struct variant

The field clause speaks about one field; the struct-level models build one fact record per field,
in order (`*.struct_fields`, `*.variant_fields`), so the clause holds position by position. -/

/-- TypeScript: every field of every struct (the interface body is exactly the rendering of the
records) -/
theorem typescript_struct {cfg : TypeScript.Cfg} {rs : RustStruct} {st st' : TypeScript.CustomMap} {text : Str}
    (h : TypeScript.writeStruct cfg rs st = .ok (text, st')) :
    ∃ tfs, text = TypeScript.comments 0 rs.comments ++ s%"export interface " ++ rs.id.renamed ++
        genericSuffix rs.genericTypes ++ s%" {\n" ++ tfs.flatMap TypeScript.renderField ++ s%"}\n\n" ∧
      Pointwise (fun f tf => Ts.isOptional tf = opt f ∧ Ts.orNull tf = f.ty.isDoubleOptional ∧
        (typeOverride f .typescript = none → NoOptionKey cfg.typeMappings f.ty →
          Translates asciiExt rs.genericTypes (stripOption f.ty) (.typescript cfg) (Ts.stripOptional tf)))
        rs.fields tfs := by
  obtain ⟨tfs, hpw, htext⟩ := Ts.struct_fields h
  refine ⟨tfs, htext, hpw.imp ?_⟩
  rintro f tf ⟨st0, st1, hf⟩
  obtain ⟨h1, h2, h3⟩ := Ts.field hf
  exact ⟨h1, h2, fun hov hk => by obtain ⟨st2, h3⟩ := h3 hov hk; exact ⟨st0, st2, h3⟩⟩

/-- TypeScript: every field of every struct variant -/
theorem typescript_variant {cfg : TypeScript.Cfg} {e : RustEnum} {tag content : Str} {id : Id} {cs : List Str}
    {fs : List RustField} {st st' : TypeScript.CustomMap} {text : Str}
    (h : TypeScript.writeVariant cfg e tag content (.anonymousStruct id cs fs) st = .ok (text, st')) :
    ∃ tfs, Pointwise (fun f tf => Ts.isOptional tf = opt f ∧ Ts.orNull tf = f.ty.isDoubleOptional ∧
        (typeOverride f .typescript = none → NoOptionKey cfg.typeMappings f.ty →
          Translates asciiExt e.genericTypes (stripOption f.ty) (.typescript cfg) (Ts.stripOptional tf)))
        fs tfs := by
  obtain ⟨tfs, hpw, _⟩ := Ts.variant_fields h
  refine ⟨tfs, hpw.imp ?_⟩
  rintro f tf ⟨st0, st1, hf⟩
  obtain ⟨h1, h2, h3⟩ := Ts.field hf
  exact ⟨h1, h2, fun hov hk => by obtain ⟨st2, h3⟩ := h3 hov hk; exact ⟨st0, st2, h3⟩⟩

/-- the Kotlin clause for one (field, parameter) pair -/
def KotlinOK (cfg : Kotlin.Cfg) (gens : List Str) (f : RustField) (p : Kotlin.KtParam) : Prop :=
  typeOverride f .kotlin = none →
    Kt.isOptional p = opt f ∧ Kotlin.formatType cfg gens (stripOption f.ty) = .ok (Kt.stripOptional p)

/-- Kotlin: every field of every struct -/
theorem kotlin_struct {cfg : Kotlin.Cfg} {rs : RustStruct} {d : Kotlin.KtDecl}
    (h : Kotlin.structFacts cfg rs = .ok d) :
    Pointwise (KotlinOK cfg rs.genericTypes) rs.fields (Kt.params d) :=
  (Kt.struct_fields h).imp fun _ _ ⟨_, _, hp⟩ hov => Kt.field hov hp

/-- Kotlin: every field of every struct variant -/
theorem kotlin_variants {cfg : Kotlin.Cfg} {e : RustEnum} {ds : List Kotlin.KtDecl}
    (h : Kotlin.enumFacts cfg e = .ok ds) :
    ∃ inners last, ds = inners ++ [last] ∧
      Pointwise (fun (v : Id × List RustField) d => ∃ gens, Pointwise (KotlinOK cfg gens) v.2 (Kt.params d))
        (structVariants e) inners := by
  obtain ⟨inners, last, hds, hpw⟩ := Kt.variant_fields h
  refine ⟨inners, last, hds, hpw.imp ?_⟩
  rintro v d ⟨gens, hg⟩
  exact ⟨gens, hg.imp fun _ _ ⟨_, _, hp⟩ hov => Kt.field hov hp⟩

/-- the Swift clause for one field and the (printed type, flag) pair of its stored property or
initialiser parameter -/
def SwiftOK (cfg : Swift.Cfg) (gens : List Str) (f : RustField) (ty : Str) (flag : Bool) : Prop :=
  typeOverride f .swift = none → (f.ty.isOptional = false → Sw.HeadNoQ cfg gens f.ty) →
    Sw.isOptional ty flag = opt f ∧
    Translates asciiExt gens (stripOption f.ty) (.swift cfg) (Sw.stripOptional ty flag)

theorem swift_of_gen {cfg : Swift.Cfg} {gens : List Str} {f : RustField} {ty : Str} {flag : Bool}
    (hflag : flag = Swift.fieldOptional f) (h : ∃ st st', Swift.fieldType cfg gens f st = .ok (ty, st')) :
    SwiftOK cfg gens f ty flag := by
  obtain ⟨st, st', h⟩ := h
  intro hov hq
  subst hflag
  obtain ⟨h1, h2⟩ := Sw.field hov hq h
  exact ⟨h1, st, st', h2⟩

/-- Swift: every field of every struct — the stored property *and* the initialiser parameter -/
theorem swift_struct {U : UnicodeOps} {cfg : Swift.Cfg} {rs : RustStruct} {st st' : Swift.St} {s : Swift.SwiftStruct}
    (h : Swift.structFacts U cfg rs st = .ok (s, st')) :
    Pointwise (fun f p => SwiftOK cfg rs.genericTypes f p.ty p.optional) rs.fields s.props ∧
    Pointwise (fun f p => SwiftOK cfg rs.genericTypes f p.ty p.optional) rs.fields s.initParams := by
  obtain ⟨h1, h2⟩ := Sw.struct_fields h
  exact ⟨h1.imp fun _ _ ⟨hfl, hg⟩ => swift_of_gen hfl hg, h2.imp fun _ _ ⟨hfl, hg⟩ => swift_of_gen hfl hg⟩

/-- Swift: every field of every struct variant -/
theorem swift_variants {U : UnicodeOps} {cfg : Swift.Cfg} {e : RustEnum} {st st' : Swift.St}
    {structs : List Swift.SwiftStruct} {se : Swift.SwiftEnum}
    (h : Swift.enumFacts U cfg e st = .ok (structs, se, st')) :
    Pointwise (fun (v : Id × List RustField) s => ∃ gens,
      Pointwise (fun f p => SwiftOK cfg gens f p.ty p.optional) v.2 s.props ∧
      Pointwise (fun f p => SwiftOK cfg gens f p.ty p.optional) v.2 s.initParams)
      (structVariants e) structs :=
  (Sw.variant_fields h).imp fun _ _ ⟨gens, h1, h2⟩ =>
    ⟨gens, h1.imp fun _ _ ⟨hfl, hg⟩ => swift_of_gen hfl hg, h2.imp fun _ _ ⟨hfl, hg⟩ => swift_of_gen hfl hg⟩

/-- the Scala clause for one (field, parameter) pair: optional iff `Option<_>`, hence iff `opt f`
outside the known class; the type is never changed -/
def ScalaOK (cfg : Scala.Cfg) (gens : List Str) (f : RustField) (p : Scala.ScParam) : Prop :=
  typeOverride f .scala = none →
    Sc.isOptional p = f.ty.isOptional ∧
    ((f.hasDefault && !f.ty.isOptional) = false → Sc.isOptional p = opt f) ∧
    Scala.formatType cfg gens (stripOption f.ty) = .ok (Sc.stripOptional p)

theorem scala_of_gen {cfg : Scala.Cfg} {gens : List Str} {f : RustField} {p : Scala.ScParam}
    (h : Scala.paramFacts cfg gens f = .ok p) : ScalaOK cfg gens f p := by
  intro hov
  obtain ⟨h1, h2⟩ := Sc.field hov h
  refine ⟨h1, ?_, h2⟩
  intro hk
  rw [h1]
  cases ho : f.ty.isOptional <;> cases hdef : f.hasDefault <;> simp_all [opt]

/-- Scala: every field of every struct -/
theorem scala_struct {cfg : Scala.Cfg} {rs : RustStruct} {c : Scala.ScClass}
    (h : Scala.classFacts cfg rs = .ok c) : Pointwise (ScalaOK cfg rs.genericTypes) rs.fields c.params :=
  (Sc.struct_fields h).imp fun _ _ hp => scala_of_gen hp

/-- Scala: every field of every struct variant -/
theorem scala_variants {cfg : Scala.Cfg} {e : RustEnum} {se : Scala.ScEnum}
    (h : Scala.enumFacts cfg e = .ok se) :
    Pointwise (fun (v : Id × List RustField) c => ∃ gens, Pointwise (ScalaOK cfg gens) v.2 c.params)
      (structVariants e) se.inner :=
  (Sc.variant_fields h).imp fun _ _ ⟨gens, hg⟩ => ⟨gens, hg.imp fun _ _ hp => scala_of_gen hp⟩

/-- the Go clause for one (field, Go field) pair -/
def GoOK (U : UnicodeOps) (cfg : Go.Cfg) (f : RustField) (g : Go.GoField) : Prop :=
  typeOverride f .go = none → NoOptionKey cfg.typeMappings f.ty → Go.SliceUnmapped cfg f.ty →
    Go.SaneAcronyms cfg →
    Go.isOptional cfg g = opt f ∧
    ∃ st st' raw, Go.formatType cfg (stripOption f.ty) st = .ok (raw, st') ∧
      Go.acr U cfg raw = .ok (Go.stripOptional g)

theorem go_of_gen {U : UnicodeOps} {cfg : Go.Cfg} {f : RustField} {g : Go.GoField}
    (h : Go.FieldGen U cfg f g) : GoOK U cfg f g := by
  obtain ⟨st, st', h⟩ := h
  intro hov hk hs ha
  obtain ⟨h1, inner, h2, h3⟩ := Go.field hov hk hs (Go.acrTransparent_of_sane U cfg ha) h
  exact ⟨h1, st, st', inner, h2, h3⟩

/-- Go: every field of every struct -/
theorem go_struct {U : UnicodeOps} {cfg : Go.Cfg} {rs : RustStruct} {st st' : Go.Imports} {d : Go.GoStruct}
    (h : Go.structFacts U cfg rs st = .ok (d, st')) : Pointwise (GoOK U cfg) rs.fields d.fields :=
  (Go.struct_fields h).imp fun _ _ hg => go_of_gen hg

/-- Go: every field of every struct variant -/
theorem go_variants {U : UnicodeOps} {cfg : Go.Cfg} {e : RustEnum} {tag content : Str} {cs : List Str}
    {st st' : Go.Imports} {d : Go.GoAlgEnum}
    (h : Go.algEnumFacts U cfg e tag content cs st = .ok (d, st')) :
    Pointwise (fun (v : Id × List RustField) s => Pointwise (GoOK U cfg) v.2 s.fields)
      (structVariants e) d.anonymous :=
  (Go.variant_fields h).imp fun _ _ hp => hp.imp fun _ _ hg => go_of_gen hg

/-- the Python clause for one (field, pydantic field) pair -/
def PythonOK (cfg : Python.Cfg) (gens : List Str) (f : RustField) (p : Python.PyField) : Prop :=
  NoOptionKey cfg.typeMappings f.ty →
    ∃ core st0 st1, Python.formatType cfg gens (stripOption f.ty) st0 = .ok (core, st1) ∧
      Py.Denotes p (opt f) core

/-- Python: every field of every struct -/
theorem python_struct {E : Ext} {cfg : Python.Cfg} {rs : RustStruct} {st st' : Python.St} {c : Python.PyClass}
    (h : Python.structFacts E cfg rs st = .ok (c, st')) :
    Pointwise (PythonOK cfg rs.genericTypes) rs.fields c.fields :=
  (Py.struct_fields h).imp fun _ _ ⟨_, _, hf⟩ hk => Py.field hk hf

/-- Python: every field of every struct variant -/
theorem python_variants {E : Ext} {cfg : Python.Cfg} {e : RustEnum} {tag content : Str}
    {st st' : Python.St} {u : Python.PyUnion}
    (h : Python.unionFacts E cfg e tag content st = .ok (u, st')) :
    Pointwise (fun (v : Id × List RustField) c => ∃ gens, Pointwise (PythonOK cfg gens) v.2 c.fields)
      (structVariants e) u.inner :=
  (Py.variant_fields h).imp fun _ _ ⟨gens, hg⟩ =>
    ⟨gens, hg.imp fun _ _ ⟨_, _, hf⟩ hk => Py.field hk hf⟩

/-- everything except the Scala class: all six clauses with the field clause restricted -/
theorem C04_all_but_known :
    ParseClause ∧
    (∀ (E : Ext) (B : LangCfg) (gens : List Str) (f : RustField), InScope gens f B →
      Known_scalaDefaultNonOption B f = false → FieldSpec E B gens f) ∧
    DoubleOptionClause ∧ OptionTypeClause ∧ PayloadClause ∧ AliasClause :=
  ⟨parseClause, C04_partial, doubleOptionClause, optionTypeClause, payloadClause, aliasClause⟩

/-! ## non-vacuity: concrete inputs meet the hypotheses of the theorems above -/

/-- `#[serde(rename = "x", default)] a: Box<Option<u32>>` — `default` merged with another argument,
`Option` under a smart pointer -/
def exSynField : Field :=
  { attrs := [⟨.list [s%"serde"] true [.nameValue [s%"rename"] (some (.str s%"x")), .path [s%"default"]]⟩],
    ident := some s%"a",
    ty := .path [] s%"Box" [.path [] s%"Option" [.path [] s%"u32" []]] }

example : bareDefault exSynField.attrs = true := by decide
/-- `default = "path"` is not the bare form -/
example : bareDefault [⟨.list [s%"serde"] true [.nameValue [s%"default"] (some (.str s%"path"))]⟩] = false := by
  decide
example : isOptionSyn exSynField.ty = true ∧ isDoubleOptionSyn exSynField.ty = false := by decide
example : isDoubleOptionSyn (.path [] s%"Option" [.reference (.path [] s%"Arc" [.path [] s%"Option" [.path [] s%"u8" []]])]) = true := by
  decide
/-- `parseClause` is not vacuous: the parser accepts the field, with both sources of optionality -/
example : ∃ rf, parseField asciiExt true none exSynField = .ok rf ∧ rf.hasDefault = true ∧
    rf.ty.isOptional = true := ⟨_, rfl, rfl, rfl⟩

/-- `a: Option<u32>` -/
def exOpt : RustField :=
  { id := ⟨s%"a", s%"a", false⟩, ty := .option (.prim .u32), comments := [], hasDefault := false, decorators := [] }
/-- `#[serde(default)] a: Vec<String>` -/
def exDef : RustField :=
  { id := ⟨s%"a", s%"a", false⟩, ty := .vec (.prim .string), comments := [], hasDefault := true, decorators := [] }
/-- `a: Option<Option<u32>>` -/
def exOptOpt : RustField :=
  { id := ⟨s%"a", s%"a", false⟩, ty := .option (.option (.prim .u32)), comments := [], hasDefault := false,
    decorators := [] }

def exGo : LangCfg := .go { package := s%"p", uppercaseAcronyms := [s%"id", s%"url"], noPointerSlice := true }

theorem exGo_sane : Go.SaneAcronyms { package := s%"p", uppercaseAcronyms := [s%"id", s%"url"], noPointerSlice := true } := by
  intro a ha c hc
  simp only [List.mem_cons, List.not_mem_nil, or_false] at ha hc
  rcases ha with rfl | rfl <;> rcases hc with rfl | rfl | rfl <;> decide

-- the scope predicate is met by ordinary fields in every back end
example : InScope [] exOpt (.typescript {}) := ⟨rfl, fun _ => rfl, trivial⟩
example : InScope [] exDef (.kotlin { package := s%"p" }) := ⟨rfl, trivial, trivial⟩
example : InScope [] exDef (.swift { pfx := s%"OP" }) := ⟨rfl, trivial, fun _ => trivial⟩
example : InScope [] exOpt (.scala { package := s%"p" }) := ⟨rfl, trivial, trivial⟩
example : InScope [] exOpt exGo :=
  ⟨rfl, fun _ => rfl, by
    show Go.SliceUnmapped _ _ ∧ Go.SaneAcronyms _
    exact ⟨fun r h => by simp [exOpt] at h, exGo_sane⟩⟩
example : InScope [] exDef (.python {}) := ⟨rfl, fun _ => rfl, trivial⟩
example : Known_scalaDefaultNonOption (.scala { package := s%"p" }) exOpt = false := rfl
example : Known_scalaDefaultNonOption witnessScala witnessField = true := rfl

-- … and the back ends do generate declarations for them (hypothesis `Declares` of `FieldSpec`)
example : Declares asciiExt [] exOpt (.typescript {}) true s%"number" := ⟨[], _, _, rfl, rfl, rfl⟩
example : Declares asciiExt [] exOptOpt (.typescript {}) true s%"number" := ⟨[], _, _, rfl, rfl, rfl⟩
example : Declares asciiExt [] exDef (.kotlin { package := s%"p" }) true s%"List<String>" :=
  ⟨false, false, _, rfl, by decide, by decide⟩
example : Declares asciiExt [] exOpt (.kotlin { package := s%"p" }) true s%"UInt" :=
  ⟨false, false, _, rfl, by decide, by decide⟩
example : Declares asciiExt [] exDef (.swift { pfx := s%"OP" }) true s%"[String]" :=
  ⟨false, _, _, rfl, by decide, by decide⟩
example : Declares asciiExt [] exOpt (.scala { package := s%"p" }) true s%"UInt" :=
  ⟨_, rfl, by decide, by decide⟩
example : Declares asciiExt [] exOpt exGo true s%"uint32" := ⟨[], _, _, rfl, by decide, by decide⟩
example : Declares asciiExt [] exDef (.python {}) true s%"List[str]" :=
  ⟨{}, _, _, rfl, rfl, Or.inl rfl⟩
/-- the double-option clause on a concrete field: `a?: number | null` -/
example : ∃ tf st', TypeScript.fieldFacts {} [] exOptOpt [] = .ok (tf, st') ∧ Ts.orNull tf = true ∧
    TypeScript.renderField tf = s%"\ta?: number | null;\n" := ⟨_, _, rfl, rfl, by decide⟩
/-- the option-type clause on concrete types -/
example : Translates asciiExt [] (.option (.prim .u32)) (.kotlin {}) s%"UInt?" := rfl
example : Translates asciiExt [] (.option (.vec (.prim .u8))) exGo s%"[]int" := ⟨[], _, _, rfl, rfl⟩

end TsV.C04
