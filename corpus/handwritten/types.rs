#[typeshare]
pub struct Types<'a, T: Clone, const N: usize> where T: Default {
    pub a: &'a str,
    pub b: [u8; 4usize],
    pub c: [T; 0x10],
    pub d: &'a [T],
    pub e: Box<Vec<Option<T>>>,
    pub f: std::collections::HashMap<String, Vec<T>>,
    pub g: Option<Box<Types<'a, T, N>>>,
    pub h: Cow<'a, str>,
    pub i: (),
    pub j: Rc<RefCell<Option<Arc<Mutex<i32>>>>>,
    pub k: <T as Iterator>::Item,
    pub l: Foo::<u8>::Bar,
    pub m: Other<Item = u8>,
    pub n: Vec<u8, Global>,
    pub o: HashMap<String, u8, RandomState>,
}
#[typeshare]
pub struct Bad1 { pub a: Box<dyn Fn()> }
#[typeshare]
pub struct Bad2 { pub a: fn(u8) -> u8 }
#[typeshare]
pub struct Bad3 { pub a: (u8) }
#[typeshare]
pub struct Bad4 { pub a: [u8; N] }
#[typeshare]
pub struct Bad5 { pub a: *const u8 }
#[typeshare]
pub struct Bad6 { pub a: impl Copy }
#[typeshare]
pub struct Bad7 { pub a: Vec<(u8, u8)> }
#[typeshare]
pub struct Bad8 { pub a: ! }
#[typeshare]
pub struct Bad9 { pub a: _ }
#[typeshare]
pub struct Bad10 { pub a: m!() }
#[typeshare]
pub struct Bad11 { pub a: [u8; 99999999999999999999999] }
