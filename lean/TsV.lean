import TsV.Model.Str
import TsV.Model.Sx
