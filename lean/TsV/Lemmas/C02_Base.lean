import TsV.Props.C16
import TsV.Props.C03
import TsV.Props.C08
import TsV.Model.Lang.Common
/-!
# C02 — shared definitions: serde's variant name, what an emitted enum says on the wire, templates

*Specification side* (`Serde.variantName?`), the record every back end's output is read into
(`EnumWire`: one `WireCase` per emitted case plus every place a tag / content key is printed), the
template machinery for the synthesised Swift / Go codecs (`Seg`, `flat`, `holesOf`), and the
string / list lemmas the per-language files share.
-/
namespace TsV.C02
open TsV TsV.Str TsV.Syn TsV.Parser TsV.Serde TsV.RenameLemmas

/-! ## specification: the name serde gives a variant -/

/-- `some a` for a result, `none` where serde_derive itself fails (a compile error of the user's crate) -/
def okVal? {α} : Outcome α → Option α
  | .ok a => some a
  | _ => none

/-- **serde's wire name of a variant**: `#[serde(rename = "k")]` on the variant if present (the first
one in attribute order; the literal's value as `Parser.serdeRename` reads it, i.e. trimmed — the
identity on the rename alphabet, `trim_id`); otherwise the container's `rename_all` rule applied to
the identifier by `RenameRule::apply_to_variant` when the rule is one of serde's eight; otherwise
the identifier. -/
def variantName? (E : Ext) (renameAll : Option Str) (v : Variant) : Option Str :=
  match serdeRename E v.attrs with
  | some k => some k
  | none =>
    match renameAll.bind Rule.ofStr with
    | some rule => okVal? (applyVariant E.U rule v.ident)
    | none => some v.ident

/-- the rename alphabet `[A-Za-z0-9_-]` -/
def keyChar (c : Char) : Bool := alnum c || c == '_' || c == '-'

/-- `str::trim` is the identity on strings without white space (in particular on the rename alphabet
for any `U` whose `isWhite` is ASCII-correct) -/
theorem trim_id (U : UnicodeOps) (s : Str) (h : ∀ c ∈ s, U.isWhite c = false) : U.trim s = s := by
  have h1 : ∀ (l : Str), (∀ c ∈ l, U.isWhite c = false) → l.dropWhile U.isWhite = l := by
    intro l hl
    cases l with
    | nil => rfl
    | cons a t => simp [List.dropWhile, hl a (by simp)]
  unfold UnicodeOps.trim
  rw [h1 s h, h1 s.reverse (by intro c hc; exact h c (by simpa using hc))]
  simp

/-! ## what an emitted enum says on the wire -/

/-- one case on the foreign side -/
structure WireCase where
  /-- the identifier the case declares in the target language (`none`: the case has no name of its
  own — a TypeScript union member is identified by its tag literal) -/
  caseId : Option Str
  /-- the string the case is (de)serialised as, per the binding semantics of the language
  (`none`: no such string can be read off the declaration) -/
  wire : Option Str
deriving Repr, DecidableEq

inductive Role where
  | tag | content
deriving Repr, DecidableEq

/-- everything the output for one enum says about its wire encoding -/
structure EnumWire where
  /-- the emitted cases in emission order -/
  cases : List WireCase
  /-- every place the output prints a tag / content key, with the (unquoted) text printed there -/
  holes : List (Role × Str)
deriving Repr, DecidableEq

/-- wire names: one case per variant, same order, each under `id.renamed` -/
def EnumWire.Names (e : RustEnum) (w : EnumWire) : Prop :=
  w.cases.map (·.wire) = e.variants.map fun v => some v.id.renamed

/-- each variant has a case *of its own*: the identifiers the cases declare are pairwise distinct -/
def EnumWire.Distinct (w : EnumWire) : Prop := (w.cases.filterMap (·.caseId)).Nodup

/-- every printed key is the right one; a unit enum prints none -/
def EnumWire.Keys (e : RustEnum) (w : EnumWire) : Prop :=
  match e.keys with
  | none => w.holes = []
  | some (tag, content) => ∀ h ∈ w.holes, h = (.tag, tag) ∨ h = (.content, content)

/-- **the property on one back end's output for one enum** -/
structure EnumWire.Correct (e : RustEnum) (w : EnumWire) : Prop where
  names : w.Names e
  distinct : w.Distinct
  keys : w.Keys e

instance (e : RustEnum) (w : EnumWire) : Decidable (w.Names e) := by unfold EnumWire.Names; infer_instance
instance (w : EnumWire) : Decidable w.Distinct := by unfold EnumWire.Distinct; infer_instance
instance (e : RustEnum) (w : EnumWire) : Decidable (w.Keys e) := by
  unfold EnumWire.Keys
  cases e.keys with
  | none => infer_instance
  | some p => exact List.decidableBAll _ _
instance (e : RustEnum) (w : EnumWire) : Decidable (w.Correct e) :=
  if h : w.Names e ∧ w.Distinct ∧ w.Keys e then .isTrue ⟨h.1, h.2.1, h.2.2⟩
  else .isFalse fun c => h ⟨c.names, c.distinct, c.keys⟩

/-- the scope of the back-end half: the property's quantifier on a parsed enum -/
structure InScopeEnum (e : RustEnum) : Prop where
  /-- variant identifiers are UpperCamelCase (`TsV.C16.UpperCamel`) -/
  camel : ∀ v ∈ e.variants, C16.UpperCamel v.id.original
  /-- … and pairwise distinct (rustc rejects anything else) -/
  distinct : (e.variants.map (·.id.original)).Nodup

/-! ## templates: literal segments and key holes -/

/-- how a hole prints its value -/
inductive Quote where
  | raw      -- verbatim
  | debug    -- Rust `{:?}`: a double-quoted string literal with escapes
deriving Repr, DecidableEq

def Quote.render : Quote → Str → Str
  | .raw, v => v
  | .debug, v => Lang.debugStr v

inductive Seg where
  | lit (s : Str)
  | hole (r : Role) (q : Quote) (v : Str)
deriving Repr, DecidableEq

def Seg.text : Seg → Str
  | .lit s => s
  | .hole _ q v => q.render v

/-- the text a template denotes -/
def flat (l : List Seg) : Str := l.flatMap Seg.text

/-- the holes of a template, in order -/
def holesOf (l : List Seg) : List (Role × Str) :=
  l.filterMap fun s => match s with
    | .hole r _ v => some (r, v)
    | .lit _ => none

@[simp] theorem flat_nil : flat [] = [] := rfl
@[simp] theorem flat_cons (s : Seg) (l : List Seg) : flat (s :: l) = s.text ++ flat l := rfl
@[simp] theorem flat_append (a b : List Seg) : flat (a ++ b) = flat a ++ flat b := by
  simp [flat]
theorem flat_flatMap {α} (l : List α) (f : α → List Seg) :
    flat (l.flatMap f) = l.flatMap fun x => flat (f x) := by
  induction l with
  | nil => rfl
  | cons a t ih => simp [List.flatMap_cons, ih]

@[simp] theorem holesOf_nil : holesOf [] = [] := rfl
@[simp] theorem holesOf_lit (s : Str) (l : List Seg) : holesOf (.lit s :: l) = holesOf l := rfl
@[simp] theorem holesOf_hole (r q v) (l : List Seg) : holesOf (.hole r q v :: l) = (r, v) :: holesOf l := rfl
@[simp] theorem holesOf_append (a b : List Seg) : holesOf (a ++ b) = holesOf a ++ holesOf b := by
  simp [holesOf]
theorem holesOf_flatMap {α} (l : List α) (f : α → List Seg) :
    holesOf (l.flatMap f) = l.flatMap fun x => holesOf (f x) := by
  induction l with
  | nil => rfl
  | cons a t ih => simp [List.flatMap_cons, ih]

/-- on strings without `"`, `\` and control characters `{:?}` just adds the quotes — so a `debug`
hole prints exactly the key between double quotes on the property's key alphabet -/
def plainChar (c : Char) : Bool := !(c = '"' || c = '\\' || c.toNat < 32 || c.toNat = 127)

theorem debugStr_plain (s : Str) (h : ∀ c ∈ s, plainChar c = true) :
    Lang.debugStr s = ['"'] ++ s ++ ['"'] := by
  have : s.flatMap (fun c =>
      if c = '"' then ['\\', '"'] else if c = '\\' then ['\\', '\\']
      else if c = '\n' then ['\\', 'n'] else if c = '\r' then ['\\', 'r']
      else if c = '\t' then ['\\', 't'] else if c.toNat = 0 then ['\\', '0']
      else if c.toNat < 32 || c.toNat = 127 then s%"\\u{" ++ Lang.hexOf c.toNat ++ s%"}"
      else [c]) = s := by
    induction s with
    | nil => rfl
    | cons a t ih =>
      have ha := h a (by simp)
      simp only [plainChar, Bool.not_eq_true', Bool.or_eq_false_iff, decide_eq_false_iff_not] at ha
      obtain ⟨⟨⟨h1, h2⟩, h3⟩, h4⟩ := ha
      have hn : a ≠ '\n' := by rintro rfl; exact h3 (by decide)
      have hr : a ≠ '\r' := by rintro rfl; exact h3 (by decide)
      have ht : a ≠ '\t' := by rintro rfl; exact h3 (by decide)
      have h0 : a.toNat ≠ 0 := by omega
      simp only [List.flatMap_cons, h1, h2, hn, hr, ht, h0, h3, h4, if_false, Bool.or_self, Bool.false_eq_true,
        decide_false]
      rw [ih (fun c hc => h c (by simp [hc]))]
      rfl
  unfold Lang.debugStr
  rw [this]

/-! ## list lemmas -/

theorem nodup_map_on {α β} (f : α → β) : ∀ (l : List α), l.Nodup →
    (∀ a ∈ l, ∀ b ∈ l, f a = f b → a = b) → (l.map f).Nodup
  | [], _, _ => List.nodup_nil
  | a :: t, hn, hinj => by
    rw [List.nodup_cons] at hn
    rw [List.map_cons, List.nodup_cons]
    refine ⟨?_, nodup_map_on f t hn.2 fun x hx y hy => hinj x (by simp [hx]) y (by simp [hy])⟩
    intro hmem
    obtain ⟨b, hb, hfb⟩ := List.mem_map.1 hmem
    have := hinj b (by simp [hb]) a (by simp) hfb
    subst this
    exact hn.1 hb

theorem nodup_of_map {α β} (f : α → β) (l : List α) (h : (l.map f).Nodup) : l.Nodup := by
  induction l with
  | nil => exact List.nodup_nil
  | cons a t ih =>
    rw [List.map_cons, List.nodup_cons] at h
    rw [List.nodup_cons]
    exact ⟨fun ha => h.1 (List.mem_map.2 ⟨a, ha, rfl⟩), ih h.2⟩

/-- a successful `mapM'` maps element-wise; the relation may use membership -/
theorem mapM'_map_mem {α β γ} (f : α → Outcome β) (P : β → γ) (Q : α → γ) : ∀ (l : List α) (r : List β),
    (∀ a ∈ l, ∀ b, f a = .ok b → P b = Q a) → Outcome.mapM' f l = .ok r → r.map P = l.map Q := by
  intro l
  induction l with
  | nil => intro r _ hr; simp [Outcome.mapM'] at hr; subst hr; rfl
  | cons a t ih =>
    intro r h hr
    simp only [Outcome.mapM'] at hr
    cases hfa : f a with
    | ok b =>
      rw [hfa] at hr
      cases ht : Outcome.mapM' f t with
      | ok bs =>
        rw [ht] at hr; simp at hr; subst hr
        simp [h a (by simp) b hfa, ih bs (fun x hx => h x (by simp [hx])) ht]
      | err e => rw [ht] at hr; simp at hr
      | panic s => rw [ht] at hr; simp at hr
    | err e => rw [hfa] at hr; simp at hr
    | panic s => rw [hfa] at hr; simp at hr

/-! ## UpperCamelCase identifiers -/

theorem upper_notDigit (c : Char) (h : isAsciiUpper c = true) : isAsciiDigit c = false := by
  unfold isAsciiUpper at h; split at h <;> first | decide | simp at h
theorem upper_notLower (c : Char) (h : isAsciiUpper c = true) : isAsciiLower c = false := by
  unfold isAsciiUpper at h; split at h <;> first | decide | simp at h
theorem upper_lower_upper (c : Char) (h : isAsciiUpper c = true) : asciiUpper (asciiLower c) = c := by
  unfold isAsciiUpper at h; split at h <;> first | decide | simp at h
theorem upper_lower_isLower (c : Char) (h : isAsciiUpper c = true) : isAsciiLower (asciiLower c) = true := by
  unfold isAsciiUpper at h; split at h <;> first | decide | simp at h
theorem lower_ne_tick (c : Char) (h : isAsciiLower c = true) : c ≠ '`' := by
  unfold isAsciiLower at h; split at h <;> first | decide | simp at h
theorem alnum_ne_hash (c : Char) (h : alnum c = true) : c ≠ '#' := by
  simp only [alnum, Bool.or_eq_true] at h
  rcases h with (h | h) | h
  · unfold isAsciiLower at h; split at h <;> first | decide | simp at h
  · unfold isAsciiUpper at h; split at h <;> first | decide | simp at h
  · unfold isAsciiDigit at h; split at h <;> first | decide | simp at h

theorem upperCamel_alnum (s : Str) (h : C16.UpperCamel s) : ∀ c ∈ s, alnum c = true := by
  obtain ⟨c, rest, rfl, hc, hrest, _⟩ := h
  intro x hx
  simp only [List.mem_cons] at hx
  rcases hx with rfl | hx
  · simp [alnum, hc]
  · exact hrest x hx

/-- `to_pascal_case` leaves an UpperCamelCase identifier alone -/
theorem toPascal_upperCamel (U : UnicodeOps) (hU : U.AsciiCorrect) (s : Str) (h : C16.UpperCamel s) :
    Rename.toPascal U s = s := by
  obtain ⟨c, rest, rfl, hc, hrest, hshape⟩ := h
  have hflag : Rename.isAllUpper U (c :: rest) = true → ∀ x ∈ rest, isAsciiDigit x = true := by
    intro hf
    rcases hshape with ⟨x, hx, hl⟩ | hd
    · rw [isAllUpper_asciiLower U hU (c :: rest) x (by simp [hx]) hl] at hf
      exact absurd hf (by decide)
    · exact hd
  unfold Rename.toPascal
  simp only [Rename.pascalGo, upper_ne_us c hc, if_false, if_true, upper_upperId c hc]
  congr 1
  apply pascalGo_id
  intro x hx
  exact ⟨alnum_ne_us x (hrest x hx), fun hf => digit_lowerId x (hflag hf x hx)⟩

/-- `to_camel_case` lower-cases the initial of an UpperCamelCase identifier and nothing else -/
theorem toCamel_upperCamel (U : UnicodeOps) (hU : U.AsciiCorrect) (c : Char) (rest : Str)
    (h : C16.UpperCamel (c :: rest)) :
    Rename.toCamel U (c :: rest) = asciiLower c :: rest := by
  unfold Rename.toCamel
  rw [toPascal_upperCamel U hU _ h]
  rfl

theorem upperCamel_head (s : Str) (h : C16.UpperCamel s) : ∃ c rest, s = c :: rest ∧ isAsciiUpper c = true := by
  obtain ⟨c, rest, rfl, hc, _, _⟩ := h
  exact ⟨c, rest, rfl, hc⟩

/-- `to_camel_case` is injective on UpperCamelCase identifiers -/
theorem toCamel_inj (U : UnicodeOps) (hU : U.AsciiCorrect) (a b : Str) (ha : C16.UpperCamel a)
    (hb : C16.UpperCamel b) (h : Rename.toCamel U a = Rename.toCamel U b) : a = b := by
  obtain ⟨c, r, rfl, hc⟩ := upperCamel_head a ha
  obtain ⟨d, t, rfl, hd⟩ := upperCamel_head b hb
  rw [toCamel_upperCamel U hU c r ha, toCamel_upperCamel U hU d t hb] at h
  simp only [List.cons.injEq] at h
  have : c = d := by
    rw [← upper_lower_upper c hc, ← upper_lower_upper d hd, h.1]
  rw [this, h.2]

/-- `str::replace("r#", "")` does nothing to a string without `#` -/
theorem replaceSub_go_id (pat rep : Str) (hp : '#' ∈ pat) : ∀ (fuel : Nat) (s : Str), '#' ∉ s →
    replaceSub.go pat rep fuel s = s := by
  have hsw : ∀ (s : Str), '#' ∉ s → startsWith s pat = false := by
    intro s
    induction s generalizing pat with
    | nil =>
      intro _
      cases pat with
      | nil => simp at hp
      | cons b p => rfl
    | cons a t ih =>
      intro hs
      cases pat with
      | nil => simp at hp
      | cons b p =>
        simp only [startsWith, Bool.and_eq_false_imp, beq_iff_eq]
        intro hab
        subst hab
        have ha : a ≠ '#' := fun h => hs (by simp [h])
        have hp' : '#' ∈ p := by
          simp only [List.mem_cons] at hp
          rcases hp with h | h
          · exact absurd h.symm ha
          · exact h
        exact ih p hp' (fun h => hs (by simp [h]))
  intro fuel
  induction fuel with
  | zero => intro s _; cases s <;> rfl
  | succ n ih =>
    intro s hs
    cases s with
    | nil => rfl
    | cons c t =>
      simp only [replaceSub.go, hsw (c :: t) hs, Bool.false_eq_true, if_false]
      rw [ih t (fun h => hs (by simp [h]))]

theorem unraw_upperCamel (s : Str) (h : C16.UpperCamel s) : replaceSub s s%"r#" [] = s := by
  unfold replaceSub
  simp only [List.isEmpty_cons, Bool.false_eq_true, if_false]
  apply replaceSub_go_id _ _ (by decide)
  intro hm
  exact alnum_ne_hash '#' (upperCamel_alnum s h '#' hm) rfl

end TsV.C02
