"""C14 — multi-file mode partitions types by crate and imports cross-crate references."""
import re
from common import *
from syn_gen import *
from gen import Gen, TYPE_WORDS
import l2
from c11 import DEF_RX

NEEDS = ("runner", "cli")
DEF_RX = dict(DEF_RX, scala=r"^\s*(?:case class|class|sealed trait|type) (\w+)")
# incl. workspace crates whose names merely *start* like a crate the import collector ignores (time, http, std, serde …)
CRATES = ["alpha", "beta-x", "gamma_y", "delta", "eps-i-lon", "time-series", "http_api", "std_ext", "serde-models",
          # directory names with dots (namespaced / versioned): the part after the last dot is not a file extension
          "acme.core", "acme.net", "shapes-0.3.1",
          # letter case is part of the name (legal, if unconventional)
          "coreTypes", "apiV2"]


def ascii_upper(s):
    return "".join(chr(ord(ch) - 32) if "a" <= ch <= "z" else ch for ch in s)


def ascii_lower(s):
    return "".join(chr(ord(ch) + 32) if "A" <= ch <= "Z" else ch for ch in s)


def file_name(lang, crate):
    c = crate.replace("-", "_")
    if lang == "swift":
        # RenameExt::to_pascal_case on the crate name: its case operations are the ASCII ones (`ärger_core` -> `ärgerCore`); "all
        # capitals" (the tail is lower-cased) = no lowercase letter of any script (rename.rs: is_all_uppercase)
        allcaps = rust_all_uppercase(c)
        out, cap = "", True
        for ch in c:
            if ch == "_":
                cap = True
            elif cap:
                out += ascii_upper(ch)
                cap = False
            else:
                out += ascii_lower(ch) if allcaps else ch
        return out + ".swift"
    return c + "." + EXT[lang]


STYLE_TICK = [0]
CONST_CRATE = [False]
PARAM_TICK = [0]


FORCED = {"use": 0.2, "use-group": 0.5, "glob": 0.6, "as": 0.7, "use-reexport": 0.8, "qualified-in-generic": 0.9}


# ----------------------------------------------------------------------------- field-level type overrides
# what a member may be written as instead of its Rust type, per language (none of the texts contains a generated type name)
OVERRIDE_TEXT = {"swift": ["Date", "Decimal", "UInt64"], "kotlin": ["java.time.Instant", "java.math.BigDecimal", "ULong"],
                 "typescript": ["Date", "string", "Record<string, unknown>", "bigint"], "scala": ["java.time.Instant", "BigDecimal"],
                 "go": ["time.Time", "uint64"], "python": ["datetime", "Decimal"]}
OVERRIDE_TICK = [0]


def overridden_member(rng, f, oc, w, alone):
    """Appends to the file `f` an item with one member of the cross-crate type `w` that carries field-level decorators:
    `#[typeshare(<lang>(type = ".."))]` for one to three of the six languages (or for none: `typescript(readonly)` alone, which
    overrides nothing), in one attribute or in one attribute per language, `readonly` inside or beside the TypeScript override;
    the member is a field of a struct or of a struct variant, first / last / between plain members, its type `w` alone or
    wrapped (Option, Vec, map value).  Returns the item's name and a description."""
    OVERRIDE_TICK[0] += 1
    t = OVERRIDE_TICK[0]
    # which languages override: the import-writing ones and the others come round regularly
    pick = [["swift"], ["kotlin"], ["typescript"], ["swift", "scala"], [], ["go", "python"], ["swift", "kotlin"], ["typescript", "swift"],
            ["scala"], ["kotlin", "typescript", "swift"], ["python"], ["go"]]
    langs = list(pick[t % len(pick)]) if rng.random() < 0.75 else rng.sample(sorted(OVERRIDE_TEXT), rng.randint(1, 3))
    readonly = not langs or rng.random() < 0.3
    texts = {L: rng.choice(OVERRIDE_TEXT[L]) for L in langs}
    lists = []
    for L in langs:
        args = [m_nv("type", lit_s(texts[L]))]
        if L == "typescript" and readonly:
            args.insert(rng.randint(0, 1), m_path("readonly"))
        lists.append(m_list(L, args))
    if readonly and "typescript" not in langs:
        lists.append(m_list("typescript", [m_path("readonly")]))
    rng.shuffle(lists)
    attrs = [m_list("typeshare", lists)] if len(lists) == 1 or rng.random() < 0.5 else [m_list("typeshare", [l]) for l in lists]
    shape_name, shape = rng.choice([("plain", t_path(w))] * 3 + [("Option", t_path("Option", [t_path(w)])), ("Vec", t_path("Vec", [t_path(w)])),
                                                                  ("map value", t_path("HashMap", [t_path("String"), t_path(w)]))])
    members = [field([], "seq", t_path("u32")), field([], "note", t_path("String"))][:rng.randint(0, 2)]
    members.insert(rng.randint(0, len(members)), field(attrs, "held", shape))
    k = len(f["items"])
    name = "Over%d%s" % (k, w)
    where = "struct" if t % 2 else "struct variant"
    if where == "struct":
        f["items"].append({"kind": "struct", "attrs": [m_path("typeshare")], "ident": name, "generics": [], "fields": ("named", members)})
    else:
        variants = [{"attrs": [], "ident": "Filled", "fields": ("named", members)}, {"attrs": [], "ident": "Blank", "fields": ("unit",)}]
        rng.shuffle(variants)
        f["items"].append({"kind": "enum", "attrs": [m_path("typeshare"), m_list("serde", [m_nv("tag", lit_s("type")), m_nv("content", lit_s("content"))])],
                           "ident": name, "generics": [], "variants": variants})
    return name, dict(item=name, where=where, langs=sorted(langs), texts=texts, readonly=readonly, shape=shape_name, alone=alone,
                      attributes="".join(render_attr_any(a) for a in attrs).strip())


def make_workspace(rng, ncrates, force=None, names=None, overrides=False):
    """`overrides`: every cross-crate type gets, in the file that refers to it, one member with field-level type overrides
    (`overridden_member`) - as the only mention of the type in that file, or next to the mentions the generator / the holder make.
    `names`: None (ASCII crate names from CRATES, ASCII type words) or a function ncrates -> (crate names, 3 * ncrates type names)
    (the Unicode part draws both from alphabets with non-ASCII first and inner letters)"""
    if names:
        crates, words = names(ncrates)
    else:
        crates = rng.sample(CRATES, ncrates)
        pool = TYPE_WORDS + [w + "Two" for w in TYPE_WORDS]
        words = rng.sample(pool, 3 * ncrates)
    owned = {c: rng.sample(words[3 * i:3 * i + 3], rng.randint(1, 3)) for i, c in enumerate(crates)}   # the types each crate generates
    files, g = [], Gen(rng, p_serialized_as=0.0, p_decorators=0.0, p_cfg=0.0, p_const=0.0, p_mod=0.1, p_noise=0.1,
                       p_rename=0.15, p_generic=0.1)
    imports_truth = {}
    for c in crates:
        # a directory name with a dot cannot be written as a crate path in a `use` item: such crates are never referred to
        others = [(oc, w) for oc in crates if oc != c and "." not in oc for w in owned[oc]]
        ext = rng.sample(others, min(len(others), rng.randint(1 if force or overrides else 0, 2)))
        mine = owned[c]
        # overrides: the types whose overridden member is to be the only mention in this file are kept from the generator
        alone = {w for _, w in ext if rng.random() < 0.6} if overrides else set()
        f = g.file(names=mine, extern_types=[w for _, w in ext if w not in alone])
        style, written = {}, {}          # written: the crate name the source names the type's crate by (a re-export: a third crate)
        for oc, w in ext:
            # every reference style comes round regularly (a rotating counter, jittered), whatever the other random choices were
            STYLE_TICK[0] += 1
            r = ((STYLE_TICK[0] * 0.137) % 1.0) if rng.random() < 0.7 else rng.random()
            if force:
                r = FORCED[force]
            ocn = oc.replace("-", "_")
            written[w] = ocn
            if r < 0.4:
                f["items"].insert(0, {"kind": "use", "tree": ("upath", ocn, ("uname", w))})
                style[w] = "use"
            elif r < 0.55:
                # a brace list that mixes the type with leaves the collector rejects (a function, a module, `self`, an ignored name,
                # a nested path), in any order: the type may come first, last or in the middle
                extra = rng.sample([("uname", "describe"), ("uname", "self"), ("uname", "Option"), ("uname", "helper_mod"),
                                    ("upath", "sub", ("uname", "Unrelated")), ("upath", "sub", ("ugroup", [("uname", "a_fn"), ("uname", "Deep")]))],
                                   rng.randint(1, 3))
                members = [("uname", w)] + extra
                rng.shuffle(members)
                f["items"].insert(0, {"kind": "use", "tree": ("upath", ocn, ("ugroup", members))})
                style[w] = "use-group"
            elif r < 0.65:
                f["items"].insert(0, {"kind": "use", "tree": ("upath", ocn, ("uglob",))})
                style[w] = "glob"
            elif r < 0.72:
                f["items"].insert(0, {"kind": "use", "tree": ("upath", ocn, ("urename", w, w))})
                style[w] = "as"
            elif r < 0.84 and len(crates) >= 3:
                # through a re-export: named via a third crate that generates a module of its own but does not define the type
                vias = [x for x in crates if x not in (c, oc) and "." not in x]
                if not vias:
                    style[w] = "none"
                    continue
                via = rng.choice(vias).replace("-", "_")
                written[w] = via
                f["items"].insert(0, {"kind": "use", "tree": ("upath", via, ("uname", w))})
                style[w] = "use-reexport"
            elif r < 0.92:
                # no `use` at all: the type is named by a qualified path *inside the generic arguments* of a type that is itself
                # named by a qualified path (`crate::LocalWrapN<other_crate::T>`)
                k = len(f["items"])
                lw = "LocalWrap%d" % k
                f["items"].append({"kind": "struct", "attrs": [m_path("typeshare")], "ident": lw, "generics": [("ty", "T")],
                                   "fields": ("named", [field([], "inner", t_path("T"))])})
                f["items"].append({"kind": "struct", "attrs": [m_path("typeshare")], "ident": "QualUser%d" % k, "generics": [],
                                   "fields": ("named", [field([], "q", t_path(lw, [t_path(w, quals=[ocn])], quals=["crate"]))])})
                mine = mine + [lw, "QualUser%d" % k]
                alone.discard(w)          # this style is itself a mention outside the `use` items
                style[w] = "qualified-in-generic"
            else:
                style[w] = "none"
        # every cross-crate type is mentioned at least once outside the `use` items; when the generator did not pick it, a holder
        # struct mentions it once only, in a random position (alone, wrapped, or as the first of two generic arguments)
        body = "\n".join(l for l in render_file(f).split("\n") if not l.lstrip().startswith("use "))
        for j, (oc, w) in enumerate(ext):
            if style.get(w) in ("qualified-in-generic", "none") or w in alone or re.search(r"\b%s\b" % re.escape(w), body):
                continue
            shape = rng.choice([t_path(w), t_path("Vec", [t_path(w)]), t_path("HashMap", [t_path(w), t_path("u8")]),
                                t_path("HashMap", [t_path(w), t_path("Vec", [t_path("String")])]),
                                t_path("Option", [t_path("HashMap", [t_path("Vec", [t_path(w)]), t_path("bool")])])])
            hn = "Holder%d%s" % (j, w)
            f["items"].append({"kind": "struct", "attrs": [m_path("typeshare")], "ident": hn, "generics": [],
                               "fields": ("named", [field([], "held", shape)])})
            mine = mine + [hn]
        # names are only names: another item of the same file may call one of its *generic parameters* like an imported type
        # (`struct Page<Item> { items: Vec<Item> }` next to `struct Cart { first: Item }`) - the import the other items need stays
        PARAM_TICK[0] += 1
        if ext and (force or PARAM_TICK[0] % 3 == 0):
            oc, w = ext[PARAM_TICK[0] % len(ext)]
            if style.get(w) in ("use", "use-group", "as", "glob", "use-reexport") and w not in alone:
                k = len(f["items"])
                f["items"].append({"kind": "struct", "attrs": [m_path("typeshare")], "ident": "Page%d" % k, "generics": [("ty", w)],
                                   "fields": ("named", [field([], "items", t_path("Vec", [t_path(w)])), field([], "total", t_path("u32"))])})
                mine = mine + ["Page%d" % k]
        over = {}
        if overrides:
            for oc, w in ext:
                nm, over[w] = overridden_member(rng, f, oc, w, w in alone)
                mine = mine + [nm]
        sub = rng.choice(["", "models/", "a/b/"])
        # the crate is the directory above the *last* `src` component: some crates live under another crate's `src`
        top = c if rng.random() < 0.75 else "outer%d/src/%s" % (len(files), c)
        files.append(dict(crate=c, rel="%s/src/%slib.rs" % (top, sub), file=f, owned=mine, ext=ext, style=style, written=written, over=over))
        imports_truth[c] = ext
    if CONST_CRATE[0]:
        # a crate whose only shared items are constants (the back ends that write constants give it a module of its own)
        cf = {"attrs": [], "items": [{"kind": "const", "attrs": [m_path("typeshare")], "ident": nm, "ty": t_path(ty), "expr_text": ex, "init": init}
                                     for nm, ty, ex, init in (("MAX_FRAME_BYTES", "u32", "65536", ("i", 65536, "")), ("MAX_NAME_LEN", "u8", "64", ("i", 64, "")))]}
        files.append(dict(crate="wire-limits", rel="wire-limits/src/lib.rs", file=cf, owned=[], ext=[], style={}, written={}, over={}))
        crates = crates + ["wire-limits"]
    return crates, files, g


def item_renamed(files, crate, name):
    """does the item `name` of `crate` carry serde(rename)?"""
    def walk(items):
        for it in items:
            if it["kind"] in ("mod", "other"):
                r = walk(it["items"])
                if r is not None:
                    return r
            elif it.get("ident") == name and it["kind"] != "use":
                return any(a[0] == "l" and a[1] == ["serde"] and a[2] and any(x[0] == "nv" and x[1] == ["rename"] for x in a[3])
                           for a in it.get("attrs", []))
        return None
    for f in files:
        if f["crate"] == crate:
            return bool(walk(f["file"]["items"]))
    return False


def uses_of(text, names):
    return {n for n in names if re.search(r"\b%s\b" % re.escape(n), text)}


def replay_file_collision(check):
    """the witness of TsV.C14.C14_file_names_not_full on the real binary: two crates whose names have one PascalCase form share one
    Swift file; the module written second replaces the first (open finding swift-module-file-collision)"""
    with Scratch() as sc:
        sc.write("ws/SharedModels/src/lib.rs", "#[typeshare]\npub struct FromCamelCrate { pub a: u8 }\n")
        sc.write("ws/shared_models/src/lib.rs", "#[typeshare]\npub struct FromSnakeCrate { pub b: u8 }\n")
        res = {}
        for lang in ("swift", "typescript"):
            r = run_cli(["--lang", lang, "-d", sc.path("out_" + lang), sc.path("ws")], cwd=sc.dir)
            files = sorted(os.listdir(sc.path("out_" + lang))) if os.path.isdir(sc.path("out_" + lang)) else []
            text = "".join(open(os.path.join(sc.path("out_" + lang), f), encoding="utf-8").read() for f in files)
            res[lang] = (r["rc"], files, "FromCamelCrate" in text, "FromSnakeCrate" in text)
    check.saw(("file-collision-witness",), nontrivial=True)
    rc, files, a, b = res["swift"]
    if rc == 0 and not (a and b):
        if not check.known("swift-module-file-collision", {"crates": ["SharedModels", "shared_models"], "swift_files": files,
                                                           "FromCamelCrate_written": a, "FromSnakeCrate_written": b}):
            check.violation("swift -d: the crates `SharedModels` and `shared_models` are written to one file (%s): a type of one of them is "
                            "in no file" % files, case={"crates": ["SharedModels", "shared_models"]}, impl={"files": files}, failing_input=True)
    rc, files, a, b = res["typescript"]
    if rc == 0 and not (a and b and len(files) == 2):
        check.violation("typescript -d: the crates `SharedModels` and `shared_models` do not get one file each: %s" % files,
                        case={"crates": ["SharedModels", "shared_models"]}, impl={"files": files}, failing_input=True)


def replay_round13_findings(check):
    """two findings of round 13 on the real binary (both recorded as open): (i) a crate called `codable` and Swift's shared helper file
    `Codable.swift` have one path - the helper, written last, replaces the module, the crate's types are in no file; (ii) the crate name
    is read off the path *as spelled*: run from inside the crate (`typeshare . -d out`, `typeshare src -d out`) the directory above `src`
    is not in the spelled path, and the types land in a file called `..ts` or in no file at all"""
    with Scratch() as sc:
        sc.write("ws/app/src/lib.rs", "#[typeshare]\npub struct Ack { pub nothing: () }\n")
        sc.write("ws/codable/src/lib.rs", "#[typeshare]\npub struct Payload { pub id: u32 }\n")
        r = run_cli(["--lang", "swift", "-d", sc.path("out"), sc.path("ws")], cwd=sc.dir)
        files = {f: open(os.path.join(sc.path("out"), f), encoding="utf-8").read() for f in sorted(os.listdir(sc.path("out")))} \
            if os.path.isdir(sc.path("out")) else {}
    check.saw(("helper-file-replaces-module-witness",), nontrivial=True)
    if r["rc"] == 0 and not any("Payload" in t for t in files.values()):
        wit = {"crates": ["app (uses `()`)", "codable"], "files_written": sorted(files), "Payload_defined_in": None}
        if not check.known("swift-helper-file-replaces-module", wit):
            check.violation("swift -d: the struct `Payload` of crate `codable` is in no output file (files: %s; exit 0)" % sorted(files),
                            case=wit, impl={"files": files}, failing_input=True)
    for args, cwd_rel in ((["."], "ws/alpha"), (["src"], "ws/alpha"), (["."], "ws/alpha/src")):
        with Scratch() as sc:
            sc.write("ws/alpha/src/lib.rs", "#[typeshare]\npub struct InAlpha { pub a: u8 }\n")
            r = run_cli(["--lang", "typescript", "-d", sc.path("out")] + args, cwd=sc.path(cwd_rel))
            files = sorted(os.listdir(sc.path("out"))) if os.path.isdir(sc.path("out")) else []
        check.saw(("spelled-path-witness", cwd_rel, args[0]), nontrivial=True)
        if r["rc"] == 0 and files != ["alpha.ts"]:
            wit = {"working_directory": cwd_rel, "arguments": args, "files_written": files, "expected": ["alpha.ts"]}
            if not check.known("crate-name-from-spelled-path", wit):
                check.violation("typescript -d, `typeshare %s -d out` run in %s: the type of crate `alpha` is written to %s, not to alpha.ts"
                                % (args[0], cwd_rel, files or "no file"), case=wit, impl={"files": files, "stderr": r["err"][-500:]}, failing_input=True)
                return


# ----------------------------------------------------------------------------- names beyond ASCII
# Rust identifiers are Unicode (XID_Start XID_Continue*), and a crate is whatever directory lies above `src`.  The first letters
# below are grouped by what char::is_uppercase / char::is_lowercase say about them; the check does not trust the grouping: the
# facts are asked from Rust std through the runner (`unicode_table`) and every oracle decision goes through `initial_is`.
UPPER, LOWER = 1, 2                      # columns of a unicode_table row
U_UPPER = "ÄÉØŽÇΩΣГДŁİǄⅧ𝐀"            # Latin-1, Latin Extended, Greek, Cyrillic, dotted İ, the digraph Ǆ, Other_Uppercase (Ⅷ), 4 bytes (𝐀)
U_LOWER = "äéøžçωσгдłßıŉªǆ"              # … sharp s, dotless ı, ŉ, Other_Lowercase (ª), the digraph ǆ
U_CASELESS = "型名한कאǅ"                  # CJK, Hangul, Devanagari, Hebrew: letters without case; ǅ is title case (neither upper nor lower)
# what follows the first letter: ASCII, non-ASCII lower and upper case, caseless letters, ß / ı, digits
TYPE_TAILS = ["rger", "tage", "mega", "ород", "ße", "ıld", "名前", "Ünit", "çÇ", "x2", "llé", "ωΩ", "한글", "Ǆǆ", "ºª", "dÄ"]
CRATE_TAILS = ["rger", "tage-x", "mega_y", "ород", "ßen", "ıldız", "名", "-ünit", "Core", "_Étage", "x2-ω", "-型-z", "é", "한_a"]
UFACTS = {}


def learn_chars(text):
    new = {ch for ch in text if ord(ch) > 127 and ch not in UFACTS}
    for row in unicode_table(new):
        UFACTS[row[0]] = row


def initial_is(name, what):
    """char::is_uppercase (what=UPPER) / is_lowercase (LOWER) of the first character of `name`, as Rust std answers"""
    ch = name[0]
    if ord(ch) < 128:
        return "A" <= ch <= "Z" if what == UPPER else "a" <= ch <= "z"
    if ch not in UFACTS:
        learn_chars(ch)
    return bool(UFACTS[ch][what])


def initial_class(name):
    a = "ASCII " if ord(name[0]) < 128 else "non-ASCII "
    return a + ("upper-case" if initial_is(name, UPPER) else "lower-case" if initial_is(name, LOWER) else "without case")


def unicode_names(rng, in_scope_only):
    """a drawer of crate (directory) names and type names: first letter from one of the classes, then a tail with non-ASCII inner
    letters.  in_scope_only: only crates with a lower-case and types with an upper-case first letter (every reference then is one
    the completeness clause speaks about); otherwise all classes are mixed."""
    def draw(ncr):
        crates, words = [], []
        while len(crates) < ncr:
            r = rng.random()
            if r < 0.55 or (in_scope_only and r < 0.75):
                c = rng.choice(U_LOWER) + rng.choice(CRATE_TAILS)
            elif r < 0.75 or in_scope_only:
                c = rng.choice([x for x in CRATES if "." not in x])
                if rng.random() < 0.5:
                    c += rng.choice(CRATE_TAILS)
            elif r < 0.88:
                c = rng.choice(U_CASELESS) + rng.choice(CRATE_TAILS)
            else:
                c = rng.choice(U_UPPER + "SM") + rng.choice(CRATE_TAILS)
            # one module file per crate: no two names with the same snake / Pascal form (the open finding swift-module-file-collision)
            if all(file_name("swift", c).lower() != file_name("swift", x).lower() for x in crates):
                crates.append(c)
        while len(words) < 3 * ncr:
            r = rng.random()
            if r < 0.5 or (in_scope_only and r < 0.7):
                t = rng.choice(U_UPPER) + rng.choice(TYPE_TAILS)
            elif r < 0.7 or in_scope_only:
                t = rng.choice("ABDEGKMQRWXZ") + rng.choice(TYPE_TAILS)
            elif r < 0.88:
                t = rng.choice(U_CASELESS) + rng.choice(TYPE_TAILS)
            else:
                t = rng.choice(U_LOWER + "qz") + rng.choice(TYPE_TAILS)
            if t not in words and t not in crates:
                words.append(t)
        learn_chars("".join(crates + words))
        return crates, words
    return draw


def unicode_names_part(check):
    """Dimension: the *alphabet of names*.  Workspaces as in the main loop (2-5 crates, every reference style of the generator:
    `use`, grouped `use`, glob, `use … as`, re-export through a third crate, qualified path inside generic arguments; holders,
    generic parameters named like an import, nested crates, roots below `src`), but crate directories and type names are drawn
    from alphabets with non-ASCII first and inner letters: upper-case initials from Latin-1 to 4-byte code points, lower-case
    crate initials (ß, dotless ı, ª), letters without case (CJK, Hangul, Hebrew, the title-case digraph ǅ), mixed with ASCII names.
    Demands, on the files the binary wrote: one file per crate, named after the directory (dashes as underscores, Swift: the
    ASCII-only PascalCase of to_pascal_case); definitions in the owner's file and equal to single-file mode; every import sound;
    and every type used in a file but defined in another generated file is imported from that file whenever the reference is one
    in the sense of the statement - the crate name written in the source starts with a lower-case letter and the type name with an
    upper-case letter *by Unicode* (char::is_lowercase / is_uppercase, facts taken from Rust std), or a glob names the crate.
    References outside that (a type or crate whose first letter has no case, a lower-case type, an upper-case crate) are counted
    with what the tool did.  The first workspaces are one per (TypeScript / Kotlin, reference style) with in-scope names only.
    Then the model on the same workspace, byte for byte (it takes the Unicode facts of exactly these characters)."""
    rng = check.rng
    rounds, nws = (6, 240) if check.thorough else (2, 40)      # the styles twice at least: a workspace may fail to generate (unsupported types)
    forced = [(L, st) for st in FORCED for L in ("typescript", "kotlin")] * rounds
    learn_chars(U_UPPER + U_LOWER + U_CASELESS + "".join(TYPE_TAILS + CRATE_TAILS))
    for ch in U_UPPER + U_LOWER + U_CASELESS:
        check.count("unicode names: first letters in the alphabet, %s by Rust std" % initial_class(ch))
    for w in range(-len(forced), nws):
        if w < 0:
            lang, force = forced[w]
            ncr = rng.randint(3, 4)
        else:
            # the languages that write imports twice as often as the others (partition and file names are checked for all six)
            lang, force = (LANGS + ["typescript", "kotlin"])[w % 8], None
            ncr = rng.randint(2, 5)
        # w * 3 + 1: no constants-only crate here (the main loop has it)
        if workspace_case(check, w * 3 + 1, lang, force, ncr, draw_names=unicode_names(rng, in_scope_only=w < 0), label="unicode names: "):
            return True
    return False


# ----------------------------------------------------------------------------- how the inputs are named on the command line
def rust_components(p):
    """`Path::iter()` of Rust std on Unix: the root `/`, a leading `.`, every `..` and every name; repeated and trailing
    slashes and every `.` after the first component vanish"""
    parts = p.split("/")
    out = ["/"] if p.startswith("/") else []
    for i, x in enumerate(parts):
        if x == "" or (x == "." and (i > 0 or p.startswith("/"))):
            continue
        out.append(x)
    return out


def crate_by_rule(comps):
    """the statement's rule on the components of a path: the directory above the last `src`, dashes as underscores"""
    idx = max((k for k, c in enumerate(comps) if c == "src"), default=None)
    return comps[idx - 1].replace("-", "_") if idx is not None and idx >= 1 else None


SPELLINGS = ["absolute", "relative", "./relative", "trailing slash", "doubled slash", "inner /./", "detour d/../d", "absolute with a detour d/../d"]
LEVELS = ["the workspace root", "a directory between the root and the crate directory", "the crate directory", "the crate's src directory",
          "a directory below src", "the source file itself"]
WORKDIRS = ["the parent of the workspace root", "the workspace root", "an unrelated directory", "a crate directory", "a crate's src directory",
            "a directory below a crate's src"]
NAMING_TICK = [0]


def spell(rng, target, cwd, is_dir, kind):
    """one way to write the absolute path `target` on a command line run in the directory `cwd`"""
    def detour(path, first):
        comps = path.split("/")
        # a directory name of the path (not `..`, not the file name) is followed by `/../<the same name>`
        at = [i for i, c in enumerate(comps) if i >= first and c not in ("", ".", "..") and (is_dir or i < len(comps) - 1)]
        # seldom at a `src` directory itself: `c/src/../src/lib.rs` has `..` above its last `src` (no crate directory in that path)
        if rng.random() < 0.85 and any(comps[i] != "src" for i in at):
            at = [i for i in at if comps[i] != "src"]
        if not at:
            return path
        i = rng.choice(at)
        return "/".join(comps[:i + 1] + ["..", comps[i]] + comps[i + 1:])
    rel = os.path.relpath(target, cwd)
    if kind == "absolute":
        return target
    if kind == "absolute with a detour d/../d":
        # the detour lies inside the scratch directory (what is above it is not ours to name)
        return detour(target, len(cwd.split("/")) - 1 if target.startswith(cwd + "/") else len(target.split("/")) - 2)
    if rel == ".":
        return rng.choice([".", "./"])
    if kind == "./relative":
        return "./" + rel
    if kind == "trailing slash" and is_dir:
        return rel + rng.choice(["/", "/", "//", "/."])
    if kind in ("doubled slash", "inner /./") and "/" in rel:
        cuts = [i for i, ch in enumerate(rel) if ch == "/"]
        i = rng.choice(cuts)
        return rel[:i] + ("//" if kind == "doubled slash" else "/./") + rel[i + 1:]
    if kind == "detour d/../d":
        return detour(rel, 0)
    return rel


def name_inputs(force_level=None, force_spelling=None, force_workdir=None, partial=False):
    """A drawer of invocations for a workspace already written below `scratch`/`root`: for every source file one of its
    ancestors (or the file itself) is chosen as the thing to name - the workspace root, a directory between root and crate, the
    crate directory, its `src` directory, a directory below `src`, the file; inputs that lie below another input are dropped
    (no file is reached twice), the rest is shuffled; `partial`: the files of some crates are left out.  Every input is then
    spelled in one of SPELLINGS relative to a working directory from WORKDIRS.  The result says, per source file, the path the
    walker gets for it (the spelled input plus the way down) and sorts the files into `demanded` (that path has the crate
    directory above its last `src`), `loose` (it has not: `src/lib.rs` from inside the crate, `./lib.rs`, `..` or `.` above `src`)
    and `unnamed` (below no input)."""
    def draw(rng, sc, root, files):
        NAMING_TICK[0] += 1
        tick = NAMING_TICK[0]
        rootp = sc.path(root)
        counts = []
        chosen = [f for f in files]
        if partial and len(files) >= 2:
            chosen = rng.sample(files, rng.randint(1, len(files) - 1))
        targets = {}                        # absolute path -> (is_dir, level)
        for f in chosen:
            comps = f["rel"].split("/")
            last_src = max(i for i, c in enumerate(comps) if c == "src")
            # ancestors of the file inside the workspace, by what they are for this file
            # (the number of components of the file's path that are kept: 0 = the root, last_src = …/<crate>, all = the file)
            by_level = {"the workspace root": [0], "a directory between the root and the crate directory": list(range(1, last_src)),
                        "the crate directory": [last_src], "the crate's src directory": [last_src + 1],
                        "a directory below src": list(range(last_src + 2, len(comps))), "the source file itself": [len(comps)]}
            if force_level:
                level = force_level if by_level[force_level] else "the crate's src directory"
            else:
                # every level comes round regularly, the root seldom (it swallows every other input)
                r = (tick * 0.61803 + rng.random() * 0.5 + 0.37 * len(targets)) % 1.0
                level = LEVELS[min(5, int(r * 5.4 + 0.6))] if r > 0.06 else LEVELS[0]
                if not by_level[level]:
                    level = rng.choice(["the crate directory", "the crate's src directory", "the source file itself"])
            keep = rng.choice(by_level[level])
            targets[os.path.join(rootp, *comps[:keep]) if keep else rootp] = (keep < len(comps), level)
        # no input below another one
        tl = [t for t in targets if not any(t != o and t.startswith(o + "/") for o in targets)]
        rng.shuffle(tl)
        # the working directory
        wd = force_workdir or (WORKDIRS[tick % len(WORKDIRS)] if rng.random() < 0.5 else rng.choice(WORKDIRS[:3]))
        some = rng.choice(files)["rel"].split("/")
        ls = max(i for i, c in enumerate(some) if c == "src")
        if wd == "a directory below a crate's src" and len(some) - ls < 3:
            wd = "a crate's src directory"
        cwd = {"the parent of the workspace root": sc.dir, "the workspace root": rootp, "an unrelated directory": sc.path("elsewhere/deep"),
               "a crate directory": os.path.join(rootp, *some[:ls]), "a crate's src directory": os.path.join(rootp, *some[:ls + 1]),
               "a directory below a crate's src": os.path.join(rootp, *some[:ls + 2])}[wd]
        os.makedirs(cwd, exist_ok=True)
        counts.append("working directory: " + wd)
        counts.append("number of inputs: %d" % len(tl))
        args, explained = [], []
        for t in tl:
            is_dir, level = targets[t]
            kind = force_spelling or (SPELLINGS[(tick + len(args)) % len(SPELLINGS)] if rng.random() < 0.6 else rng.choice(SPELLINGS))
            a = spell(rng, t, cwd, is_dir, kind)
            assert os.path.realpath(os.path.join(cwd, a)) == os.path.realpath(t), (cwd, a, t)
            args.append(a)
            explained.append({"input": a.replace(sc.dir, "T"), "is": level, "spelling": kind, "names": os.path.relpath(t, sc.dir)})
            counts.append("input is " + level)
            counts.append("input spelled: " + kind)
        if len({targets[t][1] for t in tl}) > 1:
            counts.append("inputs of different levels together")
        # per source file: the path the walker gets
        spelled, all_comps, demanded, loose, unnamed, why = {}, {}, [], [], [], {}
        for f in files:
            fp = os.path.join(rootp, f["rel"])
            hit = [(t, a) for t, a in zip(tl, args) if fp == t or fp.startswith(t + "/")]
            if not hit:
                unnamed.append(f)
                continue
            t, a = hit[0]
            sp = a if fp == t else a.rstrip("/") + "/" + os.path.relpath(fp, t)
            spelled[f["rel"]] = sp.replace(sc.dir, "T") if sp.startswith("/") else sp
            comps = all_comps[f["rel"]] = rust_components(sp)
            c = crate_by_rule(comps)
            if c == f["crate"].replace("-", "_"):
                demanded.append(f)
            else:
                loose.append(f)
                why[f["rel"]] = "no `src` component" if "src" not in comps else "nothing above `src`" if c is None else "`%s` above `src`" % c
        counts += ["source file reached with its crate directory in the spelled path"] * len(demanded)
        counts += ["source file reached without a crate directory in the spelled path"] * len(loose)
        counts += ["source file below no input"] * len(unnamed)
        shown_cwd = cwd.replace(sc.dir, "T")
        shown_args = [a.replace(sc.dir, "T") for a in args]
        return dict(args=args, cwd=cwd, demanded=demanded, loose=loose, unnamed=unnamed, loose_why=why, spelled=spelled, comps=all_comps, counts=counts,
                    shown_cwd=shown_cwd, shown_args=shown_args, shown="cd %s; %s" % (shown_cwd, " ".join(shown_args)), explained=explained)
    return draw


def input_naming_part(check):
    """Dimension: *how the inputs are named on the command line* in folder-output mode.  Workspaces as in the main loop (2-5
    crates, source files at depth 0-2 under `src`, crates nested under another crate's `src`, workspace roots below a directory
    called `src`, every reference style), but instead of the absolute path of the workspace root the command line names, for every
    source file, one of: the workspace root, a directory between root and crate, the crate directory, the crate's `src` directory,
    a directory below `src`, the file itself - several inputs of different levels together, in shuffled order, some crates left out
    altogether - each spelled absolutely, relatively, with `./`, a trailing slash, a doubled slash, an inner `/./` or a detour
    `d/../d`, from the parent of the root, the root, an unrelated directory, a crate directory, a `src` directory or below (then
    relative spellings climb with `..`).  The first invocations are one per (level, language) and one per (spelling, working
    directory) pair.
    Demands, judged on the files the binary wrote: every source file that an input names or lies above, and whose path *as the
    walker gets it* (the spelled input plus the way down) has its crate directory above the last `src`, is written to the file
    named after that crate and nowhere else; one file per such crate and no other file; files below no input contribute
    nothing; the definitions equal what single-file mode (-o) writes for the same inputs from the same directory; imports (TS,
    Kotlin) sound and complete among the crates that were named.  Files whose spelled path has no crate directory (`src/lib.rs`
    seen from inside the crate, `./lib.rs`, `.`/`..` right above `src`) are counted with what the tool did.  Then the model on
    the same files with the crate name its find_crate_name gives for the spelled path, byte for byte."""
    rng = check.rng
    rounds, nws = (3, 400) if check.thorough else (1, 36)
    forced = []
    for _ in range(rounds):
        for i, lv in enumerate(LEVELS):
            for L in (LANGS[i % 6], "typescript"):
                forced.append((L, dict(force_level=lv)))
        for i, sp in enumerate(SPELLINGS):
            forced.append((LANGS[(i + 1) % 6], dict(force_spelling=sp, force_workdir=WORKDIRS[i % len(WORKDIRS)])))
            forced.append((("kotlin", "typescript")[i % 2], dict(force_spelling=sp, force_workdir=WORKDIRS[(i + 3) % len(WORKDIRS)])))
    for w in range(-len(forced), nws):
        if w < 0:
            lang, kw = forced[w]
            ncr = rng.randint(2, 4)
        else:
            lang, kw = (LANGS + ["typescript", "kotlin"])[w % 8], dict(partial=w % 3 == 0)
            ncr = rng.randint(1, 5)
        # w * 3 + 1: no constants-only crate here (the main loop has it)
        if workspace_case(check, w * 3 + 1, lang, "use" if w < 0 and w % 2 else None, ncr, label="input naming: ", naming=name_inputs(**kw)):
            return True
    return False


def field_override_part(check):
    """Dimension: *field-level type overrides* on members whose type comes from another crate (the generator of the other parts
    writes no field decorators).  Workspaces as in the main loop (2-5 crates, reference styles `use`, grouped `use`, glob, `use … as`,
    re-export, qualified path; nested crates, roots below `src`), and for every cross-crate type the referring file has one more
    item with a member of that type - a field of a struct or of a struct variant, plain or inside Option / Vec / a map, first,
    last or between plain members - that carries `#[typeshare(<lang>(type = ".."))]` for one to three of swift, kotlin,
    typescript, scala, go, python (one attribute or one per language), with or without `readonly`, or `typescript(readonly)`
    alone (no override at all); this member is the only mention of the type in the file, or stands next to the mentions the
    generator and the holder structs make.  Folder output for TypeScript and Kotlin mostly, the other four languages now and then.
    Demands C14's oracles on the files the binary wrote, the import clause judged per generated language on that output: a type
    whose name is written in a module (the member is not overridden *for this language*, or something else mentions the type)
    and which another generated module defines is imported from that module; a member overridden for the generated language is
    written with the override text and demands nothing; every import names a type its module defines; definitions as in
    single-file mode, in the owner's file.  Then the model on the same workspace, byte for byte.  The first workspaces are one
    per (TypeScript / Kotlin, reference style)."""
    rng = check.rng
    rounds, nws = (3, 150) if check.thorough else (1, 22)
    forced = [(L, st) for st in ("use", "use-group", "glob", "use-reexport") for L in ("typescript", "kotlin")] * rounds
    for w in range(-len(forced), nws):
        if w < 0:
            lang, force = forced[w]
            ncr = rng.randint(3, 4)
        else:
            lang, force = (["typescript", "kotlin"] * 3 + LANGS)[w % 12], None
            ncr = rng.randint(2, 5)
        # w * 3 + 1: no constants-only crate here (the main loop has it)
        if workspace_case(check, w * 3 + 1, lang, force, ncr, label="field type overrides: ", overrides=True):
            return True
    return False


def workspace_case(check, w, lang, force, ncr, draw_names=None, label="", naming=None, overrides=False):
    """one generated workspace through the real binary (-d and -o) and the model; all of C14's oracles.  Returns True when a
    violation was reported (the caller stops).  `naming`: None (the absolute path of the workspace root is the only input, the
    working directory is its parent) or a function (rng, scratch, root, files) -> invocation (see `name_inputs`): which
    directories / files are named on the command line, how they are spelled and from which working directory."""
    rng = check.rng
    CONST_CRATE[0] = lang in ("typescript", "go", "python") and w % 3 == 0
    crates, files, g = make_workspace(rng, ncr, force, draw_names, overrides=overrides)
    if CONST_CRATE[0]:
        check.count("workspace-with-const-only-crate")
    # the workspace itself may be checked out below a directory called `src` (~/src/project/…)
    root = rng.choice(["ws", "ws", "src/ws", "code/src/proj"])
    with Scratch() as sc:
        for f in files:
            sc.write(root + "/" + f["rel"], render_file(f["file"]))
        if "src" not in root.split("/"):
            sc.write(root + "/not_a_crate/readme.rs", "#[typeshare]\npub struct Orphan { pub a: u8 }\n")   # no `src` above: belongs to no crate
        inv = naming(rng, sc, root, files) if naming else None
        inputs, cwd = (inv["args"], inv["cwd"]) if inv else ([sc.path(root)], sc.dir)
        r = run_cli(["--lang", lang, "-d", sc.path("out")] + lang_args(lang) + inputs, cwd=cwd)
        r1 = run_cli(["--lang", lang, "-o", sc.path("single." + EXT[lang])] + lang_args(lang) + inputs, cwd=cwd)
        outs = {}
        if os.path.isdir(sc.path("out")):
            for fn in sorted(os.listdir(sc.path("out"))):
                outs[fn] = open(os.path.join(sc.path("out"), fn), encoding="utf-8").read()
        single = open(sc.path("single." + EXT[lang]), encoding="utf-8").read() if os.path.exists(sc.path("single." + EXT[lang])) else None
    # with a `naming`: the oracles below speak about the files the command line names and whose path - as spelled there - has
    # the crate directory above its last `src` (`files` from here on); the others are judged after them
    all_files, loose, unnamed = files, [], []
    if inv:
        files, loose, unnamed = inv["demanded"], inv["loose"], inv["unnamed"]
        for k in inv["counts"]:
            check.count(label + k)
    named_crates = {f["crate"] for f in files}
    cross = sum(1 for f in files for oc, _ in f["ext"] if oc in named_crates)
    check.saw((lang, json.dumps([f["rel"] for f in files]), label, w, inv["shown"] if inv else ""), nontrivial=len(files) >= 2 and cross > 0 if inv else ncr >= 2 and cross > 0)
    check.count("%s%s crates=%d" % (label, lang, ncr))
    check.count("%slayout root=%s nested=%d" % (label, root, sum(1 for f in files if f["rel"].startswith("outer"))))
    if r["rc"] != 0:
        # generation-time errors (e.g. OffsetDateTime in Kotlin/Swift/Scala, generics in Go) are not C14's business
        check.count("generation-error")
        if inv and r1["rc"] == 0:
            check.count(label + "folder mode fails where single-file mode succeeds on the same inputs: " + (r["err"].strip().split("\n") or [""])[-1][:80])
        return False
    problem = None
    expected_files = {file_name(lang, f["crate"]) for f in files}
    got_files = {fn for fn in outs if fn != "Codable.swift"}
    all_defs = {fn: [next(x for x in (d if isinstance(d, tuple) else (d,)) if x) for d in re.findall(DEF_RX[lang], outs[fn], re.M)] for fn in got_files}
    if loose:
        # files whose spelled path names no crate directory (`src/lib.rs`, `./lib.rs`; `.` or `..` above `src`): what the tool does
        # with them is counted, not demanded - a file that holds nothing but their types is set aside
        loose_names = {o for f in loose for o in f["owned"]}
        other_names = {o for f in files + unnamed for o in f["owned"]} - loose_names
        for f in loose:
            elsewhere = {o for x in all_files if x is not f for o in x["owned"]}      # helper names (LocalWrap2 …) may repeat between crates
            at = sorted(fn for fn in got_files if any(d in f["owned"] and d not in elsewhere for d in all_defs[fn]))
            check.count("%sno crate directory in the spelled path (%s): types written to %s" % (
                label, inv["loose_why"][f["rel"]], "no file" if not at else "the file of the crate" if at == [file_name(lang, f["crate"])] else "a file called " + ", ".join(at)))
        got_files = {fn for fn in got_files if fn in expected_files or any(d in other_names for d in all_defs[fn])}
    if got_files != expected_files:
        problem = "files written %s, expected one per crate: %s" % (sorted(got_files), sorted(expected_files))
        if inv and single is not None and r1["rc"] == 0:
            ds = [next(x for x in (d if isinstance(d, tuple) else (d,)) if x) for d in re.findall(DEF_RX[lang], single, re.M)]
            problem += " (exit status 0; single-file mode on the same inputs defines %s)" % ", ".join(ds)
    defs_multi = []
    if not problem:
        for f in files:
            text = outs[file_name(lang, f["crate"])]
            defs = [m for m in re.findall(DEF_RX[lang], text, re.M)]
            defs = [next(x for x in (d if isinstance(d, tuple) else (d,)) if x) for d in defs]
            defs_multi += defs
            # every definition of this file belongs to an item of this crate (original or renamed name, helper `…Inner`)
            own = set(f["owned"])
            foreign = [oc for oc in files if oc is not f]
            for d in defs:
                if any(d == o for of in foreign for o in of["owned"]) and d not in own:
                    problem = "%s defines %s, which belongs to another crate" % (file_name(lang, f["crate"]), d)
            # imports (TS / Kotlin): sound, and complete outside the known classes
            if lang in ("typescript", "kotlin") and not problem:
                if lang == "typescript":
                    imps = [(m.group(2), [x.strip() for x in m.group(1).split(",")]) for m in re.finditer(r'^import \{ (.*) \} from "\./(\w+)";', text, re.M)]
                else:
                    imps = {}
                    for m in re.finditer(r"^import com\.example\.(\w+)\.(\w+)", text, re.M):
                        imps.setdefault(m.group(1), []).append(m.group(2))
                    imps = list(imps.items())
                for mod, names in imps:
                    src = [of for of in files if of["crate"].replace("-", "_") == mod]
                    if not src or mod == f["crate"].replace("-", "_"):
                        problem = "import from %r, which is not another generated module" % mod
                        continue
                    other_text = outs[file_name(lang, src[0]["crate"])]
                    if lang == "kotlin":
                        pk = re.search(r"^package (\S+)$", other_text, re.M)
                        if pk and pk.group(1) != "com.example." + mod:
                            problem = "import from package com.example.%s, but the module of that crate declares `package %s`" % (mod, pk.group(1))
                    for n in names:
                        if not re.search(r"\b%s\b" % re.escape(n), other_text):
                            problem = "import of %s from %s, which does not define it" % (n, mod)
                imported = {n for _, names in imps for n in names}
                for oc, wname in f["ext"]:
                    if oc not in named_crates:
                        continue          # the crate of that type is not among the inputs: no module to import from
                    used = re.search(r"[:<\[( |]%s\b" % re.escape(wname), text) is not None
                    ov = f["over"].get(wname)
                    if ov:
                        # the expectation per generated language is read off the output: a member overridden for this language is
                        # written with the override text (the type is then used only if something else mentions it), any other
                        # member with the name of its Rust type - and then the import is demanded below like for any other use
                        written = re.search(r"[:<\[( |]%s\b" % re.escape(wname), "\n".join(l for l in text.split("\n") if not l.startswith("import "))) is not None
                        check.count("%soverridden member's type inside: %s" % (label, ov["shape"]))
                        check.count("%smember of a %s overridden for %s, %s: type name %s outside the import lines, %s" % (
                            label, ov["where"], "the generated language" + (" and others" if len(ov["langs"]) > 1 else "") if lang in ov["langs"]
                            else "other languages only" if ov["langs"] else "no language (`readonly` alone)",
                            "the only mention of the type" if ov["alone"] else "next to other mentions",
                            "written" if written else "not written", "imported" if wname in imported else "not imported"))
                        if ov["readonly"]:
                            check.count(label + "member with `readonly`")
                    if draw_names and used and f["style"][wname] != "none":
                        check.count("%sreference: type initial %s, crate initial %s: %s" % (
                            label, initial_class(wname), initial_class(f["written"][wname]), "imported" if wname in imported else "not imported"))
                    if used and wname not in imported:
                        st = f["style"][wname]
                        if st == "none":
                            continue      # a reference without any `use` or qualification names no crate: out of scope
                        # what a reference is (Lean: `all_references` / `acceptType`, `CrateInScope` / `acceptCrate`): the crate name written
                        # in the source starts with a lower-case letter and - unless a glob brings the whole crate in - the type name
                        # with an upper-case letter, by char::is_lowercase / is_uppercase (Unicode, not ASCII: `Ärger`, `Ωmega` are type
                        # names and `ärger_core` a crate name; `型録`, `ǅem` (title case), `ärger` are not type names)
                        if not initial_is(f["written"][wname], LOWER):
                            check.count("out of scope: the crate name written in the source does not start with a lower-case letter")
                            continue
                        if st != "glob" and not initial_is(wname, UPPER):
                            check.count("out of scope: the type name does not start with an upper-case letter (%s)" % initial_class(wname))
                            continue
                        src_text = render_file(f["file"])
                        use_crates = [m.group(1) for m in re.finditer(r"^\s*use (\w+)::.*\b%s\b" % re.escape(wname), src_text, re.M)]
                        if re.search(r"\b(?:self|crate|super)::(?:\w+::)*%s\b" % re.escape(wname), src_text) \
                                and all(f["crate"].replace("-", "_") < uc for uc in use_crates):
                            # `self::T` (or `super::m::T`) next to `use other::T;` records a second import of T, from the current crate;
                            # find_type keeps the one whose crate name is smallest (deterministic since the C06 fix "resolve a type name
                            # imported from several crates the same way in every run"; Lean: reconcile_keeps_smallest).  When that is the
                            # current crate nothing is imported: a name imported from two crates is outside the scope of the completeness
                            # claim (C14.inScope).  When the other crate is the smaller one the import is expected like any other.
                            check.count("out of scope: qualified self/crate/super path next to a use, current crate name smaller")
                            continue
                        # completeness is claimed only for plain / grouped `use` of un-renamed types
                        kid = {"as": "use-as-ignored"}.get(st)
                        if kid is None and item_renamed(files, oc, wname):
                            kid = "renamed-type-not-imported"
                        if kid and check.known(kid, {"lang": lang, "file": f["rel"], "type": wname, "style": st}):
                            continue
                        problem = "%s uses %s (defined in crate %s, written to %s; referenced by `%s`) without importing it; its import lines: %s" % (
                            file_name(lang, f["crate"]), wname, oc, file_name(lang, oc), st,
                            [l for l in text.split("\n") if l.startswith("import ") and "kotlinx" not in l] or "none")
                        if ov:
                            problem += "; %s is mentioned %s by the member `held` of the %s of `%s`, which carries `%s` (%s)" % (
                                wname, "only" if ov["alone"] else "among others", ov["where"], ov["item"], ov["attributes"],
                                "an override for %s, not for %s" % (", ".join(ov["langs"]), lang) if ov["langs"] and lang not in ov["langs"]
                                else "no type override at all" if not ov["langs"] else "an override for " + ", ".join(ov["langs"]))
    if not problem and unnamed:
        # a source file that no input names (or lies above) contributes nothing
        named_words = {o for f in files + loose for o in f["owned"]}
        for f in unnamed:
            for o in f["owned"]:
                at = sorted(fn for fn, ds in all_defs.items() if o in ds)
                if o not in named_words and at:
                    problem = "%s defines %s, a type of %s, which none of the inputs names" % (", ".join(at), o, f["rel"])
    if loose and not problem:
        check.count(label + "comparison with single-file mode and with the model left out: an input without a crate directory in its spelled path")
    if not problem and single is not None and r1["rc"] == 0 and not loose:
        ds = re.findall(DEF_RX[lang], single, re.M)
        ds = [next(x for x in (d if isinstance(d, tuple) else (d,)) if x) for d in ds]
        # the program's own types (under their original or serde-renamed names, helper types included):
        # the same ones must be defined in both modes (back-end helper aliases such as Scala's UByte aside)
        own_words = {w for f in files for w in f["owned"]} | {"Renamed", "OtherName", "New"}
        mine = lambda defs: sorted(d for d in defs if any(w in d for w in own_words))
        if mine(ds) != mine(defs_multi):
            problem = "multi-file mode defines %s, single-file mode %s" % (mine(defs_multi), mine(ds))
        # helper definitions that single-file mode appends (Swift's CodableVoid) must exist somewhere in the folder too
        if not problem and lang == "swift":
            one = "public struct CodableVoid" in single
            many = any("public struct CodableVoid" in t for t in outs.values())
            used = any(re.search(r"\bCodableVoid\b", t) for fn, t in outs.items() if fn != "Codable.swift")
            if one != many or (used and not many):
                problem = ("single-file mode %s `CodableVoid`, the folder %s it (files: %s)%s"
                           % ("defines" if one else "does not define", "defines" if many else "does not define", sorted(outs),
                              "; a module refers to it" if used else ""))
    if problem and inv:
        check.violation("%s%s -d, inputs named `%s` from %s: %s" % (label, lang, " ".join(inv["shown_args"]), inv["shown_cwd"], problem),
                        case={"lang": lang, "root": root, "files": {f["rel"]: render_file(f["file"]) for f in all_files},
                              "T": "the directory the files are written under (`root` is relative to it)",
                              "command": "cd %s && typeshare --lang %s -d T/out %s %s" % (inv["shown_cwd"], lang, " ".join(lang_args(lang)), " ".join(inv["shown_args"])),
                              "single_file_command": "cd %s && typeshare --lang %s -o T/single.%s %s %s" % (inv["shown_cwd"], lang, EXT[lang], " ".join(lang_args(lang)), " ".join(inv["shown_args"])),
                              "inputs": inv["explained"],
                              "expected": {f["rel"]: file_name(lang, f["crate"]) for f in files},
                              "folder_run": {"rc": r["rc"], "stderr": r["err"][-600:]}},
                        impl=outs, failing_input=True)
        return True
    if problem:
        check.violation("%s%s -d: %s" % (label, lang, problem),
                        case={"lang": lang, "root": root, "files": {f["rel"]: render_file(f["file"]) for f in files},
                              "command": "typeshare --lang %s -d out %s %s" % (lang, " ".join(lang_args(lang)), root)},
                        impl=outs, failing_input=True)
        return True
    # the tie: pipeline + back-end model on the same workspace
    jobs = [{"crate": f["crate"].replace("-", "_"), "file_name": file_name(lang, f["crate"]), "file": f["file"],
             "path": inv["spelled"][f["rel"]] if inv else root + "/" + f["rel"]} for f in files]
    cfg = {"package": "proto" if lang == "go" else "com.example", "version_header": True, "type_mappings": {}}
    names = set().union(*[l2.names_of(f["file"]) for f in files])
    mreq, _, _ = l2.requests(lang, cfg, jobs, g, multi_file=True)
    # with a `naming`: first the model's find_crate_name on the components of every path as the walker gets it (the files that
    # are only counted too); the crate names the generate request carries are the ones the rule gives for those paths
    asked = [(f, inv["comps"][f["rel"]], any(f is x for x in files)) for f in files + loose] if inv else []
    answers = model([[S("crate-name"), comps, S(lang)] for _, comps, _ in asked] + ([] if loose else [mreq]), names=names if lang == "python" else None)
    for (f, comps, dem), a in zip(asked, answers):
        want = crate_by_rule(comps)
        if a.get("ok") != want or (dem and a.get("file") != file_name(lang, f["crate"])):
            check.violation("find_crate_name on the path `%s` as spelled on the command line: the model answers %s, the rule (the "
                            "directory above the last `src` component, dashes as underscores) gives %r%s"
                            % (inv["spelled"][f["rel"]], json.dumps(a, ensure_ascii=False), want, ", file " + file_name(lang, f["crate"]) if dem else ""),
                            case={"components": comps, "lang": lang}, model=a, failing_input=False,
                            broken="correspondence L0 find_crate_name (theorem TsV.C14.findCrateName_spec) on spelled input paths")
            return True
    if loose:
        return False
    ma = answers[-1]
    if draw_names or overrides:
        check.count("%smodel %s" % (label, "run on the same workspace" if "ok" in ma else "gives no text: %s" % json.dumps(l2.norm(ma))[:80]))
    if "ok" in ma:
        mtexts = {k: v for k, v in ma["ok"].items()}
        itexts = {f["crate"].replace("-", "_"): outs[file_name(lang, f["crate"])] for f in files}
        if "Codable.swift" in outs:
            itexts["<post>/Codable.swift"] = outs["Codable.swift"]
        if mtexts != itexts:
            k = next((k for k in set(mtexts) | set(itexts) if mtexts.get(k) != itexts.get(k)))
            check.violation("the binary's %s output for module %s differs from the model's: %s" % (
                lang, k, l2.text_diff(mtexts.get(k, ""), itexts.get(k, ""))),
                case={"lang": lang, "files": {f["rel"]: render_file(f["file"]) for f in files}},
                impl=itexts, model=mtexts, failing_input=False,
                broken="correspondence L3 multi-file pipeline (theorems TsV.C14.*)")
            return True
    if len(check.samples) < 3 and ncr >= 2:
        check.sample({"lang": lang, "sources": [f["rel"] for f in files], "files_written": sorted(outs)})
    return False

def run(check):
    rng = check.rng
    nws = 240 if check.thorough else 42
    check.rule = ("generated workspaces of 1-5 crates (names with dashes and underscores), one file per crate at depth 0-2 under "
                  "src, disjoint type names, cross-crate references introduced by `use c::T`, grouped/nested use, glob, `use … as`, "
                  "or not at all, some types serde-renamed; the real binary with -d for all six languages: set of files written, "
                  "definitions per file vs the crate that owns them, same definitions as single-file mode, import statements (TS, "
                  "Kotlin) sound and - outside the known classes - complete; generated text byte-exact against the pipeline + "
                  "back-end models; non-trivial = at least two crates and one cross-crate reference; the same with crate directories and "
                  "type names beyond ASCII (upper-case, lower-case and caseless first letters by Rust's char::is_uppercase / "
                  "is_lowercase, non-ASCII inner letters), every reference style; the same with the inputs named on the command line "
                  "in other ways than by the absolute path of the workspace root: per source file the root, a directory above the crate, "
                  "the crate directory, its src directory, a directory below src or the file itself, several inputs together, some crates "
                  "left out, spelled absolutely / relatively / with ./, trailing and doubled slashes, /./ and d/../d detours, from six "
                  "kinds of working directory - every file whose path as spelled has its crate directory above the last src must be in "
                  "that crate's file, nothing else written, definitions as in single-file mode on the same inputs; the same with field-level "
                  "type overrides (`typeshare(<lang>(type = ..))` for one to three languages, `readonly`) on struct fields and "
                  "struct-variant members of a cross-crate type, as its only mention in the file or next to others: a type whose name "
                  "the generated language writes is imported, whatever the other languages override")
    # the first workspaces are one per (import-writing language, reference style): three or four crates, every cross-crate
    # reference written in that style
    forced = [(L, st) for st in FORCED for L in ("typescript", "kotlin")] * 2      # twice: a workspace may fail to generate (unsupported types)
    for w in range(-len(forced), nws):
        if w < 0:
            lang, force = forced[w]
            ncr = rng.randint(3, 4)
        else:
            lang, force = LANGS[w % 6], None
            ncr = rng.randint(1, 5)
        if workspace_case(check, w, lang, force, ncr):
            return
    if unicode_names_part(check):
        return
    if field_override_part(check):
        return
    if input_naming_part(check):
        return
    witnesses(check)
    crate_paths(check)
    replay_file_collision(check)
    replay_round13_findings(check)
    check.assumptions += ["path components are taken as the OS gives them (no symlink resolution modelled)",
                          "the crate of a source file is read off its path as the walker gets it - the input as spelled on the command line plus the "
                          "way down to the file - not off the resolved location: inputs whose spelling leaves no crate directory above the last "
                          "`src` (`src` or `.` given from inside the crate, `c/src/../src`) are counted with what the tool did, not demanded; no "
                          "input lies below another input (no file is reached twice)",
                          "completeness of the import clause is claimed only for plain / grouped `use` of un-renamed types (see the open findings)",
                          "a reference is a type name with an upper-case first letter under a crate name with a lower-case first letter (Unicode "
                          "case, as accept_type / accept_crate and the Lean statement have it): types and crates whose first letter has no case "
                          "(CJK, title-case ǅ) or the other case get no import and are counted, not demanded"]


def crate_paths(check):
    """L0: CrateName::find_crate_name against Files.findCrateName and the rule itself, on every path of up to 5 (6) components
    over {src, a-b, c_d, x, lib.rs}, relative and absolute, and of up to 4 (5) components over {src, é-ω, Ärger_x, 型-a, lib.rs}"""
    import itertools
    alphabet = ["src", "a-b", "c_d", "x", "lib.rs"]
    maxlen = 6 if check.thorough else 5
    paths = []
    for n in range(1, maxlen + 1):
        for comps in itertools.product(alphabet, repeat=n):
            paths.append(list(comps))
    paths += [["/"] + p for p in paths if len(p) <= 4]
    # directory names beyond ASCII (lower-case, upper-case and caseless first letters, dashes inside): every path of up to 4 (5) components
    for n in range(1, maxlen):
        for comps in itertools.product(["src", "é-ω", "Ärger_x", "型-a", "lib.rs"], repeat=n):
            if any(ord(ch) > 127 for c in comps for ch in c):
                paths.append(list(comps))
                check.count("crate paths with non-ASCII components")
    mreq = [[S("crate-name"), [c for c in p], S(LANGS[i % 6])] for i, p in enumerate(paths)]
    rreq = [{"op": "crate_name", "path": ("/" + "/".join(p[1:])) if p[0] == "/" else "/".join(p)} for p in paths]
    ms, rs = model(mreq, with_unicode=False), runner(rreq)
    for i, (p, ma, ra) in enumerate(zip(paths, ms, rs)):
        idx = max((k for k, c in enumerate(p) if c == "src"), default=None)
        want = p[idx - 1].replace("-", "_") if idx is not None and idx >= 1 else None
        check.saw(("crate-path", "/".join(p)), nontrivial=p.count("src") >= 1)
        if p.count("src") >= 2:
            check.count("paths with several src components")
        if ra.get("ok") != want:
            check.violation("find_crate_name(%r) = %r, the directory above the last `src` component is %r" % (rreq[i]["path"], ra.get("ok"), want),
                            case=rreq[i], impl=ra, model=ma, failing_input=True)
            return
        if ma.get("ok") != ra.get("ok"):
            check.violation("find_crate_name(%r): model %r, implementation %r" % (rreq[i]["path"], ma.get("ok"), ra.get("ok")),
                            case=rreq[i], impl=ra, model=ma, failing_input=False,
                            broken="correspondence L0 find_crate_name (theorem TsV.C14.findCrateName_spec)")
            return
        if ma.get("ok") is not None and ma.get("file") != file_name(LANGS[i % 6], p[idx - 1]):
            check.violation("output file name for crate %r: model %r, oracle %r" % (p[idx - 1], ma.get("file"), file_name(LANGS[i % 6], p[idx - 1])),
                            case=rreq[i], model=ma, failing_input=False, broken="model Files.outputFileName vs the check's file_name")
            return


def witnesses(check):
    """stored witnesses of the open findings, replayed through the real binary (TypeScript)"""
    A = "#[typeshare]\npub struct Target { pub a: u8 }\n"
    AR = "#[typeshare]\n#[serde(rename = \"Renamed\")]\npub struct Target { pub a: u8 }\n"
    cases = {"renamed-type-not-imported": (AR, "use alpha::Target;\n#[typeshare]\npub struct User { pub t: Target }\n", "Renamed"),
             "use-as-ignored": (A, "use alpha::Target as Target;\n#[typeshare]\npub struct User { pub t: Target }\n", "Target")}
    for kid, (a, b, name) in cases.items():
        with Scratch() as sc:
            sc.write("ws/alpha/src/lib.rs", a)
            sc.write("ws/beta/src/lib.rs", b)
            r = run_cli(["--lang", "typescript", "-d", sc.path("out"), sc.path("ws")], cwd=sc.dir)
            text = open(sc.path("out/beta.ts"), encoding="utf-8").read() if os.path.exists(sc.path("out/beta.ts")) else ""
        if r["rc"] == 0 and ("t: %s" % name) in text and "import" not in text:
            check.known(kid, {"alpha/src/lib.rs": a, "beta/src/lib.rs": b, "beta.ts": text})
