/// Ünïcödé doc — with em dash and nbsp
#[typeshare]
#[serde(rename_all = "camelCase")]
pub struct Ünï { pub straße_name: u8, pub éa_b: Ünï, pub ǅ_x: u8, #[serde(rename = "ключ")] pub k: u8 }
#[typeshare]
#[serde(rename_all = "snake_case")]
pub enum Él { ÉclairÀ, ßharp, ǅungla }
