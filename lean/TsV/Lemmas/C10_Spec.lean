import TsV.Lemmas.C10_Lex
import TsV.Lemmas.C10_LexPy
/-!
# C10 — the lexical specification per target language (shared by `TsV.Props.C10` and the driver)
-/
namespace TsV.C10Spec
open TsV TsV.C10Lex

/-- the lexer of a C-family target at *file* level: `<`/`>` delimit generics in Kotlin and Swift
files; a TypeScript file may end with the reviver / replacer helpers, which use `=>`, `<=`, `>=`, so
angle brackets are tracked for TypeScript only at declaration level (`C10TypeScript.T`); the
back-tick delimits raw strings (struct tags) in Go -/
def lexCfg : TsV.Lang → LexCfg
  | .kotlin | .swift => ⟨true, false⟩
  | .typescript | .scala => ⟨false, false⟩
  | .go => ⟨false, true⟩
  | .python => ⟨false, false⟩      -- unused: Python has its own automaton

/-- a generated text is lexically closed -/
def lexOk (L : TsV.Lang) (text : Str) : Bool :=
  match L with
  | .python => C10LexPy.wellBracketedPy text
  | l => wellBracketed (lexCfg l) text

def langOfName : String → Option TsV.Lang
  | "typescript" => some .typescript | "kotlin" => some .kotlin | "swift" => some .swift
  | "scala" => some .scala | "go" => some .go | "python" => some .python
  | _ => none

end TsV.C10Spec
