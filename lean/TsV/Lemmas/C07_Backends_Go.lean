import TsV.Lemmas.C07_Backends_Base
/-!
# C07, generation side — Go

Panic sites of the Go model and how they are discharged:

* `index.rs:1020`, `go.rs:600` (`String::replace_range` in `convert_acronyms_to_uppercase`):
  unreachable when every configured acronym satisfies `acronymOk` — its Pascal-cased pattern is ASCII
  and the upper-cased pattern is ASCII of the same length.  Then every replacement keeps the *byte
  layout* (`lay`: the list of UTF-8 sizes of the characters) of the running result equal to that of
  the name the match offsets were computed in, so every offset is a character boundary
  (`convertAcronyms_ok`).
* `go.rs:333` (`format_type(..).unwrap()`): Go's `format_type` never fails (`formatType_ok`).
* `go.rs:301` (`unreachable!()` for a non-unit variant of a `RustEnum::Unit`): unreachable for enums
  that satisfy `enumUnitOk`.
* `topsort`: `generateOrder_total`.
-/
namespace TsV.C07BE.Go
open TsV TsV.Outcome TsV.Lang TsV.Lang.Go

/-! ## bytes -/

/-- the byte layout of a string: the UTF-8 size of every character -/
def lay (s : Str) : List Nat := s.map Char.utf8Size

theorem foldl_size (s : Str) : ∀ k : Nat, s.foldl (fun n c => n + c.utf8Size) k = k + (lay s).sum := by
  induction s with
  | nil => intro k; simp [lay]
  | cons c t ih => intro k; simp only [List.foldl_cons, ih, lay, List.map_cons, List.sum_cons]; omega

theorem utf8Len_eq (s : Str) : utf8Len s = (lay s).sum := by
  simp [utf8Len, foldl_size]

theorem utf8Len_of_lay {a b : Str} (h : lay a = lay b) : utf8Len a = utf8Len b := by
  rw [utf8Len_eq, utf8Len_eq, h]

theorem utf8Len_nil : utf8Len [] = 0 := rfl

theorem utf8Len_cons (c : Char) (s : Str) : utf8Len (c :: s) = c.utf8Size + utf8Len s := by
  simp [utf8Len_eq, lay]

theorem utf8Len_append (a b : Str) : utf8Len (a ++ b) = utf8Len a + utf8Len b := by
  simp [utf8Len_eq, lay]

theorem lay_append (a b : Str) : lay (a ++ b) = lay a ++ lay b := by simp [lay]

theorem utf8Size_of_ascii {c : Char} (h : Str.isAscii c = true) : c.utf8Size = 1 := by
  have h' : c.val.toNat < 128 := by simpa [Str.isAscii] using h
  have : c.val ≤ UInt32.ofNatLT 127 (by decide) := by
    rw [UInt32.le_iff_toNat_le]; show c.val.toNat ≤ 127; omega
  simp only [Char.utf8Size]
  exact if_pos this

/-- an all-ASCII string -/
def asciiStr (s : Str) : Bool := s.all Str.isAscii

theorem lay_of_ascii {s : Str} (h : asciiStr s = true) : lay s = List.replicate s.length 1 := by
  induction s with
  | nil => rfl
  | cons c t ih =>
    have h' : Str.isAscii c = true ∧ asciiStr t = true := by simpa [asciiStr] using h
    simp only [lay, List.map_cons, List.length_cons, List.replicate_succ, utf8Size_of_ascii h'.1]
    exact congrArg _ (ih h'.2)

theorem utf8Len_of_ascii {s : Str} (h : asciiStr s = true) : utf8Len s = s.length := by
  rw [utf8Len_eq, lay_of_ascii h]; simp

theorem splitAtByte_zero (s : Str) : splitAtByte s 0 = some ([], s) := by
  cases s <;> rfl

/-- splitting at the byte length of a prefix succeeds and returns that prefix -/
theorem splitAtByte_append : ∀ (a b : Str), splitAtByte (a ++ b) (utf8Len a) = some (a, b)
  | [], b => by simp [utf8Len_nil, splitAtByte_zero]
  | c :: a, b => by
    have hpos := Char.utf8Size_pos c
    obtain ⟨n, hn⟩ : ∃ n, utf8Len (c :: a) = n + 1 := ⟨c.utf8Size + utf8Len a - 1, by
      rw [utf8Len_cons]; omega⟩
    rw [hn, List.cons_append]
    simp only [splitAtByte]
    rw [utf8Len_cons] at hn
    have hle : c.utf8Size ≤ n + 1 := by omega
    have hsub : n + 1 - c.utf8Size = utf8Len a := by omega
    rw [if_pos hle, hsub, splitAtByte_append a b]
    rfl

/-- `replace_range` on a range that is a whole run of characters -/
theorem replaceRange_ok (pre mid post rep : Str) :
    replaceRange (pre ++ mid ++ post) (utf8Len pre) (utf8Len pre + utf8Len mid) rep = .ok (pre ++ rep ++ post) := by
  unfold replaceRange
  have hlen : ¬ utf8Len (pre ++ mid ++ post) < utf8Len pre + utf8Len mid := by
    rw [utf8Len_append, utf8Len_append]; omega
  rw [if_neg hlen, List.append_assoc, splitAtByte_append]
  simp only
  have : utf8Len pre + utf8Len mid - utf8Len pre = utf8Len mid := by omega
  rw [this, splitAtByte_append]

/-- a string with the layout of `a ++ b` splits accordingly -/
theorem lay_split : ∀ (a b res : Str), lay res = lay (a ++ b) →
    ∃ a' b', res = a' ++ b' ∧ lay a' = lay a ∧ lay b' = lay b
  | [], b, res, h => ⟨[], res, rfl, rfl, by simpa using h⟩
  | c :: a, b, res, h => by
    cases res with
    | nil => simp [lay] at h
    | cons d r =>
      simp only [lay, List.cons_append, List.map_cons, List.cons.injEq] at h
      obtain ⟨a', b', hr, ha, hb⟩ := lay_split a b r h.2
      exact ⟨d :: a', b', by simp [hr], by simp [lay, h.1] at *; exact ha, hb⟩

/-! ## `match_indices` -/

theorem startsWith_split : ∀ (s p : Str), Str.startsWith s p = true → s = p ++ s.drop p.length
  | _, [], _ => by simp
  | [], _ :: _, h => by simp [Str.startsWith] at h
  | a :: s, b :: p, h => by
    simp only [Str.startsWith, Bool.and_eq_true, beq_iff_eq] at h
    have := startsWith_split s p h.2
    simp only [List.length_cons, List.drop_succ_cons, List.cons_append, h.1]
    exact congrArg _ this

theorem mem_boundaries : ∀ (s : Str) (off i : Nat), i ∈ boundaries off s →
    ∃ pre post, s = pre ++ post ∧ i = off + utf8Len pre
  | [], off, i, h => by
    simp only [boundaries, List.mem_singleton] at h
    exact ⟨[], [], rfl, by simp [h, utf8Len_nil]⟩
  | c :: t, off, i, h => by
    simp only [boundaries, List.mem_cons] at h
    rcases h with rfl | h
    · exact ⟨[], c :: t, rfl, by simp [utf8Len_nil]⟩
    · obtain ⟨pre, post, ht, hi⟩ := mem_boundaries t _ i h
      exact ⟨c :: pre, post, by simp [ht], by rw [utf8Len_cons]; omega⟩

theorem mem_go (pat : Str) : ∀ (fuel off : Nat) (s : Str) (i : Nat), i ∈ matchIndices.go pat fuel off s →
    ∃ pre post, s = pre ++ pat ++ post ∧ i = off + utf8Len pre := by
  intro fuel
  induction fuel with
  | zero => intro off s i h; simp [matchIndices.go] at h
  | succ n ih =>
    intro off s i h
    cases s with
    | nil => simp [matchIndices.go] at h
    | cons c t =>
      simp only [matchIndices.go] at h
      split at h
      · rename_i hsw
        have hs := startsWith_split _ _ hsw
        simp only [List.mem_cons] at h
        rcases h with rfl | h
        · exact ⟨[], (c :: t).drop pat.length, by simpa using hs, by simp [utf8Len_nil]⟩
        · obtain ⟨pre, post, hd, hi⟩ := ih _ _ i h
          refine ⟨pat ++ pre, post, ?_, ?_⟩
          · rw [hs, hd]
            simp [List.append_assoc]
          · rw [utf8Len_append]; omega
      · obtain ⟨pre, post, hd, hi⟩ := ih _ _ i h
        exact ⟨c :: pre, post, by simp [hd], by rw [utf8Len_cons]; omega⟩

/-- every offset `match_indices` yields is the byte length of a prefix that is followed by the pattern -/
theorem mem_matchIndices (name pat : Str) (i : Nat) (h : i ∈ matchIndices name pat) :
    ∃ pre post, name = pre ++ pat ++ post ∧ i = utf8Len pre := by
  unfold matchIndices at h
  split at h
  · rename_i he
    have hp : pat = [] := by simpa using he
    obtain ⟨pre, post, hs, hi⟩ := mem_boundaries name 0 i h
    exact ⟨pre, post, by simp [hp, hs], by omega⟩
  · obtain ⟨pre, post, hs, hi⟩ := mem_go pat _ 0 name i h
    exact ⟨pre, post, hs, by omega⟩

/-! ## `convert_acronyms_to_uppercase` -/

/-- the condition on one `uppercase_acronyms` entry: its Pascal-cased pattern is ASCII and upper-cases
to an ASCII string of the same length (true of every ASCII entry under Rust's `to_uppercase`, see
`acronymOk_of_ascii`) -/
def acronymOk (U : UnicodeOps) (a : Str) : Bool :=
  let pat := Rename.toPascal U a
  asciiStr pat && asciiStr (U.upperStr pat) && (U.upperStr pat).length == pat.length

/-- the condition on the Go configuration -/
def cfgOk (U : UnicodeOps) (cfg : Cfg) : Bool := cfg.uppercaseAcronyms.all (acronymOk U)

theorem acronymOk_lay {U : UnicodeOps} {a : Str} (h : acronymOk U a = true) :
    asciiStr (Rename.toPascal U a) = true ∧ lay (U.upperStr (Rename.toPascal U a)) = lay (Rename.toPascal U a) := by
  simp only [acronymOk, Bool.and_eq_true, beq_iff_eq] at h
  exact ⟨h.1.1, by rw [lay_of_ascii h.1.1, lay_of_ascii h.1.2, h.2]⟩

/-- one replacement keeps the layout -/
theorem replace_step (name res pat rep pre post : Str) (hname : name = pre ++ pat ++ post)
    (hpat : asciiStr pat = true) (hrep : lay rep = lay pat) (hres : lay res = lay name) :
    ∃ r, replaceRange res (utf8Len pre) (utf8Len pre + pat.length) rep = .ok r ∧ lay r = lay name := by
  rw [hname, List.append_assoc] at hres
  obtain ⟨pre', rest', hr, hpre, hrest⟩ := lay_split pre (pat ++ post) res hres
  obtain ⟨mid', post', hr2, hmid, hpost⟩ := lay_split pat post rest' hrest
  have e1 : utf8Len pre = utf8Len pre' := (utf8Len_of_lay hpre).symm
  have e2 : pat.length = utf8Len mid' := by rw [utf8Len_of_lay hmid, utf8Len_of_ascii hpat]
  refine ⟨pre' ++ rep ++ post', ?_, ?_⟩
  · rw [hr, hr2, e1, e2, ← List.append_assoc]; exact replaceRange_ok _ _ _ _
  · rw [hname]; simp only [lay_append, hpre, hrep, hpost]

theorem foldlM_acronym (U : UnicodeOps) (name pat rep : Str) (hpat : asciiStr pat = true) (hrep : lay rep = lay pat) :
    ∀ (is : List Nat), (∀ i ∈ is, ∃ pre post, name = pre ++ pat ++ post ∧ i = utf8Len pre) →
    ∀ res : Str, lay res = lay name →
    ∃ r, is.foldlM (init := res) (fun res i =>
        if ((name[i + pat.length]?).map fun c => !U.isLower c).getD true then
          replaceRange res i (i + pat.length) rep
        else Outcome.ok res) = .ok r ∧ lay r = lay name
  | [], _, res, hres => ⟨res, rfl, hres⟩
  | i :: is, his, res, hres => by
    obtain ⟨pre, post, hname, hi⟩ := his i (by simp)
    have htail := foldlM_acronym U name pat rep hpat hrep is (fun j hj => his j (by simp [hj]))
    simp only [List.foldlM_cons]
    split
    · obtain ⟨r, hr, hlay⟩ := replace_step name res pat rep pre post hname hpat hrep hres
      rw [hi, hr]
      exact htail r hlay
    · exact htail res hres

theorem applyAcronym_ok (U : UnicodeOps) (name a : Str) (ha : acronymOk U a = true) (res : Str)
    (hres : lay res = lay name) : ∃ r, applyAcronym U name res a = .ok r ∧ lay r = lay name := by
  obtain ⟨hpat, hrep⟩ := acronymOk_lay ha
  unfold applyAcronym
  exact foldlM_acronym U name _ _ hpat hrep _ (fun i hi => mem_matchIndices name _ i hi) res hres

/-- **`convert_acronyms_to_uppercase` returns** (no `replace_range` panic) for every name when every
acronym is `acronymOk`; the result has the byte layout of the name -/
theorem convertAcronyms_ok (U : UnicodeOps) (name : Str) : ∀ (acronyms : List Str),
    acronyms.all (acronymOk U) = true → ∀ res : Str, lay res = lay name →
    ∃ r, acronyms.foldlM (init := res) (applyAcronym U name) = .ok r ∧ lay r = lay name
  | [], _, res, hres => ⟨res, rfl, hres⟩
  | a :: as, h, res, hres => by
    have h' : acronymOk U a = true ∧ as.all (acronymOk U) = true := by simpa using h
    obtain ⟨r, hr, hlay⟩ := applyAcronym_ok U name a h'.1 res hres
    simp only [List.foldlM_cons, hr]
    exact convertAcronyms_ok U name as h'.2 r hlay

theorem acr_ok (U : UnicodeOps) (cfg : Cfg) (h : cfgOk U cfg = true) (name : Str) : IsOk (acr U cfg name) := by
  obtain ⟨r, hr, _⟩ := convertAcronyms_ok U name cfg.uppercaseAcronyms h name rfl
  exact ⟨r, hr⟩

/-! ### every ASCII acronym list is fine under Rust's case mapping -/

theorem asciiUpper_ascii {c : Char} (h : Str.isAscii c = true) : Str.isAscii (Str.asciiUpper c) = true := by
  unfold Str.asciiUpper; split <;> first | rfl | exact h

theorem asciiLower_ascii {c : Char} (h : Str.isAscii c = true) : Str.isAscii (Str.asciiLower c) = true := by
  unfold Str.asciiLower; split <;> first | rfl | exact h

theorem pascalGo_ascii (tl : Bool) : ∀ (cap : Bool) (s : Str), asciiStr s = true →
    asciiStr (Rename.pascalGo tl cap s) = true
  | _, [], _ => rfl
  | cap, ch :: rest, h => by
    have h' : Str.isAscii ch = true ∧ asciiStr rest = true := by simpa [asciiStr] using h
    simp only [Rename.pascalGo]
    split
    · exact pascalGo_ascii tl true rest h'.2
    · split
      · simp only [asciiStr, List.all_cons, Bool.and_eq_true]
        exact ⟨asciiUpper_ascii h'.1, pascalGo_ascii tl false rest h'.2⟩
      · simp only [asciiStr, List.all_cons, Bool.and_eq_true]
        refine ⟨?_, pascalGo_ascii tl false rest h'.2⟩
        split
        · exact asciiLower_ascii h'.1
        · exact h'.1

theorem upperStr_ascii {U : UnicodeOps} (hU : U.AsciiCorrect) : ∀ s : Str, asciiStr s = true →
    asciiStr (U.upperStr s) = true ∧ (U.upperStr s).length = s.length
  | [], _ => ⟨rfl, rfl⟩
  | c :: t, h => by
    have h' : Str.isAscii c = true ∧ asciiStr t = true := by simpa [asciiStr] using h
    have hc : U.toUpper c = [Str.asciiUpper c] := hU.toUpper c (by simpa [Str.isAscii] using h'.1)
    obtain ⟨i1, i2⟩ := upperStr_ascii hU t h'.2
    simp only [UnicodeOps.upperStr] at i1 i2 ⊢
    simp only [List.flatMap_cons, hc, List.singleton_append, asciiStr, List.all_cons, Bool.and_eq_true,
      List.length_cons]
    exact ⟨⟨asciiUpper_ascii h'.1, i1⟩, by omega⟩

/-- with Rust's case mapping on ASCII (`AsciiCorrect`), every ASCII `uppercase_acronyms` entry is fine -/
theorem acronymOk_of_ascii {U : UnicodeOps} (hU : U.AsciiCorrect) {a : Str} (h : asciiStr a = true) :
    acronymOk U a = true := by
  have hp : asciiStr (Rename.toPascal U a) = true := pascalGo_ascii _ _ _ h
  obtain ⟨h1, h2⟩ := upperStr_ascii hU _ hp
  simp [acronymOk, hp, h1, h2]

theorem cfgOk_of_ascii {U : UnicodeOps} (hU : U.AsciiCorrect) {cfg : Cfg}
    (h : cfg.uppercaseAcronyms.all asciiStr = true) : cfgOk U cfg = true := by
  rw [cfgOk, List.all_eq_true]
  intro a ha
  exact acronymOk_of_ascii hU (List.all_eq_true.1 h a ha)

/-! ## `format_type` never fails -/

/-- one step of `ok_auto` -/
macro "ok_step" : tactic => `(tactic| first
  | exact isOk_ok _
  | assumption
  | intro _
  | with_reducible apply_assumption -exfalso -symm
  | with_reducible refine isOk_bind ?_ ?_
  | split)
macro "ok_auto" : tactic => `(tactic| repeat' ok_step)

theorem special_ok (cfg : Cfg) (t : RustType) (st : Imports) (k : Imports → Outcome (Str × Imports))
    (hk : ∀ st, IsOk (k st)) : IsOk (special cfg t st k) := by
  unfold special; ok_auto

mutual
  /-- Go's `format_type` has no error arm (`GenericsForbiddenInGo` is never constructed) -/
  theorem formatType_ok (cfg : Cfg) : ∀ (t : RustType) (st : Imports), IsOk (formatType cfg t st)
    | .simple id, st => by simp only [formatType]; ok_auto
    | .generic id ps, st => by
      have := formatTypes_ok cfg ps
      simp only [formatType]; ok_auto
    | .vec r, st => by
      have := formatType_ok cfg r
      simp only [formatType]; apply special_ok; ok_auto
    | .array r _, st => by
      have := formatType_ok cfg r
      simp only [formatType]; apply special_ok; ok_auto
    | .slice r, st => by
      have := formatType_ok cfg r
      simp only [formatType]; apply special_ok; ok_auto
    | .option r, st => by
      have := formatType_ok cfg r
      simp only [formatType]; apply special_ok; ok_auto
    | .hashMap k v, st => by
      have := formatType_ok cfg k
      have := formatType_ok cfg v
      simp only [formatType]; apply special_ok; ok_auto
    | .prim p, st => by
      simp only [formatType]; apply special_ok; ok_auto
  theorem formatTypes_ok (cfg : Cfg) : ∀ (ts : List RustType) (st : Imports), IsOk (formatTypes cfg ts st)
    | [], st => by simp only [formatTypes]; ok_auto
    | t :: ts, st => by
      have := formatType_ok cfg t
      have := formatTypes_ok cfg ts
      simp only [formatTypes]; ok_auto
end

theorem formatType_np (cfg : Cfg) (t : RustType) (st : Imports) : NP (formatType cfg t st) :=
  (formatType_ok cfg t st).np

/-! ## the printer, under `cfgOk` -/

section
variable (U : UnicodeOps) (cfg : Cfg) (hc : cfgOk U cfg = true)
include hc

theorem acr_np (name : Str) : NP (acr U cfg name) := (acr_ok U cfg hc name).np

theorem fieldName_np (name : Str) : NP (fieldName U cfg name) := acr_np U cfg hc _

theorem anonName_np (e : RustEnum) (v : Str) : NP (anonName U cfg e v) := acr_np U cfg hc _

theorem fieldFacts_np (f : RustField) (st : Imports) : NP (fieldFacts U cfg f st) := by
  have := formatType_np cfg
  have := acr_np U cfg hc
  have := fieldName_np U cfg hc
  unfold fieldFacts; np_auto

theorem fieldsFacts_np : ∀ (fs : List RustField) (st : Imports), NP (fieldsFacts U cfg fs st)
  | [], st => by simp only [fieldsFacts]; np_auto
  | f :: fs, st => by
    have := fieldFacts_np U cfg hc f
    have := fieldsFacts_np fs
    simp only [fieldsFacts]; np_auto

theorem structFacts_np (rs : RustStruct) (st : Imports) : NP (structFacts U cfg rs st) := by
  have := acr_np U cfg hc
  have := fieldsFacts_np U cfg hc
  unfold structFacts; np_auto

theorem writeStruct_np (rs : RustStruct) (st : Imports) : NP (writeStruct U cfg rs st) := by
  have := structFacts_np U cfg hc
  unfold writeStruct; np_auto

theorem aliasFacts_np (a : RustTypeAlias) (st : Imports) : NP (aliasFacts U cfg a st) := by
  have := acr_np U cfg hc
  have := formatType_np cfg
  unfold aliasFacts; np_auto

theorem writeAlias_np (a : RustTypeAlias) (st : Imports) : NP (writeAlias U cfg a st) := by
  have := aliasFacts_np U cfg hc
  unfold writeAlias; np_auto

/-- go.rs:301 (`unreachable!()`) needs a non-unit variant -/
theorem unitConsts_np (original : Str) : ∀ vs : List RustEnumVariant, vs.all Parser.variantIsUnit = true →
    NP (unitConsts U cfg original vs)
  | [], _ => by simp only [unitConsts]; np_auto
  | .unit id cs :: vs, h => by
    have := unitConsts_np original vs (by simpa [Parser.variantIsUnit] using h)
    have := acr_np U cfg hc
    simp only [unitConsts]; np_auto
  | .tuple _ _ _ :: vs, h => by simp [Parser.variantIsUnit] at h
  | .anonymousStruct _ _ _ :: vs, h => by simp [Parser.variantIsUnit] at h

theorem anonStructs_np (e : RustEnum) : ∀ (ps : List (Id × List RustField)) (st : Imports),
    NP (anonStructs U cfg e ps st)
  | [], st => by simp only [anonStructs]; np_auto
  | (id, fs) :: rest, st => by
    have := anonName_np U cfg hc e
    have := structFacts_np U cfg hc
    have := anonStructs_np e rest
    simp only [anonStructs]; np_auto

/-- go.rs:333: the `unwrap()` of `format_type` cannot fire because `format_type` has no error arm -/
theorem algVariant_np (e : RustEnum) (structName tagKey : Str) (cs : List Str) (v : RustEnumVariant)
    (st : Imports) : NP (algVariant U cfg e structName tagKey cs v st) := by
  have := acr_np U cfg hc
  have := anonName_np U cfg hc e
  have := formatType_np cfg
  unfold algVariant
  np_auto
  all_goals
    rename_i herr
    obtain ⟨r, hr⟩ := formatType_ok cfg _ _
    rw [hr] at herr
    cases herr

theorem algVariants_np (e : RustEnum) (structName tagKey : Str) (cs : List Str) :
    ∀ (vs : List RustEnumVariant) (st : Imports), NP (algVariants U cfg e structName tagKey cs vs st)
  | [], st => by simp only [algVariants]; np_auto
  | v :: vs, st => by
    have := algVariant_np U cfg hc e structName tagKey cs v
    have := algVariants_np e structName tagKey cs vs
    simp only [algVariants]; np_auto

omit hc in
theorem shortName_np (original : Str) : NP (shortName U original) := by
  unfold shortName; np_auto

theorem algEnumFacts_np (e : RustEnum) (tagKey contentKey : Str) (cs : List Str) (st : Imports) :
    NP (algEnumFacts U cfg e tagKey contentKey cs st) := by
  have := acr_np U cfg hc
  have := fieldName_np U cfg hc
  have := shortName_np U
  have := anonStructs_np U cfg hc e
  have := algVariants_np U cfg hc e
  unfold algEnumFacts; np_auto

theorem writeEnum_np (e : RustEnum) (cs : List Str) (st : Imports) (h : enumUnitOk e = true) :
    NP (writeEnum U cfg e cs st) := by
  have := acr_np U cfg hc
  have := anonStructs_np U cfg hc e
  have := algEnumFacts_np U cfg hc e
  unfold writeEnum
  unfold enumUnitOk at h
  split
  · rename_i hk
    rw [hk] at h
    have := unitConsts_np U cfg hc e.id.original e.variants h
    np_auto
  · np_auto

omit hc in
theorem constFacts_np (c : RustConst) (st : Imports) : NP (constFacts U cfg c st) := by
  have := formatType_np cfg
  unfold constFacts; np_auto

omit hc in
theorem writeConst_np (c : RustConst) (st : Imports) : NP (writeConst U cfg c st) := by
  have := constFacts_np U cfg c
  unfold writeConst; np_auto

theorem writeItem_np (cs : List Str) (it : RustItem) (st : Imports) (h : itemUnitOk it = true) :
    NP (writeItem U cfg cs it st) := by
  cases it with
  | enum e => exact writeEnum_np U cfg hc e cs st h
  | struct s => exact writeStruct_np U cfg hc s st
  | alias a => exact writeAlias_np U cfg hc a st
  | const c => exact writeConst_np U cfg c st

theorem writeItems_np (cs : List Str) : ∀ (its : List RustItem) (st : Imports),
    (∀ it ∈ its, itemUnitOk it = true) → NP (writeItems U cfg cs its st)
  | [], st, _ => by simp only [writeItems]; np_auto
  | it :: its, st, h => by
    have := fun st => writeItem_np U cfg hc cs it st (h it (by simp))
    have := fun st => writeItems_np cs its st (fun x hx => h x (by simp [hx]))
    simp only [writeItems]; np_auto

theorem generate_np (d : ParsedData) (st : Imports) (h : dataUnitOk d = true) : NP (generate U cfg d st) := by
  obtain ⟨out, ho, _⟩ := generateOrder_total d
  have := fun cs st => writeItems_np U cfg hc cs out st (order_unitOk h ho)
  simp only [generate, ho]; np_auto

theorem generateFrom_np : ∀ (jobs : List Job) (st : Imports), jobsUnitOk jobs = true →
    NP (generateFrom U cfg jobs st)
  | [], st, _ => by simp only [generateFrom]; np_auto
  | (c, d, imps) :: rest, st, h => by
    have h' : dataUnitOk d = true ∧ jobsUnitOk rest = true := by simpa [jobsUnitOk] using h
    have := fun st => generate_np U cfg hc d st h'.1
    have := fun st => generateFrom_np rest st h'.2
    simp only [generateFrom]; np_auto

end

theorem generateAll_np (E : Ext) (cfg : Cfg) (multi : Bool) (jobs : List Job) (hc : cfgOk E.U cfg = true)
    (h : jobsUnitOk jobs = true) : NP (generateAll E cfg multi jobs) :=
  generateFrom_np E.U cfg hc jobs [] h

end TsV.C07BE.Go
