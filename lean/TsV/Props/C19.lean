import TsV.Model.Annotation
/-!
# C19 — `#[typeshare]` is transparent to the Rust compiler and to serde

What is proved: the expansion is syntactically the item with exactly the `typeshare` helper
attributes removed from variants, variant fields, struct fields and union fields — all other
attributes (serde, derive, cfg, doc), their order, and every other token untouched; identity on
items that are not struct/enum/union.  "Compiles exactly when the stripped twin does and behaves
identically" follows because rustc (and every derive macro) is a function of the token stream it
is given; that step is trusted, not proved.
-/
namespace TsV.C19
open TsV TsV.Annotation

/-- the un-annotated twin: the same item with every `typeshare` helper attribute deleted -/
def twin : AItem → AItem := expand

theorem stripAttrs_no_config (as : List AAttr) : ∀ a ∈ stripAttrs as, isConfig a = false := by
  intro a ha
  simp only [stripAttrs, List.mem_filter, Bool.not_eq_true'] at ha
  exact ha.2

/-- other attributes are kept, in order: the result is the sub-list of non-`typeshare` attributes -/
theorem stripAttrs_keeps (as : List AAttr) (a : AAttr) (h : isConfig a = false) :
    a ∈ stripAttrs as ↔ a ∈ as := by
  simp [stripAttrs, List.mem_filter, h]

theorem stripAttrs_sublist (as : List AAttr) : (stripAttrs as).Sublist as := List.filter_sublist

theorem stripAttrs_id (as : List AAttr) (h : ∀ a ∈ as, isConfig a = false) : stripAttrs as = as := by
  unfold stripAttrs
  rw [List.filter_eq_self]
  intro a ha; simp [h a ha]

theorem stripAttrs_idem (as : List AAttr) : stripAttrs (stripAttrs as) = stripAttrs as :=
  stripAttrs_id _ (stripAttrs_no_config as)

/-- helper attributes placed anywhere among other attributes are removed and nothing else is -/
theorem stripAttrs_interleave (xs : List AAttr) (hx : ∀ a ∈ xs, isConfig a = false) :
    ∀ (ys : List AAttr), (∀ a ∈ ys, isConfig a = true) → ∀ zs, zs.Perm (xs ++ ys) → xs.Sublist zs →
      stripAttrs zs = xs := by
  intro ys hy zs hp hs
  -- the non-config elements of zs are exactly xs, in the order of zs, which contains xs as a sublist
  have hfil : (zs.filter fun a => !isConfig a).Perm xs := by
    have := hp.filter (fun a => !isConfig a)
    rw [List.filter_append] at this
    have h1 : xs.filter (fun a => !isConfig a) = xs := by
      rw [List.filter_eq_self]; intro a ha; simp [hx a ha]
    have h2 : ys.filter (fun a => !isConfig a) = [] := by
      rw [List.filter_eq_nil_iff]; intro a ha; simp [hy a ha]
    simpa [h1, h2] using this
  have hsub : xs.Sublist (zs.filter fun a => !isConfig a) := by
    have := hs.filter (fun a => !isConfig a)
    have h1 : xs.filter (fun a => !isConfig a) = xs := by
      rw [List.filter_eq_self]; intro a ha; simp [hx a ha]
    rwa [h1] at this
  exact (hsub.eq_of_length_le (by rw [hfil.length_eq]; exact Nat.le_refl _)).symm

/-- **the expansion of an item without helper attributes is the item itself** -/
def Clean : AItem → Prop
  | .struct _ _ fs => ∀ f ∈ fs, ∀ a ∈ f.attrs, isConfig a = false
  | .enum _ _ vs => ∀ v ∈ vs, (∀ a ∈ v.attrs, isConfig a = false) ∧ ∀ f ∈ v.fields, ∀ a ∈ f.attrs, isConfig a = false
  | .union _ _ fs => ∀ f ∈ fs, ∀ a ∈ f.attrs, isConfig a = false
  | .other _ => True

theorem stripField_id (f : AField) (h : ∀ a ∈ f.attrs, isConfig a = false) : stripField f = f := by
  cases f; simp [stripField, stripAttrs_id _ h]

theorem map_id_of {α} (g : α → α) (l : List α) (h : ∀ x ∈ l, g x = x) : l.map g = l := by
  induction l with
  | nil => rfl
  | cons a t ih => simp [h a (by simp), ih (fun x hx => h x (by simp [hx]))]

theorem expand_clean (it : AItem) (h : Clean it) : expand it = it := by
  cases it with
  | struct a hd fs => simp only [expand]; rw [map_id_of _ _ (fun f hf => stripField_id f (h f hf))]
  | enum a hd vs =>
    simp only [expand]
    rw [map_id_of _ _ (fun v hv => by
      obtain ⟨h1, h2⟩ := h v hv
      cases v with
      | mk attrs name fields rest =>
        simp only [stripVariant, stripAttrs_id _ h1]
        rw [map_id_of _ _ (fun f hf => stripField_id f (h2 f hf))])]
  | union a hd fs => simp only [expand]; rw [map_id_of _ _ (fun f hf => stripField_id f (h f hf))]
  | other t => rfl

/-- the expansion never contains a helper attribute in the four positions -/
theorem expand_clean_result (it : AItem) : Clean (expand it) := by
  cases it with
  | struct a hd fs =>
    intro f hf a' ha'
    simp only [List.mem_map] at hf
    obtain ⟨f0, _, rfl⟩ := hf
    exact stripAttrs_no_config _ a' ha'
  | enum a hd vs =>
    intro v hv
    simp only [List.mem_map] at hv
    obtain ⟨v0, _, rfl⟩ := hv
    refine ⟨fun a' ha' => stripAttrs_no_config _ a' ha', fun f hf a' ha' => ?_⟩
    simp only [stripVariant, List.mem_map] at hf
    obtain ⟨f0, _, rfl⟩ := hf
    exact stripAttrs_no_config _ a' ha'
  | union a hd fs =>
    intro f hf a' ha'
    simp only [List.mem_map] at hf
    obtain ⟨f0, _, rfl⟩ := hf
    exact stripAttrs_no_config _ a' ha'
  | other t => trivial

/-- **idempotent**: applying `#[typeshare]` twice is the same as once -/
theorem expand_idem (it : AItem) : expand (expand it) = expand it :=
  expand_clean _ (expand_clean_result it)

/-- item-level attributes, the item head (visibility, name, generics, where-clause), field / variant
bodies and the *number and order* of fields and variants are never touched -/
theorem expand_struct_shape (a : List AAttr) (h : Str) (fs : List AField) :
    ∃ fs', expand (.struct a h fs) = .struct a h fs' ∧ fs'.map (·.rest) = fs.map (·.rest) ∧
      fs'.length = fs.length := by
  exact ⟨fs.map stripField, rfl, by simp [stripField], by simp⟩

theorem expand_enum_shape (a : List AAttr) (h : Str) (vs : List AVariant) :
    ∃ vs', expand (.enum a h vs) = .enum a h vs' ∧ vs'.map (·.name) = vs.map (·.name) ∧
      vs'.map (·.rest) = vs.map (·.rest) ∧
      vs'.map (fun v => v.fields.map (·.rest)) = vs.map (fun v => v.fields.map (·.rest)) := by
  refine ⟨vs.map stripVariant, rfl, by simp [stripVariant], by simp [stripVariant], ?_⟩
  simp [stripVariant, stripField, Function.comp_def]

/-- items that are not struct / enum / union (type aliases, consts, functions, …) pass through -/
theorem expand_other (t : Str) : expand (.other t) = .other t := rfl

/-! ### non-vacuity -/
def ts : AAttr := ⟨[s%"typeshare"], s%"(skip)"⟩
def sd : AAttr := ⟨[s%"serde"], s%"(rename = \"x\")"⟩
def qualified : AAttr := ⟨[s%"typeshare", s%"typeshare"], []⟩
example : expand (.struct [sd] s%"pub struct S" [⟨[sd, ts, sd], s%"pub a : u8"⟩, ⟨[ts], s%"b : u8"⟩]) =
    .struct [sd] s%"pub struct S" [⟨[sd, sd], s%"pub a : u8"⟩, ⟨[], s%"b : u8"⟩] := by decide
/-- a *qualified* helper path is not recognised and stays (then rustc rejects it: outside the property's grammar) -/
example : stripAttrs [qualified, ts] = [qualified] := by decide

end TsV.C19
