import TsV.Lemmas.C05_HelperGenerics
import TsV.Props.C09_HelperParams
/-!
# C05_HelperGenerics — the helper struct of a struct variant: its generic parameters and the arguments
every reference passes are one list, in one order

C05: "generic arguments and generic parameters are preserved in order".  For a struct variant
`V { f₁: t₁, … }` of a tagged enum `E<A, B, …>` five back ends write a helper struct `EVInner` whose
parameter list is *computed* (`Lang.anonymousStruct`: the enum's parameters some field mentions), and
Kotlin, Swift and Scala compute the same expression a second time where the enum's case refers to the
helper.  `Props/C09_HelperParams.lean` states which parameters are in the list; this module states the
**order** and that **declaration and use carry the same list**:

* `helper_order_sorted`, `helper_order_exact` — the list is sorted by (index of the first field that
  mentions the parameter, position in the enum's own list) and is the only list with these members that
  is; so: *first-mention order by field, declaration order within one field* — neither the enum's
  declaration order (`not_declaration_order`) nor the textual order inside one field
  (`not_textual_order_within_a_field`).
* `kotlin_sites`, `swift_sites`, `scala_sites` — record level: the list of (helper name, parameter
  clause) pairs the helper declarations of an enum declare is, entry by entry and in order, the list
  of (helper name, argument clause) pairs its cases apply — both are `sites`, built from `helperGens`.
* `kotlin_text`, `swift_text`, `scala_text` — text level: the block written for the enum contains, for
  every struct variant, the declaration head `<keyword><name><params>` and the use `<name><args>` with
  that one clause (Swift declares `<T: Codable, U: Codable>` and applies `<T, U>`: the same names in
  the same order, `swift_clause_names`).
* `go_python_bare` — Go and Python declare the same list (`type EVInner[U any, T any] struct`,
  `class EVInner(BaseModel, Generic[U, T])`) but refer to the helper by its bare name, without
  arguments; the enum's own type carries no parameter list in either (`go_python_text`).
* `C05_HelperGenerics : C05_HelperGenerics_full`.

Nothing is false on the model.  Trusted binding semantics: `Kt.declares`, `Kt.applies`, `Sw.declares`,
`Sw.applies`, `Sc.declares`, `Sc.applies` (Lemmas/C05_HelperGenerics.lean; each a projection).
-/
namespace TsV.C05_HelperGenerics
open TsV TsV.Lang TsV.C09 TsV.C09_HelperParams

/-! ## 1. the order -/

/-- **the helper's parameter list is sorted by (first field that mentions the parameter, position in
the enum's list)** -/
theorem helper_order_sorted (e : RustEnum) (n v : Str) (fs : List RustField) :
    (anonymousStruct e n v fs).genericTypes.Pairwise (Before e fs) :=
  helperGens_sorted e fs

/-- **exact characterisation**: it is the one list with the members `C09_HelperParams.helper_params_exact`
gives that is sorted this way -/
theorem helper_order_exact (e : RustEnum) (n v : Str) (fs : List RustField) (L : List Str) :
    L = (anonymousStruct e n v fs).genericTypes ↔
      L.Pairwise (Before e fs) ∧ ∀ g, g ∈ L ↔ g ∈ e.genericTypes ∧ ∃ f ∈ fs, Mentions f.ty g := by
  constructor
  · rintro rfl
    exact ⟨helper_order_sorted e n v fs, helper_params_exact e n v fs⟩
  · rintro ⟨hs, hm⟩
    exact helperGens_unique e fs L hs fun g => (hm g).trans (helper_params_exact e n v fs g).symm

/-- read as positions: of two parameters of the helper, the one whose first mentioning field comes
first stands first; if one field is the first to mention both, the enum's order decides -/
theorem helper_order_positions (e : RustEnum) (n v : Str) (fs : List RustField) (g g' : Str)
    (hg : g ∈ (anonymousStruct e n v fs).genericTypes) (hg' : g' ∈ (anonymousStruct e n v fs).genericTypes) (hne : g ≠ g') :
    (anonymousStruct e n v fs).genericTypes.idxOf g < (anonymousStruct e n v fs).genericTypes.idxOf g' ↔ Before e fs g g' := by
  rw [anonymousStruct_generics] at *
  have hs := helperGens_sorted e fs
  generalize helperGens e fs = L at *
  induction L with
  | nil => cases hg
  | cons a t ih =>
    rw [List.pairwise_cons] at hs
    by_cases h1 : a = g
    · subst h1
      have : g' ∈ t := by
        rcases List.mem_cons.1 hg' with h | h
        · exact absurd h.symm hne
        · exact h
      simp only [idxOf_cons_self', idxOf_cons_ne hne, Nat.zero_lt_succ, true_iff]
      exact hs.1 _ this
    · have hgt : g ∈ t := by
        rcases List.mem_cons.1 hg with h | h
        · exact absurd h.symm h1
        · exact h
      by_cases h2 : a = g'
      · subst h2
        simp only [idxOf_cons_self', idxOf_cons_ne h1, Nat.not_lt_zero, false_iff]
        exact before_asymm e fs _ _ (hs.1 _ hgt)
      · have hgt' : g' ∈ t := by
          rcases List.mem_cons.1 hg' with h | h
          · exact absurd h.symm h2
          · exact h
        rw [idxOf_cons_ne h1, idxOf_cons_ne h2, Nat.add_lt_add_iff_right]
        exact ih hgt hgt' hs.2

/-! ## 2. declaration and use carry one list: the fact records -/

/-- **Kotlin**: the declarations of a tagged enum are the helper classes and then the sealed class;
the (name, `<…>`) pairs the helpers declare are, in order, the (name, `<…>`) pairs the cases of the
sealed class apply, and both are `Kt.sites` (`helperGens` of each struct variant) -/
theorem kotlin_sites (c : Kotlin.Cfg) (e : RustEnum) (kc : Str × Str) (hk : e.keys = some kc) (ds : List Kotlin.KtDecl)
    (h : Kotlin.enumFacts c e = .ok ds) :
    ∃ inners cases, ds = inners ++ [.sealedClass e.comments (c.pfx ++ e.id.renamed) (genericSuffix e.genericTypes) cases] ∧
      inners.map Kt.declares = cases.filterMap Kt.applies ∧
      inners.map Kt.declares = (structVariants e).map fun p =>
        (c.pfx ++ e.id.renamed ++ p.1.original ++ s%"Inner",
         genericSuffix (anonymousStruct e (e.id.renamed ++ p.1.original ++ s%"Inner") p.1.original p.2).genericTypes) := by
  obtain ⟨inners, cases, hds, h1, h2, _⟩ := Kt.enumFacts_sites c e kc hk ds h
  exact ⟨inners, cases, hds, h1.trans h2.symm, h1⟩

/-- **Swift**: each helper struct's name followed by `<` its declared parameter *names* `>` is, in
order, the associated-value type of the case of its struct variant -/
theorem swift_sites (U : UnicodeOps) (c : Swift.Cfg) (e : RustEnum) (kc : Str × Str) (hk : e.keys = some kc)
    (st st' : Swift.St) (ss : List Swift.SwiftStruct) (d : Swift.SwiftEnum)
    (h : Swift.enumFacts U c e st = .ok (ss, d, st')) :
    ss.map (fun s => (Sw.declares s).1 ++ genericSuffix (Sw.declares s).2) =
      (e.variants.zip d.cases).filterMap (fun q => Sw.applies q.1 q.2) ∧
    ss.map Sw.declares = (structVariants e).map fun p =>
      (c.pfx ++ Swift.anonymousStructName e p.1.original,
       (anonymousStruct e (Swift.anonymousStructName e p.1.original) p.1.original p.2).genericTypes) := by
  obtain ⟨h1, h2, _⟩ := Sw.enumFacts_sites U c e kc hk st st' ss d h
  have h3 : ss.map Sw.declares = (structVariants e).map fun p =>
      (c.pfx ++ Swift.anonymousStructName e p.1.original, helperGens e p.2) := by
    have := congrArg (List.map fun q : Str × List Swift.GenericParam => (q.1, q.2.map (·.name))) h1
    show ss.map (fun s => (s.name, s.generics.map (·.name))) = _
    simpa [swift_genericParams_names, Function.comp_def] using this
  refine ⟨?_, h3⟩
  rw [h2]
  have := congrArg (List.map fun q : Str × List Str => q.1 ++ genericSuffix q.2) h3
  simpa [Function.comp_def] using this

/-- the clause a Swift declaration prints lists the declared names in the order of the record, each
followed by its constraints -/
theorem swift_clause_names (ps : List Swift.GenericParam) :
    Swift.renderGenericClause ps =
      if ps.isEmpty then [] else
        s%"<" ++ Str.intercalate s%", " (ps.map fun p => p.name ++ s%": " ++ Str.intercalate s%" & " p.constraints) ++ s%">" := rfl

/-- **Scala**: each helper class's name followed by `[` its declared parameters `]` is, in order,
the parameter type of the case class of its struct variant -/
theorem scala_sites (c : Scala.Cfg) (e : RustEnum) (kc : Str × Str) (hk : e.keys = some kc) (d : Scala.ScEnum)
    (h : Scala.enumFacts c e = .ok d) :
    d.inner.map (fun x => (Sc.declares x).1 ++ Scala.genericSq (Sc.declares x).2) =
      (e.variants.zip d.cases).filterMap (fun q => Sc.applies q.1 q.2) ∧
    d.inner.map Sc.declares = (structVariants e).map fun p =>
      (e.id.renamed ++ p.1.original ++ s%"Inner",
       (anonymousStruct e (e.id.renamed ++ p.1.original ++ s%"Inner") p.1.original p.2).genericTypes) := by
  obtain ⟨h1, h2, _⟩ := Sc.enumFacts_sites c e kc hk d h
  refine ⟨?_, h1⟩
  rw [h2]
  have := congrArg (List.map fun q : Str × List Str => q.1 ++ Scala.genericSq q.2) h1
  simpa [Function.comp_def] using this

/-! ## 3. … and the text -/

/-- **Kotlin, text**: the block of a tagged enum contains, for every struct variant, the helper's
declaration head `data class <name><G>` (`object <name>` for a variant without fields, `G` empty) and
the use `: <name><G>)` — `G = genericSuffix` of the helper's list at both sites -/
theorem kotlin_text (c : Kotlin.Cfg) (e : RustEnum) (kc : Str × Str) (hk : e.keys = some kc) (b : Str)
    (h : C03E.Kt.writeItem c (.enum e) = .ok b) (id : Id) (fs : List RustField) (hp : (id, fs) ∈ structVariants e) :
    let N := c.pfx ++ e.id.renamed ++ id.original ++ s%"Inner"
    let G := genericSuffix (anonymousStruct e (e.id.renamed ++ id.original ++ s%"Inner") id.original fs).genericTypes
    ((if fs.isEmpty then s%"object " else s%"data class ") ++ N ++ G) <:+: b ∧ (s%": " ++ N ++ G ++ s%")") <:+: b :=
  Kt.block_sites c e kc hk b h (id, fs) hp

/-- **Swift, text**: `public struct <name><T: …, U: …>: ` and `(<name><T, U>)` -/
theorem swift_text (U : UnicodeOps) (c : Swift.Cfg) (e : RustEnum) (kc : Str × Str) (hk : e.keys = some kc)
    (st st' : Swift.St) (b : Str) (h : Swift.writeItem U c (.enum e) st = .ok (b, st')) (id : Id) (fs : List RustField)
    (hp : (id, fs) ∈ structVariants e) :
    let N := c.pfx ++ Swift.anonymousStructName e id.original
    let L := (anonymousStruct e (Swift.anonymousStructName e id.original) id.original fs).genericTypes
    (s%"public struct " ++ N ++ Swift.renderGenericClause (Swift.genericParams U c e.decorators L) ++ s%": ") <:+: b ∧
    (s%"(" ++ (N ++ genericSuffix L) ++ s%")\n") <:+: b ∧
    (Swift.genericParams U c e.decorators L).map (·.name) = L :=
  ⟨(Sw.block_sites U c e kc hk st st' b h (id, fs) hp).1, (Sw.block_sites U c e kc hk st st' b h (id, fs) hp).2,
   swift_genericParams_names U c _ _⟩

/-- **Scala, text**: `case class <name>[T, U]` (`class <name>` for a variant without fields) and
`: <name>[T, U])` -/
theorem scala_text (c : Scala.Cfg) (e : RustEnum) (kc : Str × Str) (hk : e.keys = some kc) (b : Str)
    (h : C03E.Sc.writeItem c (.enum e) = .ok b) (id : Id) (fs : List RustField) (hp : (id, fs) ∈ structVariants e) :
    let N := e.id.renamed ++ id.original ++ s%"Inner"
    let G := Scala.genericSq (anonymousStruct e (e.id.renamed ++ id.original ++ s%"Inner") id.original fs).genericTypes
    ((if fs.isEmpty then s%"class " else s%"case class ") ++ N ++ G) <:+: b ∧ (s%": " ++ (N ++ G) ++ s%")") <:+: b :=
  Sc.block_sites c e kc hk b h (id, fs) hp

/-! ## 4. Go and Python -/

/-- **Go and Python declare the same list and refer to the helper by its bare name**: the helper
structs / classes carry `helperGens` as their parameter list (`[U any, T any]`, `Generic[U, T]`), the
variant's payload type is the helper's name and nothing else -/
theorem go_python_bare (e : RustEnum) :
    (∀ (U : UnicodeOps) (c : Go.Cfg) (tag content : Str) (cs : List Str) (st st' : Go.Imports) (d : Go.GoAlgEnum),
      Go.algEnumFacts U c e tag content cs st = .ok (d, st') →
      d.anonymous.map (·.generics) = (structVariants e).map fun p =>
        (anonymousStruct e [] p.1.original p.2).genericTypes) ∧
    (∀ (U : UnicodeOps) (c : Go.Cfg), c.uppercaseAcronyms = [] → ∀ (sn tag : Str) (cs : List Str) (id : Id)
      (cm : List Str) (fs : List RustField) (st st' : Go.Imports) (g : Go.GoAlgVariant),
      Go.algVariant U c e sn tag cs (.anonymousStruct id cm fs) st = .ok (g, st') →
      g.payload = some ⟨e.id.original ++ id.original ++ innerSuffix, true⟩) ∧
    (∀ (E : Ext) (c : Python.Cfg) (tag content : Str) (st st' : Python.St) (d : Python.PyUnion),
      Python.unionFacts E c e tag content st = .ok (d, st') →
      d.inner.map (·.generics) = (structVariants e).map fun p =>
        (anonymousStruct e [] p.1.original p.2).genericTypes) ∧
    (∀ (E : Ext) (c : Python.Cfg) (tag content : Str) (id : Id) (cm : List Str) (fs : List RustField)
      (st st' : Python.St) (v : Python.PyVariant),
      Python.variantFacts E c e tag content (.anonymousStruct id cm fs) st = .ok (v, st') →
      v.contentType = some (Python.innerName e id.original)) :=
  ⟨fun U c tag content cs st st' d h => helper_declares_go U c e tag content cs st st' d h,
   fun U c hc sn tag cs id cm fs st st' g h => go_python_use_site_bare.1 U c hc e sn tag cs id cm fs st st' g h,
   fun E c tag content st st' d h => helper_declares_python E c e tag content st st' d h,
   fun E c tag content id cm fs st st' v h => go_python_use_site_bare.2 E c e tag content id cm fs st st' v h⟩

/-- the text of the two declaration forms and of the two use sites: Go `type <name>[U any, T any] struct {`
and `\tvar res <name>` / `() *<name>` (no bracket after the name); Python
`class <name>(BaseModel, Generic[U, T]):` and `    <content key>: <name>` -/
theorem go_python_text :
    (∀ d : Go.GoStruct, d.generics ≠ [] →
      (s%"type " ++ d.name ++ s%"[" ++ Str.intercalate s%", " (d.generics.map (· ++ s%" any")) ++ s%"]" ++ s%" struct {\n")
        <:+: Go.renderStruct d) ∧
    (∀ (e : Go.GoAlgEnum) (v : Go.GoAlgVariant) (p : Go.GoPayload), v.payload = some p → p.byPointer = true →
      (s%"() *" ++ p.ty ++ s%" {\n") <:+: Go.renderAccessor e v ∧ (s%"(content *" ++ p.ty ++ s%") ") <:+: Go.renderConstructor e v) ∧
    (∀ c : Python.PyClass, c.generics ≠ [] →
      (s%"class " ++ c.name ++ s%"(BaseModel, Generic[" ++ Str.intercalate s%", " c.generics ++ s%"]):\n")
        <:+: Python.renderClass c) ∧
    (∀ (v : Python.PyVariant) (t : Str), v.contentType = some t →
      (s%"    " ++ v.contentKey ++ s%": " ++ t ++ s%"\n\n") <:+: Python.renderVariant v) := by
  refine ⟨?_, ?_, ?_, ?_⟩
  · intro d hd
    have : d.generics.isEmpty = false := by cases h : d.generics <;> simp_all
    exact infix_of_eq (Go.comments 0 d.comments) (d.fields.flatMap Go.renderField ++ s%"}\n")
      (by simp [Go.renderStruct, this, List.append_assoc])
  · intro e v p hp hb
    constructor
    · exact infix_of_eq (s%"func (" ++ e.short ++ s%" " ++ e.name ++ s%") " ++ v.name)
        (s%"\tres, _ := " ++ e.short ++ s%"." ++ e.contentField ++ s%".(*" ++ p.ty ++ s%")\n" ++ s%"\treturn " ++ s%"res\n}\n")
        (by simp [Go.renderAccessor, hp, hb, List.append_assoc])
    · exact infix_of_eq (s%"func New" ++ v.constName)
        (e.name ++ s%" {\n" ++ s%"    return " ++ e.name ++ s%"{\n" ++
          s%"        " ++ e.tagField ++ s%": " ++ v.constName ++ s%",\n" ++
          s%"        " ++ e.contentField ++ s%": " ++ s%"content,\n" ++ s%"    }\n}\n")
        (by simp [Go.renderConstructor, hp, hb, List.append_assoc])
  · intro c hc
    have : c.generics.isEmpty = false := by cases h : c.generics <;> simp_all
    exact infix_of_eq []
      (Python.docstring 1 c.comments ++
        (if c.modelConfig then s%"    model_config = ConfigDict(populate_by_name=True)\n\n" else []) ++
        (c.fields.flatMap Python.renderField) ++ (if c.fields.isEmpty then s%"    pass" else []) ++ nl)
      (by simp [Python.renderClass, this, List.append_assoc])
  · intro v t ht
    exact infix_of_eq (s%"class " ++ v.className ++ s%"(BaseModel):\n" ++ Python.docstring 1 v.comments ++
        s%"    " ++ v.tagKey ++ s%": Literal[" ++ v.tagLiteral ++ s%"] = " ++ v.tagLiteral ++ nl) []
      (by simp [Python.renderVariant, ht, nl, List.append_assoc])

/-! ## the statement at full strength -/

/-- **C05_HelperGenerics**: for every tagged enum — whatever its parameter list, whatever order the
fields of its struct variants mention the parameters in — (1) the helper's parameter list is the
mentioned parameters sorted by (first mentioning field, enum position), and only that list is;
(2) Kotlin, Swift, Scala: the helper declarations' (name, parameter list) are, in order, the
(name, argument list) of the cases' references, both equal to the `helperGens` lists; (3) the text of
the enum's block contains both sites with that clause; (4) Go and Python declare the same lists and
refer to the helper bare. -/
def C05_HelperGenerics_full : Prop :=
  ∀ (e : RustEnum) (kc : Str × Str), e.keys = some kc →
    (∀ (n v : Str) (fs : List RustField) (L : List Str), L = (anonymousStruct e n v fs).genericTypes ↔
      L.Pairwise (Before e fs) ∧ ∀ g, g ∈ L ↔ g ∈ e.genericTypes ∧ ∃ f ∈ fs, Mentions f.ty g) ∧
    (∀ (c : Kotlin.Cfg) (ds : List Kotlin.KtDecl), Kotlin.enumFacts c e = .ok ds →
      ∃ inners cases, ds = inners ++ [.sealedClass e.comments (c.pfx ++ e.id.renamed) (genericSuffix e.genericTypes) cases] ∧
        inners.map Kt.declares = cases.filterMap Kt.applies ∧
        inners.map Kt.declares = (structVariants e).map fun p =>
          (c.pfx ++ e.id.renamed ++ p.1.original ++ s%"Inner",
           genericSuffix (anonymousStruct e (e.id.renamed ++ p.1.original ++ s%"Inner") p.1.original p.2).genericTypes)) ∧
    (∀ (U : UnicodeOps) (c : Swift.Cfg) (st st' : Swift.St) (ss : List Swift.SwiftStruct) (d : Swift.SwiftEnum),
      Swift.enumFacts U c e st = .ok (ss, d, st') →
      ss.map (fun s => (Sw.declares s).1 ++ genericSuffix (Sw.declares s).2) =
        (e.variants.zip d.cases).filterMap (fun q => Sw.applies q.1 q.2) ∧
      ss.map Sw.declares = (structVariants e).map fun p =>
        (c.pfx ++ Swift.anonymousStructName e p.1.original,
         (anonymousStruct e (Swift.anonymousStructName e p.1.original) p.1.original p.2).genericTypes)) ∧
    (∀ (c : Scala.Cfg) (d : Scala.ScEnum), Scala.enumFacts c e = .ok d →
      d.inner.map (fun x => (Sc.declares x).1 ++ Scala.genericSq (Sc.declares x).2) =
        (e.variants.zip d.cases).filterMap (fun q => Sc.applies q.1 q.2) ∧
      d.inner.map Sc.declares = (structVariants e).map fun p =>
        (e.id.renamed ++ p.1.original ++ s%"Inner",
         (anonymousStruct e (e.id.renamed ++ p.1.original ++ s%"Inner") p.1.original p.2).genericTypes)) ∧
    (∀ (id : Id) (fs : List RustField), (id, fs) ∈ structVariants e →
      (∀ (c : Kotlin.Cfg) (b : Str), C03E.Kt.writeItem c (.enum e) = .ok b →
        ((if fs.isEmpty then s%"object " else s%"data class ") ++ (c.pfx ++ e.id.renamed ++ id.original ++ s%"Inner") ++
          genericSuffix (helperGens e fs)) <:+: b ∧
        (s%": " ++ (c.pfx ++ e.id.renamed ++ id.original ++ s%"Inner") ++ genericSuffix (helperGens e fs) ++ s%")") <:+: b) ∧
      (∀ (U : UnicodeOps) (c : Swift.Cfg) (st st' : Swift.St) (b : Str), Swift.writeItem U c (.enum e) st = .ok (b, st') →
        (s%"public struct " ++ (c.pfx ++ Swift.anonymousStructName e id.original) ++
          Swift.renderGenericClause (Swift.genericParams U c e.decorators (helperGens e fs)) ++ s%": ") <:+: b ∧
        (s%"(" ++ (c.pfx ++ Swift.anonymousStructName e id.original ++ genericSuffix (helperGens e fs)) ++ s%")\n") <:+: b) ∧
      (∀ (c : Scala.Cfg) (b : Str), C03E.Sc.writeItem c (.enum e) = .ok b →
        ((if fs.isEmpty then s%"class " else s%"case class ") ++ (e.id.renamed ++ id.original ++ s%"Inner") ++
          Scala.genericSq (helperGens e fs)) <:+: b ∧
        (s%": " ++ (e.id.renamed ++ id.original ++ s%"Inner" ++ Scala.genericSq (helperGens e fs)) ++ s%")") <:+: b)) ∧
    (∀ (U : UnicodeOps) (c : Go.Cfg) (tag content : Str) (cs : List Str) (st st' : Go.Imports) (d : Go.GoAlgEnum),
      Go.algEnumFacts U c e tag content cs st = .ok (d, st') →
      d.anonymous.map (·.generics) = (structVariants e).map fun p => helperGens e p.2) ∧
    (∀ (E : Ext) (c : Python.Cfg) (tag content : Str) (st st' : Python.St) (d : Python.PyUnion),
      Python.unionFacts E c e tag content st = .ok (d, st') →
      d.inner.map (·.generics) = (structVariants e).map fun p => helperGens e p.2)

theorem C05_HelperGenerics : C05_HelperGenerics_full := by
  intro e kc hk
  refine ⟨fun n v fs L => helper_order_exact e n v fs L, fun c ds h => kotlin_sites c e kc hk ds h,
    fun U c st st' ss d h => swift_sites U c e kc hk st st' ss d h, fun c d h => scala_sites c e kc hk d h,
    fun id fs hp => ⟨fun c b h => Kt.block_sites c e kc hk b h (id, fs) hp,
      fun U c st st' b h => Sw.block_sites U c e kc hk st st' b h (id, fs) hp,
      fun c b h => Sc.block_sites c e kc hk b h (id, fs) hp⟩,
    fun U c tag content cs st st' d h => helper_declares_go U c e tag content cs st st' d h,
    fun E c tag content st st' d h => helper_declares_python E c e tag content st st' d h⟩

/-! ## non-vacuity (the witness of `C09_HelperParams`: `enum Gn<T, U, W>` with
`Va { g: T, m: HashMap<String, Vec<U>>, k: Wrap<Option<[T; 3]>>, s: &[U], p: u8 }`, `Vb { w: HashMap<W, u8> }`,
`Vc { p: u8 }`, `Vd { x: U, y: T }`, `Ve { h: T<u8> }`, `Vf(T)`) -/

/-- first-mention order is not the enum's declaration order: `Vd { x: U, y: T }` of `Gn<T, U, W>` -/
theorem not_declaration_order :
    (anonymousStruct wGn3 [] [] wVd).genericTypes = [fU, fT] ∧ wGn3.genericTypes.filter (fun g => g == fU || g == fT) = [fT, fU] := by
  decide +kernel

/-- … and within one field it is the enum's order, not the order in which the field's type writes
them: `V { m: HashMap<U, T> }` of `E<T, U>` gives `[T, U]` -/
theorem not_textual_order_within_a_field :
    (anonymousStruct { wGn3 with genericTypes := [fT, fU] } [] [] [fld s%"m" (.hashMap (.simple fU) (.simple fT))]).genericTypes =
      [fT, fU] := by decide +kernel

/-- the keys of `Before` on the witness: `U` is first mentioned by field 0, `T` by field 1 -/
example : firstMention wVd fU = 0 ∧ firstMention wVd fT = 1 ∧ Before wGn3 wVd fU fT ∧ ¬ Before wGn3 wVd fT fU := by
  decide +kernel

/-- the hypothesis `(id, fs) ∈ structVariants e` of the text theorems on the witness -/
example : (mkId s%"Vd" none, wVd) ∈ structVariants wGn3 := by simp [structVariants, wGn3]

/-- `kotlin_sites` / `kotlin_text` on the witness (prefix `OP`): hypotheses met, and the two sites -/
theorem kotlin_example :
    wGn3.keys = some (s%"t", s%"c") ∧
    ((Kotlin.enumFacts { pfx := s%"OP" } wGn3).bind fun ds =>
      .ok (ds.dropLast.map Kt.declares, ds.getLast?.map fun d => match d with
        | .sealedClass _ _ _ cases => cases.filterMap Kt.applies | _ => [])) =
      .ok ([(s%"OPGnVaInner", s%"<T, U>"), (s%"OPGnVbInner", s%"<W>"), (s%"OPGnVcInner", s%""), (s%"OPGnVdInner", s%"<U, T>"),
            (s%"OPGnVeInner", s%"<T>")],
           some [(s%"OPGnVaInner", s%"<T, U>"), (s%"OPGnVbInner", s%"<W>"), (s%"OPGnVcInner", s%""), (s%"OPGnVdInner", s%"<U, T>"),
            (s%"OPGnVeInner", s%"<T>")]) ∧
    (C03E.Kt.writeItem { pfx := s%"OP" } (.enum wGn3)).isOk = true := by
  decide +kernel

theorem swift_example :
    ((Swift.enumFacts .ascii { pfx := s%"OP" } wGn3 false).bind fun (ss, d, _) =>
      .ok (ss.map (fun s => (Sw.declares s).1 ++ genericSuffix (Sw.declares s).2),
           (wGn3.variants.zip d.cases).filterMap (fun q => Sw.applies q.1 q.2))) =
      .ok ([s%"OPGnVaInner<T, U>", s%"OPGnVbInner<W>", s%"OPGnVcInner", s%"OPGnVdInner<U, T>", s%"OPGnVeInner<T>"],
           [s%"OPGnVaInner<T, U>", s%"OPGnVbInner<W>", s%"OPGnVcInner", s%"OPGnVdInner<U, T>", s%"OPGnVeInner<T>"]) ∧
    Swift.renderGenericClause (Swift.genericParams .ascii { pfx := s%"OP" } wGn3.decorators [fU, fT]) =
      s%"<U: Codable, T: Codable>" ∧
    (Swift.writeItem .ascii { pfx := s%"OP" } (.enum wGn3) false).isOk = true := by
  decide +kernel

theorem scala_example :
    ((Scala.enumFacts { package := s%"com.example" } wGn3).bind fun d =>
      .ok (d.inner.map (fun x => (Sc.declares x).1 ++ Scala.genericSq (Sc.declares x).2),
           (wGn3.variants.zip d.cases).filterMap (fun q => Sc.applies q.1 q.2))) =
      .ok ([s%"GnVaInner[T, U]", s%"GnVbInner[W]", s%"GnVcInner", s%"GnVdInner[U, T]", s%"GnVeInner[T]"],
           [s%"GnVaInner[T, U]", s%"GnVbInner[W]", s%"GnVcInner", s%"GnVdInner[U, T]", s%"GnVeInner[T]"]) ∧
    (C03E.Sc.writeItem { package := s%"com.example" } (.enum wGn3)).isOk = true := by
  decide +kernel

/-- Go and Python on the witness: the declaration carries `[U, T]`, the use site the bare name -/
theorem go_python_example :
    ((Go.algEnumFacts .ascii { package := s%"proto" } wGn3 s%"t" s%"c" [] []).bind fun (d, _) =>
      .ok (d.anonymous.map (fun s => (s.name, s.generics)), d.variants.filterMap (·.payload))) =
      .ok ([(s%"GnVaInner", [fT, fU]), (s%"GnVbInner", [fW]), (s%"GnVcInner", []), (s%"GnVdInner", [fU, fT]), (s%"GnVeInner", [fT])],
           [⟨s%"GnVaInner", true⟩, ⟨s%"GnVbInner", true⟩, ⟨s%"GnVcInner", true⟩, ⟨s%"GnVdInner", true⟩, ⟨s%"GnVeInner", true⟩,
            ⟨s%"T", false⟩]) ∧
    ((Python.unionFacts E0 {} wGn2 s%"t" s%"c" {}).bind fun (d, _) =>
      .ok (d.inner.map (fun s => (s.name, s.generics)), d.variants.filterMap (·.contentType))) =
      .ok ([(s%"GnVaInner", [fT, fU]), (s%"GnVcInner", []), (s%"GnVdInner", [fU, fT]), (s%"GnVeInner", [fT])],
           [s%"GnVaInner", s%"GnVcInner", s%"GnVdInner", s%"GnVeInner", s%"T"]) := by
  decide +kernel

end TsV.C05_HelperGenerics
