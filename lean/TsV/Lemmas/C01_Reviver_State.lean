import TsV.Lemmas.C01_Reviver_Trace
/-!
# C01, the reviver — what the TypeScript printer does to its state

* `resetsOf`: the resets `format_type` performs on a Rust type, as a pure function of the type and
  the type mappings (it mirrors the traversal of `formatType`: a mapped type is not descended into);
  `formatType_state`: the state after `formatType` is the state before with these resets applied.
* `Step` / `itemsSteps`: the printer's walk over the items of a file as a list of steps (a property
  line with its field, or a type formatted elsewhere: tuple payload, alias target, const type), the
  state threaded exactly as `writeItems` threads it (`writeItems_steps`), and the events of each step
  (`stepEvents`): `itemsSteps_state`.
-/
namespace TsV.C01R
open TsV TsV.Lang TsV.Lang.TypeScript TsV.Outcome

theorem bindOk {α β} {x : Outcome α} {f : α → Outcome β} {b : β} (h : x.bind f = .ok b) :
    ∃ a, x = .ok a ∧ f a = .ok b := (bind_eq_ok x f b).1 h

theorem bindPair {α β γ} {x : Outcome (α × β)} {f : α × β → Outcome γ} {r}
    (h : x.bind f = .ok r) : ∃ a b, x = .ok (a, b) ∧ f (a, b) = .ok r := by
  cases x with
  | ok p => exact ⟨p.1, p.2, rfl, h⟩
  | err e => cases h
  | panic s => cases h

/-! ## resets -/

/-- the type-mapping prelude of `format_special_type`, on the reset list -/
def spResets (cfg : Cfg) (t : RustType) (inner : List Str) : List Str :=
  match mapGet cfg.typeMappings t.display with
  | some m => if hasCustom m then [m] else []
  | none => inner

mutual
  /-- the custom-translated types whose entry `format_type` resets, in order -/
  def resetsOf (cfg : Cfg) : RustType → List Str
    | .simple _ => []
    | .generic id ps =>
      match mapGet cfg.typeMappings id with
      | some _ => []
      | none => resetsOfList cfg ps
    | t@(.vec r) => spResets cfg t (resetsOf cfg r)
    | t@(.slice r) => spResets cfg t (resetsOf cfg r)
    | t@(.array r _) => spResets cfg t (resetsOf cfg r)
    | t@(.option r) => spResets cfg t (resetsOf cfg r)
    | t@(.hashMap k v) => spResets cfg t (resetsOf cfg k ++ resetsOf cfg v)
    | t@(.prim _) => spResets cfg t []
  def resetsOfList (cfg : Cfg) : List RustType → List Str
    | [] => []
    | t :: ts => resetsOf cfg t ++ resetsOfList cfg ts
end

def resetEvents (rs : List Str) : List Ev := rs.map Ev.reset

theorem resetEvents_append (a b : List Str) : resetEvents (a ++ b) = resetEvents a ++ resetEvents b := by
  simp [resetEvents]

/-- every reset comes from a mapping of a *special* type's display to a custom-translated type -/
theorem mem_spResets {cfg : Cfg} {t : RustType} {inner : List Str} {m : Str} (h : m ∈ spResets cfg t inner) :
    (mapGet cfg.typeMappings t.display = some m ∧ hasCustom m = true) ∨ m ∈ inner := by
  unfold spResets at h
  split at h
  · rename_i m' hm
    split at h
    · simp only [List.mem_singleton] at h; subst h; exact Or.inl ⟨hm, by assumption⟩
    · simp at h
  · exact Or.inr h

/-- without a mapping whose target is custom-translated nothing is ever reset -/
def NoCustomTarget (cfg : Cfg) : Prop := ∀ p ∈ cfg.typeMappings, hasCustom p.2 = false

instance (cfg : Cfg) : Decidable (NoCustomTarget cfg) := by unfold NoCustomTarget; infer_instance

theorem mapGet_mem {m : List (Str × Str)} {k v : Str} (h : mapGet m k = some v) : ∃ p ∈ m, p.2 = v := by
  unfold mapGet at h
  cases hf : m.find? (·.1 == k) with
  | none => simp [hf] at h
  | some p =>
    simp only [hf, Option.map_some, Option.some.injEq] at h
    exact ⟨p, List.mem_of_find?_eq_some hf, h⟩

theorem spResets_nil {cfg : Cfg} (H : NoCustomTarget cfg) (t : RustType) : spResets cfg t [] = [] := by
  unfold spResets
  split
  · rename_i m hm
    obtain ⟨p, hp, rfl⟩ := mapGet_mem hm
    simp [H p hp]
  · rfl

mutual
  theorem resetsOf_nil {cfg : Cfg} (H : NoCustomTarget cfg) : ∀ t : RustType, resetsOf cfg t = []
    | .simple _ => by simp [resetsOf]
    | .generic id ps => by
      simp only [resetsOf]
      split
      · rfl
      · exact resetsOfList_nil H ps
    | .vec r => by simp only [resetsOf, resetsOf_nil H r]; exact spResets_nil H _
    | .slice r => by simp only [resetsOf, resetsOf_nil H r]; exact spResets_nil H _
    | .array r n => by simp only [resetsOf, resetsOf_nil H r]; exact spResets_nil H _
    | .option r => by simp only [resetsOf, resetsOf_nil H r]; exact spResets_nil H _
    | .hashMap k v => by
      simp only [resetsOf, resetsOf_nil H k, resetsOf_nil H v, List.append_nil]; exact spResets_nil H _
    | .prim p => by simp only [resetsOf]; exact spResets_nil H _
  theorem resetsOfList_nil {cfg : Cfg} (H : NoCustomTarget cfg) : ∀ ts : List RustType, resetsOfList cfg ts = []
    | [] => by simp [resetsOfList]
    | t :: ts => by simp [resetsOfList, resetsOf_nil H t, resetsOfList_nil H ts]
end

/-! ## `formatType` and the state -/

theorem special_state (cfg : Cfg) (gens : List Str) (t : RustType) (st : CustomMap)
    (k : CustomMap → Outcome (Str × CustomMap)) (inner : List Str) (s : Str) (st' : CustomMap)
    (hk : ∀ s st', k st = .ok (s, st') → st' = run st (resetEvents inner))
    (h : special cfg gens t st k = .ok (s, st')) : st' = run st (resetEvents (spResets cfg t inner)) := by
  unfold special at h
  unfold spResets
  cases hm : mapGet cfg.typeMappings t.display with
  | some m =>
    rw [hm] at h
    simp only [Outcome.ok.injEq, Prod.mk.injEq] at h
    rw [← h.2]
    by_cases hc : hasCustom m = true
    · simp [hc, resetEvents, run, Ev.apply]
    · simp [hc, resetEvents, run]
  | none => rw [hm] at h; exact hk s st' h

mutual
  theorem formatType_state (cfg : Cfg) (gens : List Str) : ∀ (t : RustType) (st : CustomMap) (s : Str) (st' : CustomMap),
      formatType cfg gens t st = .ok (s, st') → st' = run st (resetEvents (resetsOf cfg t))
    | .simple id, st, s, st', h => by
      simp only [formatType, Outcome.ok.injEq, Prod.mk.injEq] at h
      rw [← h.2]; rfl
    | .generic id ps, st, s, st', h => by
      simp only [formatType] at h
      simp only [resetsOf]
      cases hm : mapGet cfg.typeMappings id with
      | some m =>
        rw [hm] at h
        simp only [Outcome.ok.injEq, Prod.mk.injEq] at h
        rw [← h.2]; rfl
      | none =>
        rw [hm] at h
        simp only at h
        cases hps : formatTypes cfg gens ps st with
        | ok r =>
          obtain ⟨strs, st1⟩ := r
          rw [hps] at h
          simp only [Outcome.ok.injEq, Prod.mk.injEq] at h
          rw [← h.2]; exact formatTypes_state cfg gens ps st strs st1 hps
        | err e => rw [hps] at h; simp at h
        | panic e => rw [hps] at h; simp at h
    | .vec r, st, s, st', h => by
      simp only [formatType] at h
      simp only [resetsOf]
      refine special_state cfg gens _ st _ _ s st' ?_ h
      intro s2 st2 hk
      obtain ⟨s1, st1, h1, h2⟩ := bindPair hk
      simp only [Outcome.ok.injEq, Prod.mk.injEq] at h2
      rw [← h2.2]; exact formatType_state cfg gens r st s1 st1 h1
    | .slice r, st, s, st', h => by
      simp only [formatType] at h
      simp only [resetsOf]
      refine special_state cfg gens _ st _ _ s st' ?_ h
      intro s2 st2 hk
      obtain ⟨s1, st1, h1, h2⟩ := bindPair hk
      simp only [Outcome.ok.injEq, Prod.mk.injEq] at h2
      rw [← h2.2]; exact formatType_state cfg gens r st s1 st1 h1
    | .array r n, st, s, st', h => by
      simp only [formatType] at h
      simp only [resetsOf]
      refine special_state cfg gens _ st _ _ s st' ?_ h
      intro s2 st2 hk
      obtain ⟨s1, st1, h1, h2⟩ := bindPair hk
      simp only [Outcome.ok.injEq, Prod.mk.injEq] at h2
      rw [← h2.2]; exact formatType_state cfg gens r st s1 st1 h1
    | .option r, st, s, st', h => by
      simp only [formatType] at h
      simp only [resetsOf]
      refine special_state cfg gens _ st _ _ s st' ?_ h
      intro s2 st2 hk
      exact formatType_state cfg gens r st s2 st2 hk
    | .hashMap k v, st, s, st', h => by
      simp only [formatType] at h
      simp only [resetsOf]
      refine special_state cfg gens _ st _ _ s st' ?_ h
      intro s3 st3 hk
      have key : ∀ (x : Outcome (Str × CustomMap)),
          x = ((formatType cfg gens k st).bind fun (ks, st) =>
            (formatType cfg gens v st).bind fun (vs, st) =>
              .ok (s%"Record<" ++ ks ++ s%", " ++ vs ++ s%">", st)) → x = .ok (s3, st3) →
          st3 = run st (resetEvents (resetsOf cfg k ++ resetsOf cfg v)) := by
        intro x hx hxo
        rw [hx] at hxo
        obtain ⟨s1, st1, h1, hxo⟩ := bindPair hxo
        obtain ⟨s2, st2, h2, h3⟩ := bindPair hxo
        simp only [Outcome.ok.injEq, Prod.mk.injEq] at h3
        rw [← h3.2, resetEvents_append, run_append, ← formatType_state cfg gens k st s1 st1 h1]
        exact formatType_state cfg gens v st1 s2 st2 h2
      split at hk
      · split at hk
        · simp at hk
        · exact key _ rfl hk
      · exact key _ rfl hk
    | .prim p, st, s, st', h => by
      simp only [formatType] at h
      simp only [resetsOf]
      refine special_state cfg gens _ st _ _ s st' ?_ h
      intro s2 st2 hk
      cases p <;> simp only [Outcome.ok.injEq, Prod.mk.injEq] at hk <;>
        first | (rw [← hk.2]; rfl) | (simp at hk)
  theorem formatTypes_state (cfg : Cfg) (gens : List Str) : ∀ (ts : List RustType) (st : CustomMap) (ss : List Str)
      (st' : CustomMap), formatTypes cfg gens ts st = .ok (ss, st') → st' = run st (resetEvents (resetsOfList cfg ts))
    | [], st, ss, st', h => by
      simp only [formatTypes, Outcome.ok.injEq, Prod.mk.injEq] at h
      rw [← h.2]; rfl
    | t :: ts, st, ss, st', h => by
      simp only [formatTypes] at h
      obtain ⟨s1, st1, h1, h⟩ := bindPair h
      obtain ⟨s2, st2, h2, h3⟩ := bindPair h
      simp only [Outcome.ok.injEq, Prod.mk.injEq] at h3
      rw [← h3.2]
      simp only [resetsOfList]
      rw [resetEvents_append, run_append, ← formatType_state cfg gens t st s1 st1 h1]
      exact formatTypes_state cfg gens ts st1 s2 st2 h2
end

/-! ## the walk over a file as steps -/

/-- one step of the printer that can touch the state -/
inductive Step where
  | field (f : RustField) (tf : TsField)   -- `write_field`: a property line
  | ty (t : RustType)                      -- `format_type` elsewhere: tuple payload, alias target, const type

/-- the events of one step -/
def stepEvents (cfg : Cfg) : Step → List Ev
  | .ty t => resetEvents (resetsOf cfg t)
  | .field f tf =>
    (match typeOverride f .typescript with
     | some _ => []
     | none => resetEvents (resetsOf cfg f.ty)) ++
    (if hasCustom tf.ty then [Ev.add tf.ty f.id.renamed] else [])

def eventsOf (cfg : Cfg) (steps : List Step) : List Ev := steps.flatMap (stepEvents cfg)

theorem eventsOf_append (cfg : Cfg) (a b : List Step) : eventsOf cfg (a ++ b) = eventsOf cfg a ++ eventsOf cfg b := by
  simp [eventsOf]

theorem fieldFacts_state (cfg : Cfg) (gens : List Str) (f : RustField) (st st' : CustomMap) (tf : TsField)
    (h : fieldFacts cfg gens f st = .ok (tf, st')) : st' = run st (stepEvents cfg (.field f tf)) := by
  unfold fieldFacts at h
  obtain ⟨ty, st1, hty, h⟩ := bindPair h
  simp only [Outcome.ok.injEq, Prod.mk.injEq] at h
  obtain ⟨h1, h2⟩ := h
  have hty' : tf.ty = ty := by rw [← h1]
  simp only [stepEvents, hty']
  rw [run_append, ← h2]
  have hst1 : st1 = run st (match typeOverride f .typescript with
      | some _ => []
      | none => resetEvents (resetsOf cfg f.ty)) := by
    cases ho : typeOverride f .typescript with
    | some t =>
      rw [ho] at hty
      simp only [Outcome.ok.injEq, Prod.mk.injEq] at hty; rw [← hty.2]; rfl
    | none =>
      rw [ho] at hty
      exact formatType_state cfg gens f.ty st ty st1 hty
  rw [← hst1]
  split <;> rfl

/-- the property lines of a field list as steps (facts: `C01.TypeScript.fieldsFacts`) -/
def fieldSteps (fs : List RustField) (tfs : List TsField) : List Step :=
  (fs.zip tfs).map fun p => Step.field p.1 p.2

theorem fieldsFacts_state (cfg : Cfg) (gens : List Str) : ∀ (fs : List RustField) (st st' : CustomMap)
    (tfs : List TsField), C01.TypeScript.fieldsFacts cfg gens fs st = .ok (tfs, st') →
    tfs.length = fs.length ∧ st' = run st (eventsOf cfg (fieldSteps fs tfs))
  | [], st, st', tfs, h => by
    simp only [C01.TypeScript.fieldsFacts, Outcome.ok.injEq, Prod.mk.injEq] at h
    obtain ⟨rfl, rfl⟩ := h
    exact ⟨rfl, rfl⟩
  | f :: fs, st, st', tfs, h => by
    simp only [C01.TypeScript.fieldsFacts] at h
    obtain ⟨tf, st1, h1, h⟩ := bindPair h
    obtain ⟨rest, st2, h2, h⟩ := bindPair h
    simp only [Outcome.ok.injEq, Prod.mk.injEq] at h
    obtain ⟨rfl, rfl⟩ := h
    obtain ⟨hl, hs⟩ := fieldsFacts_state cfg gens fs st1 st2 rest h2
    refine ⟨by simp [hl], ?_⟩
    have : fieldSteps (f :: fs) (tf :: rest) = Step.field f tf :: fieldSteps fs rest := by simp [fieldSteps]
    rw [this]
    show st2 = run st (stepEvents cfg (.field f tf) ++ eventsOf cfg (fieldSteps fs rest))
    rw [run_append, ← fieldFacts_state cfg gens f st st1 tf h1]
    exact hs

/-- the steps of the variants of a tagged union, the state threaded as `writeVariants` threads it -/
def variantsSteps (cfg : Cfg) (e : RustEnum) : List RustEnumVariant → CustomMap → Outcome (List Step × CustomMap)
  | [], st => .ok ([], st)
  | .unit _ _ :: vs, st => variantsSteps cfg e vs st
  | .tuple _ _ ty :: vs, st =>
    (formatType cfg e.genericTypes ty st).bind fun (_, st) =>
    (variantsSteps cfg e vs st).bind fun (rest, st) => .ok (Step.ty ty :: rest, st)
  | .anonymousStruct _ _ fs :: vs, st =>
    (C01.TypeScript.fieldsFacts cfg e.genericTypes fs st).bind fun (tfs, st) =>
    (variantsSteps cfg e vs st).bind fun (rest, st) => .ok (fieldSteps fs tfs ++ rest, st)

theorem variantsSteps_state (cfg : Cfg) (e : RustEnum) : ∀ (vs : List RustEnumVariant) (st st' : CustomMap)
    (steps : List Step), variantsSteps cfg e vs st = .ok (steps, st') → st' = run st (eventsOf cfg steps)
  | [], st, st', steps, h => by
    simp only [variantsSteps, Outcome.ok.injEq, Prod.mk.injEq] at h
    obtain ⟨rfl, rfl⟩ := h; rfl
  | .unit _ _ :: vs, st, st', steps, h => by
    simp only [variantsSteps] at h
    exact variantsSteps_state cfg e vs st st' steps h
  | .tuple _ _ ty :: vs, st, st', steps, h => by
    simp only [variantsSteps] at h
    obtain ⟨s1, st1, h1, h⟩ := bindPair h
    obtain ⟨rest, st2, h2, h⟩ := bindPair h
    simp only [Outcome.ok.injEq, Prod.mk.injEq] at h
    obtain ⟨rfl, rfl⟩ := h
    show st2 = run st (stepEvents cfg (.ty ty) ++ eventsOf cfg rest)
    rw [run_append]
    show st2 = run (run st (resetEvents (resetsOf cfg ty))) (eventsOf cfg rest)
    rw [← formatType_state cfg e.genericTypes ty st s1 st1 h1]
    exact variantsSteps_state cfg e vs st1 st2 rest h2
  | .anonymousStruct _ _ fs :: vs, st, st', steps, h => by
    simp only [variantsSteps] at h
    obtain ⟨tfs, st1, h1, h⟩ := bindPair h
    obtain ⟨rest, st2, h2, h⟩ := bindPair h
    simp only [Outcome.ok.injEq, Prod.mk.injEq] at h
    obtain ⟨rfl, rfl⟩ := h
    rw [eventsOf_append, run_append, ← (fieldsFacts_state cfg e.genericTypes fs st st1 tfs h1).2]
    exact variantsSteps_state cfg e vs st1 st2 rest h2

/-- the steps of one item -/
def itemSteps (cfg : Cfg) (it : RustItem) (st : CustomMap) : Outcome (List Step × CustomMap) :=
  match it with
  | .struct s =>
    (C01.TypeScript.fieldsFacts cfg s.genericTypes s.fields st).bind fun (tfs, st) => .ok (fieldSteps s.fields tfs, st)
  | .enum e =>
    match e.keys with
    | none => .ok ([], st)
    | some _ => variantsSteps cfg e e.variants st
  | .alias a => (formatType cfg a.genericTypes a.ty st).bind fun (_, st) => .ok ([Step.ty a.ty], st)
  | .const c => (formatType cfg [] c.ty st).bind fun (_, st) => .ok ([Step.ty c.ty], st)

def itemsSteps (cfg : Cfg) : List RustItem → CustomMap → Outcome (List Step × CustomMap)
  | [], st => .ok ([], st)
  | it :: its, st =>
    (itemSteps cfg it st).bind fun (a, st) =>
    (itemsSteps cfg its st).bind fun (b, st) => .ok (a ++ b, st)

theorem itemSteps_state (cfg : Cfg) (it : RustItem) (st st' : CustomMap) (steps : List Step)
    (h : itemSteps cfg it st = .ok (steps, st')) : st' = run st (eventsOf cfg steps) := by
  cases it with
  | struct s =>
    simp only [itemSteps] at h
    obtain ⟨tfs, st1, h1, h⟩ := bindPair h
    simp only [Outcome.ok.injEq, Prod.mk.injEq] at h
    obtain ⟨rfl, rfl⟩ := h
    exact (fieldsFacts_state cfg s.genericTypes s.fields st st1 tfs h1).2
  | «enum» e =>
    simp only [itemSteps] at h
    split at h
    · simp only [Outcome.ok.injEq, Prod.mk.injEq] at h
      obtain ⟨rfl, rfl⟩ := h; rfl
    · exact variantsSteps_state cfg e e.variants st st' steps h
  | alias a =>
    simp only [itemSteps] at h
    obtain ⟨s1, st1, h1, h⟩ := bindPair h
    simp only [Outcome.ok.injEq, Prod.mk.injEq] at h
    obtain ⟨rfl, rfl⟩ := h
    show st1 = run st (stepEvents cfg (.ty a.ty) ++ [])
    rw [List.append_nil]
    exact formatType_state cfg a.genericTypes a.ty st s1 st1 h1
  | const c =>
    simp only [itemSteps] at h
    obtain ⟨s1, st1, h1, h⟩ := bindPair h
    simp only [Outcome.ok.injEq, Prod.mk.injEq] at h
    obtain ⟨rfl, rfl⟩ := h
    show st1 = run st (stepEvents cfg (.ty c.ty) ++ [])
    rw [List.append_nil]
    exact formatType_state cfg [] c.ty st s1 st1 h1

theorem itemsSteps_state (cfg : Cfg) : ∀ (its : List RustItem) (st st' : CustomMap) (steps : List Step),
    itemsSteps cfg its st = .ok (steps, st') → st' = run st (eventsOf cfg steps)
  | [], st, st', steps, h => by
    simp only [itemsSteps, Outcome.ok.injEq, Prod.mk.injEq] at h
    obtain ⟨rfl, rfl⟩ := h; rfl
  | it :: its, st, st', steps, h => by
    simp only [itemsSteps] at h
    obtain ⟨a, st1, h1, h⟩ := bindPair h
    obtain ⟨b, st2, h2, h⟩ := bindPair h
    simp only [Outcome.ok.injEq, Prod.mk.injEq] at h
    obtain ⟨rfl, rfl⟩ := h
    rw [eventsOf_append, run_append, ← itemSteps_state cfg it st st1 a h1]
    exact itemsSteps_state cfg its st1 st2 b h2

end TsV.C01R
