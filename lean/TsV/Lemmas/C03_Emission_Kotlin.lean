import TsV.Lemmas.C03_Emission_Common
/-!
# C03, emission clause — Kotlin
-/
namespace TsV.C03E.Kt
open TsV TsV.Lang TsV.Lang.Kotlin TsV.C03E

/-- the text written for one item: its declarations, rendered (the Kotlin printer has no state) -/
def writeItem (cfg : Cfg) (it : RustItem) : Outcome Str :=
  (itemFacts cfg it).bind fun ds => .ok (ds.flatMap renderDecl)

theorem itemsFacts_blocks (cfg : Cfg) : ∀ (its : List RustItem) (ds : List KtDecl), itemsFacts cfg its = .ok ds →
    ∃ dss : List (List KtDecl), Paired (fun it d => itemFacts cfg it = .ok d) its dss ∧ ds = dss.flatten
  | [], ds, h => by
    simp [itemsFacts] at h; subst h
    exact ⟨[], .nil, rfl⟩
  | it :: its, ds, h => by
    simp only [itemsFacts] at h
    obtain ⟨a, ha, h⟩ := bindOk h
    obtain ⟨b, hb, h⟩ := bindOk h
    cases h
    obtain ⟨dss, hp, rfl⟩ := itemsFacts_blocks cfg its b hb
    exact ⟨a :: dss, .cons ha hp, by simp⟩

theorem paired_blocks (cfg : Cfg) {its : List RustItem} {dss : List (List KtDecl)}
    (h : Paired (fun it d => itemFacts cfg it = .ok d) its dss) :
    Paired (fun it b => writeItem cfg it = .ok b) its (dss.map fun ds => ds.flatMap renderDecl) := by
  induction h with
  | nil => exact .nil
  | cons hr _ ih => exact .cons (by simp [writeItem, hr]) ih

theorem flatMap_flatten {α β} (f : α → List β) (l : List (List α)) :
    l.flatten.flatMap f = (l.map fun x => x.flatMap f).flatten := by
  induction l with
  | nil => rfl
  | cons x t ih => simp [List.flatMap_append, ih]

/-- the text before the blocks -/
def header (cfg : Cfg) (d : ParsedData) (imports : Option Pipeline.ScopedCrateTypes) : Str :=
  beginFile cfg d ++ (if d.multiFile then writeImports cfg (imports.getD []) else [])

theorem generate_blocks (cfg : Cfg) (d : ParsedData) (imports : Option Pipeline.ScopedCrateTypes) (text : Str)
    (h : generate cfg d imports = .ok text) :
    ∃ items blocks, Pipeline.generateOrder d = some items ∧
      Paired (fun it b => writeItem cfg it = .ok b) items blocks ∧
      text = header cfg d imports ++ blocks.flatten := by
  unfold generate at h
  cases ho : Pipeline.generateOrder d with
  | none => simp [ho] at h
  | some items =>
    simp only [ho] at h
    obtain ⟨ds, hd, h⟩ := bindOk h
    cases h
    obtain ⟨dss, hp, rfl⟩ := itemsFacts_blocks cfg items ds hd
    exact ⟨items, _, rfl, paired_blocks cfg hp, by simp [header, flatMap_flatten]⟩

/-! ## one declaration defines one name -/

def ktKw : KtDecl → Str
  | .typeAlias .. => s%"typealias "
  | .valueClass .. => s%"value class "
  | .object .. => s%"object "
  | .dataClass .. => s%"data class "
  | .enumClass .. => s%"enum class "
  | .sealedClass .. => s%"sealed class "

/-- the generic-parameter strings the model puts after a name -/
def IsGen (g : Str) : Prop := ∃ gs, g = genericSuffix gs

theorem nameEnd_gen {g q : Str} (hg : IsGen g) (h : NameEnd q) : NameEnd (g ++ q) := by
  obtain ⟨gs, rfl⟩ := hg
  exact nameEnd_genericSuffix gs h

/-- the declarations the model builds carry `genericSuffix …` in their `generics` slot -/
def WfDecl : KtDecl → Prop
  | .typeAlias _ _ g _ => IsGen g
  | .dataClass _ _ g _ _ => IsGen g
  | .enumClass _ _ g _ => IsGen g
  | .sealedClass _ _ g _ => IsGen g
  | _ => True

theorem comments_lineStart (n : Nat) (cs : List Str) : LineStart (comments n cs) := by
  unfold comments
  exact lineStart_flatMap _ _ fun c _ => lineStart_append_right _ (by simp [nl])

theorem renderDecl_defines (d : KtDecl) (hw : WfDecl d) : DefinesHead (ktKw d) (C09.ktName d) (renderDecl d) := by
  cases d with
  | typeAlias cs name gens ty =>
    exact definesHead_mk (comments 0 cs) (gens ++ (s%" = " ++ ty ++ s%"\n\n"))
      (by simp [renderDecl, ktKw, C09.ktName, List.append_assoc]) (comments_lineStart _ _)
      (nameEnd_gen hw (nameEnd_cons _ (by simp [delims])))
  | valueClass cs name p red =>
    exact definesHead_mk (comments 0 cs ++ s%"@Serializable\n@JvmInline\n")
      (s%"(\n" ++ (renderParam p ++ nl ++ (if red then
        s%") {\n\tfun unwrap() = value\n\n\toverride fun toString(): String = \"***\"\n}\n" else s%")\n") ++ nl))
      (by simp [renderDecl, ktKw, C09.ktName, List.append_assoc]) (lineStart_append_right _ (by simp))
      (nameEnd_cons _ (by simp [delims]))
  | object cs name =>
    exact definesHead_mk (comments 0 cs ++ s%"@Serializable\n") s%"\n\n"
      (by simp [renderDecl, ktKw, C09.ktName, List.append_assoc]) (lineStart_append_right _ (by simp))
      (nameEnd_cons _ (by simp [delims]))
  | dataClass cs name gens ps red =>
    exact definesHead_mk (comments 0 cs ++ s%"@Serializable\n")
      (gens ++ (s%" (\n" ++ (renderParams ps ++ ((match red with
        | some s => s%") {\n\toverride fun toString(): String = " ++ debugStr s ++ s%"\n}\n"
        | none => s%")\n") ++ nl))))
      (by cases red <;> simp [renderDecl, ktKw, C09.ktName, List.append_assoc]) (lineStart_append_right _ (by simp))
      (nameEnd_gen hw (nameEnd_cons _ (by simp [delims])))
  | enumClass cs name gens entries =>
    exact definesHead_mk (comments 0 cs ++ s%"@Serializable\n")
      (gens ++ (s%"(val string: String) " ++ (s%"{\n" ++ (entries.flatMap renderEntry ++ s%"}\n\n"))))
      (by simp [renderDecl, ktKw, C09.ktName, List.append_assoc]) (lineStart_append_right _ (by simp))
      (nameEnd_gen hw (nameEnd_cons _ (by simp [delims])))
  | sealedClass cs name gens cases =>
    exact definesHead_mk (comments 0 cs ++ s%"@Serializable\n")
      (gens ++ (s%" " ++ (s%"{\n" ++ (cases.flatMap renderCase ++ s%"}\n\n"))))
      (by simp [renderDecl, ktKw, C09.ktName, List.append_assoc]) (lineStart_append_right _ (by simp))
      (nameEnd_gen hw (nameEnd_cons _ (by simp [delims])))

/-- keyword and name of a declaration -/
def headOf (d : KtDecl) : Str × Str := (ktKw d, C09.ktName d)

theorem structFacts_head (cfg : Cfg) (s : RustStruct) (d : KtDecl) (h : structFacts cfg s = .ok d) :
    headOf d = (ktStructKw s.fields, cfg.pfx ++ s.id.renamed) ∧ WfDecl d := by
  unfold structFacts at h
  split at h
  · rename_i he
    cases h
    exact ⟨by simp [headOf, ktKw, C09.ktName, ktStructKw, he], trivial⟩
  · rename_i he
    obtain ⟨ps, _, h⟩ := bindOk h
    cases h
    exact ⟨by simp [headOf, ktKw, C09.ktName, ktStructKw, he], ⟨_, rfl⟩⟩

theorem structsFacts_heads (cfg : Cfg) : ∀ (ss : List RustStruct) (ds : List KtDecl), structsFacts cfg ss = .ok ds →
    ds.map headOf = (ss.map fun s => (ktStructKw s.fields, cfg.pfx ++ s.id.renamed)) ∧ ∀ d ∈ ds, WfDecl d
  | [], ds, h => by simp [structsFacts] at h; subst h; simp
  | s :: ss, ds, h => by
    simp only [structsFacts] at h
    obtain ⟨d, hd, h⟩ := bindOk h
    obtain ⟨ds', hds, h⟩ := bindOk h
    cases h
    obtain ⟨h1, h2⟩ := structFacts_head cfg s d hd
    obtain ⟨h3, h4⟩ := structsFacts_heads cfg ss ds' hds
    refine ⟨by simp [h1, h3], ?_⟩
    intro x hx
    rcases List.mem_cons.1 hx with rfl | hx
    · exact h2
    · exact h4 x hx

/-- **the declarations of one item are exactly the ones `ktDefs` lists** (record level) -/
theorem itemFacts_heads (cfg : Cfg) (it : RustItem) (ds : List KtDecl) (h : itemFacts cfg it = .ok ds) :
    ds.map headOf = ktDefs cfg it ∧ ∀ d ∈ ds, WfDecl d := by
  cases it with
  | struct s =>
    simp only [itemFacts] at h
    obtain ⟨d, hd, h⟩ := bindOk h
    cases h
    obtain ⟨h1, h2⟩ := structFacts_head cfg s d hd
    exact ⟨by simp [ktDefs, h1], by simpa using h2⟩
  | alias a =>
    simp only [itemFacts] at h
    obtain ⟨d, hd, h⟩ := bindOk h
    cases h
    unfold aliasFacts at hd
    split at hd
    · rename_i hi
      obtain ⟨p, _, hd⟩ := bindOk hd
      cases hd
      exact ⟨by simp [ktDefs, hi, headOf, ktKw, C09.ktName], by simp [WfDecl]⟩
    · rename_i hi
      obtain ⟨ty, _, hd⟩ := bindOk hd
      cases hd
      exact ⟨by simp [ktDefs, hi, headOf, ktKw, C09.ktName], by simpa [WfDecl] using ⟨_, rfl⟩⟩
  | const c => simp [itemFacts] at h
  | «enum» e =>
    simp only [itemFacts, enumFacts] at h
    obtain ⟨inners, hi, h⟩ := bindOk h
    obtain ⟨h1, h2⟩ := structsFacts_heads cfg _ _ hi
    have hmap : ((innerStructs e).map fun s => (ktStructKw s.fields, cfg.pfx ++ s.id.renamed)) =
        (structVariantsOf e).map fun p => (ktStructKw p.2, cfg.pfx ++ (e.id.renamed ++ p.1.original ++ s%"Inner")) := by
      simp [innerStructs, anonymousStruct, structVariantsOf_eq, Function.comp_def]
    cases hk : e.keys with
    | none =>
      simp only [hk] at h
      cases h
      refine ⟨by simp [ktDefs, hk, h1, hmap, headOf, ktKw, C09.ktName], ?_⟩
      intro d hd
      rcases List.mem_append.1 hd with hd | hd
      · exact h2 d hd
      · simp at hd; subst hd; exact ⟨_, rfl⟩
    | some kc =>
      obtain ⟨tag, content⟩ := kc
      simp only [hk] at h
      obtain ⟨cases', _, h⟩ := bindOk h
      cases h
      refine ⟨by simp [ktDefs, hk, h1, hmap, headOf, ktKw, C09.ktName], ?_⟩
      intro d hd
      rcases List.mem_append.1 hd with hd | hd
      · exact h2 d hd
      · simp at hd; subst hd; exact ⟨_, rfl⟩

/-- **the block of an item splits into exactly the definitions `ktDefs` lists** (text level) -/
theorem block_defines (cfg : Cfg) (it : RustItem) (b : Str) (h : writeItem cfg it = .ok b) :
    SplitsInto (ktDefs cfg it) b := by
  unfold writeItem at h
  obtain ⟨ds, hd, h⟩ := bindOk h
  cases h
  obtain ⟨h1, h2⟩ := itemFacts_heads cfg it ds hd
  rw [← h1, List.flatMap_def]
  exact splitsInto_chunks (paired_map _ headOf renderDecl ds fun d hd => renderDecl_defines d (h2 d hd))

theorem writeItem_not_const (cfg : Cfg) (c : RustConst) : writeItem cfg (.const c) = .err (.formatError s%"ConstUnsupported") := rfl

theorem generateAll_single (E : Ext) (cfg : Cfg) (mf : Bool) (c : Str) (d : ParsedData)
    (imps : Option Pipeline.ScopedCrateTypes) :
    generateAll E cfg mf [(c, d, imps)] = (generate cfg d imps).bind fun r => .ok [(c, r)] := by
  simp only [generateAll, generateFrom]
  cases generate cfg d imps <;> rfl

theorem generateAll_nil (E : Ext) (cfg : Cfg) (mf : Bool) : generateAll E cfg mf [] = .ok [] := rfl

end TsV.C03E.Kt
