import TsV.Lemmas.C14_Imports_Visit
/-!
# C14, qualified paths written inside types — the trusted specification

`qualifiedRefs ty`: every `(first qualifier, last segment)` of a path with a non-empty qualifier list that
occurs anywhere in the type `ty` (`other_crate::T`, `crate::Wrap<other::T>`, `Vec<other::T>`, `&[other::T; 3]`,
`(a::X, b::Y)` …), and its lift to the fields / variants / alias target / const type of an item and to the
annotated, accepted items of a file.  These few functions are what the statements of `TsV.Props.C14_Paths`
mean by "a qualified path written in a type"; everything else in `Lemmas/C14_Paths_*.lean` is proved.
-/
namespace TsV.C14P
open TsV TsV.Syn TsV.Visitor

/-- the reference a single path makes by qualification: `c::…::T` ↦ `(c, T)`; an unqualified `T` ↦ nothing -/
def headRef (quals : List Str) (last : Str) : List (Str × Str) :=
  match quals with
  | [] => []
  | c :: _ => [(c, last)]

mutual
  /-- all qualified references of a type, at any depth -/
  def qualifiedRefs : SynType → List (Str × Str)
    | .tuple es => qualifiedRefsList es
    | .reference e => qualifiedRefs e
    | .path quals last args => headRef quals last ++ qualifiedRefsList args
    | .array e _ => qualifiedRefs e
    | .slice e => qualifiedRefs e
    | .other => []
  def qualifiedRefsList : List SynType → List (Str × Str)
    | [] => []
    | t :: ts => qualifiedRefs t ++ qualifiedRefsList ts
end

/-- the types of the fields of a struct / a variant -/
def fieldsTypes : Fields → List SynType
  | .named fs | .unnamed fs => fs.map (·.ty)
  | .unit => []

/-- the types written in a type-declaring item: field types of a struct, field types of every variant of an
enum, the target of an alias, the type of a const (other item kinds: none) -/
def itemTypes : Item → List SynType
  | .struct _ _ _ fields => fieldsTypes fields
  | .enum _ _ _ variants => variants.flatMap fun v => fieldsTypes v.fields
  | .alias _ _ _ ty => [ty]
  | .const _ _ ty _ => [ty]
  | .use _ => []
  | .mod _ _ _ => []
  | .other _ _ => []

/-- the qualified references of an item -/
def itemQualifiedRefs (it : Item) : List (Str × Str) := (itemTypes it).flatMap qualifiedRefs

mutual
  /-- the struct / enum / alias / const items of an item tree, at any depth (modules, function bodies),
  annotated or not -/
  def declItems : Item → List Item
    | .struct a i g f => [.struct a i g f]
    | .enum a i g v => [.enum a i g v]
    | .alias a i g t => [.alias a i g t]
    | .const a i t l => [.const a i t l]
    | .use _ => []
    | .mod _ _ items => declItemsList items
    | .other _ items => declItemsList items
  def declItemsList : List Item → List Item
    | [] => []
    | i :: is => declItems i ++ declItemsList is
end

/-- the qualified references of the annotated, accepted items (`C03.annotatedList`) of a file -/
def fileQualifiedRefs (ctx : ParseContext) (f : File) : List (Str × Str) :=
  (C03.annotatedList ctx f.items).flatMap itemQualifiedRefs

/-- the qualified references of *all* type-declaring items of a file, annotated or not -/
def fileQualifiedRefsAll (f : File) : List (Str × Str) := (declItemsList f.items).flatMap itemQualifiedRefs

end TsV.C14P
