import TsV.Lemmas.C05_StateIndependence
/-!
# C05_StateIndependence — the text written for a type expression does not depend on what was written before it

C05: "type expressions are translated structurally".  A language value lives for a whole run and four of
the six printers thread a mutable state through every `format_type` call: TypeScript the reviver /
replacer registrations (`types_for_custom_json_translation`), Python its imports, `TypeVar`s and
custom-JSON set, Swift `should_emit_codable_void`, Go its import set.  Kotlin and Scala have none (their
`formatType` takes no state, so there is nothing to state at that level).  A translation that read that
state would make the text of an expression depend on its neighbours — the expressions of the items,
files and crates printed earlier in the run.

* `txt` (Lemmas) forgets the state a printer call returns and keeps everything else: the text, or the
  error kind, or the panic site.
* `ts_formatType`, `python_formatType`, `swift_formatType`, `go_formatType`: `txt (formatType … t st)` is the
  same for every two states — for every configuration (type mappings included), every generic context and
  every type expression; failures included (an expression cannot start or stop failing because of what was
  printed before it).  `C05_StateIndependence : C05_StateIndependence_full` collects the four.
* `*_struct_fields`: for a struct printed from **any** state `st` (= whatever was translated before it),
  field record `i` of the declaration is the record the field gets when it is printed alone from the
  **initial** state of a run (`[]`, `{}`, `false`, `[]`; stated for any `s0`), same length, same order.
  For TypeScript the text `writeStruct` returns is tied to these records (`ts_writeStruct_fields`), and `ts_struct_in_program`
  states it for a struct written after any items of a file started from any state.
* `*_field_type`: the type text in that record is `formatType` of the field's type from the initial state
  (TypeScript / Swift / Kotlin / Scala: verbatim; Go: passed through the acronym pass, `*` in front of a
  defaulted non-optional field; Python: wrapped in `Optional[…]` / `Annotated[…]` as `pyFieldTy` says) — a
  `#[typeshare(<lang>(type = "…"))]` override is the user's text and bypasses `format_type`.
* `kotlin_struct_fields`, `scala_struct_fields`: the same "field `i` alone" statement for the two stateless
  printers, so that the struct statement is there for all six.
* examples: the state really moves (a `Date` / `datetime` / `time.Time` / `CodableVoid` registration) while
  the text stays.

Nothing is false on the model.  `tools/c05.py: neighbours_part` checks the same on the implementation.
-/
namespace TsV.C05_StateIndependence
open TsV TsV.Lang TsV.Outcome

/-! ## 1. `format_type` -/

/-- TypeScript: the reviver / replacer registrations do not influence the text -/
theorem ts_formatType (cfg : TypeScript.Cfg) (gens : List Str) (t : RustType) (st st' : TypeScript.CustomMap) :
    txt (TypeScript.formatType cfg gens t st) = txt (TypeScript.formatType cfg gens t st') :=
  TS.formatType_indep cfg gens t st st'

/-- Python: imports, `TypeVar`s and the custom-JSON set do not influence the text -/
theorem python_formatType (cfg : Python.Cfg) (gens : List Str) (t : RustType) (st st' : Python.St) :
    txt (Python.formatType cfg gens t st) = txt (Python.formatType cfg gens t st') :=
  Py.formatType_indep cfg gens t st st'

/-- Swift: `should_emit_codable_void` does not influence the text -/
theorem swift_formatType (cfg : Swift.Cfg) (gens : List Str) (t : RustType) (st st' : Swift.St) :
    txt (Swift.formatType cfg gens t st) = txt (Swift.formatType cfg gens t st') :=
  Sw.formatType_indep cfg gens t st st'

/-- Go: the import set does not influence the text -/
theorem go_formatType (cfg : Go.Cfg) (t : RustType) (st st' : Go.Imports) :
    txt (Go.formatType cfg t st) = txt (Go.formatType cfg t st') :=
  Go.formatType_indep cfg t st st'

/-- the statement at full strength: every stateful printer, every configuration, every generic context,
every type expression, every two states; text, error kind and panic site alike -/
def C05_StateIndependence_full : Prop :=
  (∀ (cfg : TypeScript.Cfg) (gens : List Str) (t : RustType) (st st' : TypeScript.CustomMap),
    txt (TypeScript.formatType cfg gens t st) = txt (TypeScript.formatType cfg gens t st')) ∧
  (∀ (cfg : Python.Cfg) (gens : List Str) (t : RustType) (st st' : Python.St),
    txt (Python.formatType cfg gens t st) = txt (Python.formatType cfg gens t st')) ∧
  (∀ (cfg : Swift.Cfg) (gens : List Str) (t : RustType) (st st' : Swift.St),
    txt (Swift.formatType cfg gens t st) = txt (Swift.formatType cfg gens t st')) ∧
  (∀ (cfg : Go.Cfg) (t : RustType) (st st' : Go.Imports),
    txt (Go.formatType cfg t st) = txt (Go.formatType cfg t st'))

theorem C05_StateIndependence : C05_StateIndependence_full :=
  ⟨ts_formatType, python_formatType, swift_formatType, go_formatType⟩

/-- read as an implication: what an expression translates to after anything equals what it translates to
from the initial state -/
theorem ts_formatType_ok (cfg : TypeScript.Cfg) (gens : List Str) (t : RustType) (st st' : TypeScript.CustomMap) (s : Str)
    (h : TypeScript.formatType cfg gens t st = .ok (s, st')) :
    ∃ st'', TypeScript.formatType cfg gens t [] = .ok (s, st'') :=
  txt_eq_ok.1 (by rw [ts_formatType cfg gens t [] st, h]; rfl)

theorem python_formatType_ok (cfg : Python.Cfg) (gens : List Str) (t : RustType) (st st' : Python.St) (s : Str)
    (h : Python.formatType cfg gens t st = .ok (s, st')) :
    ∃ st'', Python.formatType cfg gens t {} = .ok (s, st'') :=
  txt_eq_ok.1 (by rw [python_formatType cfg gens t {} st, h]; rfl)

theorem swift_formatType_ok (cfg : Swift.Cfg) (gens : List Str) (t : RustType) (st st' : Swift.St) (s : Str)
    (h : Swift.formatType cfg gens t st = .ok (s, st')) :
    ∃ st'', Swift.formatType cfg gens t false = .ok (s, st'') :=
  txt_eq_ok.1 (by rw [swift_formatType cfg gens t false st, h]; rfl)

theorem go_formatType_ok (cfg : Go.Cfg) (t : RustType) (st st' : Go.Imports) (s : Str)
    (h : Go.formatType cfg t st = .ok (s, st')) :
    ∃ st'', Go.formatType cfg t [] = .ok (s, st'') :=
  txt_eq_ok.1 (by rw [go_formatType cfg t [] st, h]; rfl)

/-! ## 2. a field inside a struct, whatever was printed before the struct -/

/-! ### TypeScript -/

/-- the records of the property lines of a struct printed from any state `st` are, one by one, the records
the fields get alone from `s0` -/
theorem ts_struct_fields (cfg : TypeScript.Cfg) (rs : RustStruct) (st st' s0 : TypeScript.CustomMap)
    (tfs : List TypeScript.TsField)
    (h : C01.TypeScript.fieldsFacts cfg rs.genericTypes rs.fields st = .ok (tfs, st')) :
    tfs.length = rs.fields.length ∧
    ∀ (i : Nat) (hi : i < rs.fields.length) (hi' : i < tfs.length),
      txt (TypeScript.fieldFacts cfg rs.genericTypes rs.fields[i] s0) = .ok tfs[i] := by
  rw [TS.fieldsFacts_eq_travM] at h
  exact travM_get _ (TS.fieldFacts_indep cfg rs.genericTypes) s0 _ _ _ _ h

/-- the type text of a property line is `formatType` of the field's type from the initial state -/
theorem ts_field_type (cfg : TypeScript.Cfg) (gens : List Str) (f : RustField) (s0 : TypeScript.CustomMap)
    (tf : TypeScript.TsField) (hov : typeOverride f .typescript = none)
    (h : txt (TypeScript.fieldFacts cfg gens f s0) = .ok tf) :
    txt (TypeScript.formatType cfg gens f.ty []) = .ok tf.ty := by
  obtain ⟨s1, h⟩ := txt_eq_ok.1 h
  unfold TypeScript.fieldFacts at h
  rw [hov] at h
  obtain ⟨⟨ty, s2⟩, h1, h2⟩ := (bind_eq_ok _ _ _).1 h
  simp only [Outcome.ok.injEq, Prod.mk.injEq] at h2
  replace h1 : TypeScript.formatType cfg gens f.ty s0 = .ok (ty, s2) := h1
  rw [ts_formatType cfg gens f.ty [] s0, h1, ← h2.1]
  rfl

/-- the text `write_struct` returns is these records rendered -/
theorem ts_writeStruct_fields (cfg : TypeScript.Cfg) (rs : RustStruct) (st st' : TypeScript.CustomMap) (b : Str)
    (h : TypeScript.writeStruct cfg rs st = .ok (b, st')) :
    ∃ tfs, C01.TypeScript.fieldsFacts cfg rs.genericTypes rs.fields st = .ok (tfs, st') ∧
      b = TypeScript.comments 0 rs.comments ++ s%"export interface " ++ rs.id.renamed ++
        genericSuffix rs.genericTypes ++ s%" {\n" ++ tfs.flatMap TypeScript.renderField ++ s%"}\n\n" := by
  unfold TypeScript.writeStruct at h
  rw [C01.TypeScript.writeFields_eq] at h
  obtain ⟨⟨body, s1⟩, h1, h2⟩ := (bind_eq_ok _ _ _).1 h
  obtain ⟨⟨tfs, s2⟩, h3, h4⟩ := (bind_eq_ok _ _ _).1 h1
  simp only [Outcome.ok.injEq, Prod.mk.injEq] at h2 h4
  refine ⟨tfs, ?_, ?_⟩
  · rw [h3, h4.2, h2.2]
  · rw [← h2.1, ← h4.1]

/-- **field `i` of a struct inside a program**: its type text is `formatType` of its type from the initial
state -/
theorem ts_struct_field_type (cfg : TypeScript.Cfg) (rs : RustStruct) (st st' : TypeScript.CustomMap)
    (tfs : List TypeScript.TsField)
    (h : C01.TypeScript.fieldsFacts cfg rs.genericTypes rs.fields st = .ok (tfs, st'))
    (i : Nat) (hi : i < rs.fields.length) (hi' : i < tfs.length)
    (hov : typeOverride rs.fields[i] .typescript = none) :
    txt (TypeScript.formatType cfg rs.genericTypes rs.fields[i].ty []) = .ok tfs[i].ty :=
  ts_field_type cfg _ _ [] _ hov ((ts_struct_fields cfg rs st st' [] tfs h).2 i hi hi')

/-- **inside a program**: a struct written after any items `pre` of a file, the printer starting the file from any state
`st0` (= whatever the earlier files of the run left): the text is what `pre` gives followed by the struct's block, and every
property line of that block is the record the field gets alone from the initial state -/
theorem ts_struct_in_program (U : UnicodeOps) (cfg : TypeScript.Cfg) (pre : List RustItem) (rs : RustStruct)
    (st0 st1 : TypeScript.CustomMap) (text : Str)
    (h : TypeScript.writeItems U cfg (pre ++ [.struct rs]) st0 = .ok (text, st1)) :
    ∃ (before : Str) (stMid : TypeScript.CustomMap) (tfs : List TypeScript.TsField),
      TypeScript.writeItems U cfg pre st0 = .ok (before, stMid) ∧
      text = before ++ (TypeScript.comments 0 rs.comments ++ s%"export interface " ++ rs.id.renamed ++
        genericSuffix rs.genericTypes ++ s%" {\n" ++ tfs.flatMap TypeScript.renderField ++ s%"}\n\n") ∧
      tfs.length = rs.fields.length ∧
      ∀ (i : Nat) (hi : i < rs.fields.length) (hi' : i < tfs.length),
        txt (TypeScript.fieldFacts cfg rs.genericTypes rs.fields[i] []) = .ok tfs[i] := by
  rw [TS.writeItems_snoc] at h
  obtain ⟨⟨before, stMid⟩, h1, h⟩ := (bind_eq_ok _ _ _).1 h
  obtain ⟨⟨b, s2⟩, h2, h3⟩ := (bind_eq_ok _ _ _).1 h
  simp only [Outcome.ok.injEq, Prod.mk.injEq] at h3
  replace h2 : TypeScript.writeStruct cfg rs stMid = .ok (b, s2) := h2
  obtain ⟨tfs, hf, hb⟩ := ts_writeStruct_fields cfg rs stMid s2 b h2
  obtain ⟨hl, hg⟩ := ts_struct_fields cfg rs stMid s2 [] tfs hf
  exact ⟨before, stMid, tfs, h1, by rw [← h3.1, hb], hl, hg⟩

/-! ### Go -/

theorem go_struct_fields (U : UnicodeOps) (cfg : Go.Cfg) (rs : RustStruct) (st st' s0 : Go.Imports) (d : Go.GoStruct)
    (h : Go.structFacts U cfg rs st = .ok (d, st')) :
    d.fields.length = rs.fields.length ∧
    ∀ (i : Nat) (hi : i < rs.fields.length) (hi' : i < d.fields.length),
      txt (Go.fieldFacts U cfg rs.fields[i] s0) = .ok d.fields[i] := by
  unfold Go.structFacts at h
  obtain ⟨name, _, h⟩ := (bind_eq_ok _ _ _).1 h
  obtain ⟨⟨fields, s1⟩, h1, h2⟩ := (bind_eq_ok _ _ _).1 h
  simp only [Outcome.ok.injEq, Prod.mk.injEq] at h2
  rw [← h2.1]
  rw [Go.fieldsFacts_eq_travM] at h1
  exact travM_get _ (Go.fieldFacts_indep U cfg) s0 _ _ _ _ h1

/-- the Go type of a field is `formatType` of its type from the initial state, passed through the acronym
pass, with a `*` in front of a defaulted field that is not an `Option` -/
theorem go_field_type (U : UnicodeOps) (cfg : Go.Cfg) (f : RustField) (s0 : Go.Imports) (g : Go.GoField)
    (hov : typeOverride f .go = none) (h : txt (Go.fieldFacts U cfg f s0) = .ok g) :
    ∃ s goType, txt (Go.formatType cfg f.ty []) = .ok s ∧ Go.acr U cfg s = .ok goType ∧
      g.ty = (if f.hasDefault && !f.ty.isOptional then s%"*" else []) ++ goType := by
  obtain ⟨s1, h⟩ := txt_eq_ok.1 h
  unfold Go.fieldFacts at h
  rw [hov] at h
  obtain ⟨⟨ty, s2⟩, h1, h⟩ := (bind_eq_ok _ _ _).1 h
  obtain ⟨goType, h2, h⟩ := (bind_eq_ok _ _ _).1 h
  obtain ⟨name, h3, h⟩ := (bind_eq_ok _ _ _).1 h
  simp only [Outcome.ok.injEq, Prod.mk.injEq] at h
  refine ⟨ty, goType, ?_, h2, ?_⟩
  · replace h1 : Go.formatType cfg f.ty s0 = .ok (ty, s2) := h1
    rw [go_formatType cfg f.ty [] s0, h1]; rfl
  · rw [← h.1]

/-! ### Python -/

theorem python_struct_fields (E : Ext) (cfg : Python.Cfg) (rs : RustStruct) (st st' s0 : Python.St) (c : Python.PyClass)
    (h : Python.structFacts E cfg rs st = .ok (c, st')) :
    c.fields.length = rs.fields.length ∧
    ∀ (i : Nat) (hi : i < rs.fields.length) (hi' : i < c.fields.length),
      txt (Python.fieldFacts E cfg rs.genericTypes rs.fields[i] s0) = .ok c.fields[i] := by
  unfold Python.structFacts at h
  obtain ⟨⟨fields, s1⟩, h1, h2⟩ := (bind_eq_ok _ _ _).1 h
  simp only [Outcome.ok.injEq, Prod.mk.injEq] at h2
  rw [← h2.1]
  rw [Py.fieldsFacts_eq_travM] at h1
  exact travM_get _ (Py.fieldFacts_indep E cfg rs.genericTypes) s0 _ _ _ _ h1

/-- how `write_field` wraps the formatted type `s` of a field: `Optional[…]` around a defaulted field that is
not an `Option`, `Annotated[…]` with the two helper names around a custom-translated type -/
def pyFieldTy (f : RustField) (s : Str) : Str :=
  let inner := if !f.ty.isOptional && f.hasDefault then s%"Optional[" ++ s ++ s%"]" else s
  match Python.jsonTranslation s with
  | some c => s%"Annotated[" ++ inner ++ s%", BeforeValidator(" ++ c.deserializationName ++
      s%"), PlainSerializer(" ++ c.serializationName ++ s%")]"
  | none => inner

theorem python_field_type (E : Ext) (cfg : Python.Cfg) (gens : List Str) (f : RustField) (s0 : Python.St)
    (pf : Python.PyField) (h : txt (Python.fieldFacts E cfg gens f s0) = .ok pf) :
    ∃ s, txt (Python.formatType cfg gens f.ty {}) = .ok s ∧ pf.ty = pyFieldTy f s := by
  obtain ⟨s1, h⟩ := txt_eq_ok.1 h
  unfold Python.fieldFacts at h
  obtain ⟨⟨ty, s2⟩, h1, h⟩ := (bind_eq_ok _ _ _).1 h
  refine ⟨ty, ?_, ?_⟩
  · rw [python_formatType cfg gens f.ty {} s0, h1]; rfl
  · dsimp only at h
    unfold pyFieldTy
    cases hj : Python.jsonTranslation ty with
    | some c =>
      rw [hj] at h
      simp only [Outcome.ok.injEq, Prod.mk.injEq] at h
      rw [← h.1]
    | none =>
      rw [hj] at h
      simp only [Outcome.ok.injEq, Prod.mk.injEq] at h
      rw [← h.1]

/-! ### Swift (`write_struct` formats every field type twice: stored property and `init` parameter) -/

theorem swift_struct_fields (U : UnicodeOps) (cfg : Swift.Cfg) (rs : RustStruct) (st st' s0 : Swift.St) (d : Swift.SwiftStruct)
    (h : Swift.structFacts U cfg rs st = .ok (d, st')) :
    d.props.length = rs.fields.length ∧ d.initParams.length = rs.fields.length ∧
    (∀ (i : Nat) (hi : i < rs.fields.length) (hi' : i < d.props.length),
      txt (Sw.propStep cfg rs.genericTypes rs.fields[i] s0) = .ok d.props[i]) ∧
    (∀ (i : Nat) (hi : i < rs.fields.length) (hi' : i < d.initParams.length),
      txt (Sw.paramStep cfg rs.genericTypes rs.fields[i] s0) = .ok d.initParams[i]) := by
  unfold Swift.structFacts at h
  obtain ⟨⟨props, s1⟩, h1, h⟩ := (bind_eq_ok _ _ _).1 h
  obtain ⟨⟨params, s2⟩, h2, h⟩ := (bind_eq_ok _ _ _).1 h
  simp only [Outcome.ok.injEq, Prod.mk.injEq] at h
  rw [← h.1]
  rw [Sw.storedProps_eq_travM] at h1
  rw [Sw.initParams_eq_travM] at h2
  have a := travM_get _ (Sw.propStep_indep cfg rs.genericTypes) s0 _ _ _ _ h1
  have b := travM_get _ (Sw.paramStep_indep cfg rs.genericTypes) s0 _ _ _ _ h2
  exact ⟨a.1, b.1, a.2, b.2⟩

/-- the type text of a stored property (and of the `init` parameter) is `formatType` of the field's type from
the initial state -/
theorem swift_field_type (cfg : Swift.Cfg) (gens : List Str) (f : RustField) (s0 : Swift.St)
    (hov : typeOverride f .swift = none) :
    (∀ p, txt (Sw.propStep cfg gens f s0) = .ok p → txt (Swift.formatType cfg gens f.ty false) = .ok p.ty) ∧
    (∀ p, txt (Sw.paramStep cfg gens f s0) = .ok p → txt (Swift.formatType cfg gens f.ty false) = .ok p.ty) := by
  constructor <;> intro p h <;> obtain ⟨s1, h⟩ := txt_eq_ok.1 h
  · unfold Sw.propStep Swift.fieldType at h
    rw [hov] at h
    obtain ⟨⟨ty, s2⟩, h1, h2⟩ := (bind_eq_ok _ _ _).1 h
    simp only [Outcome.ok.injEq, Prod.mk.injEq] at h2
    replace h1 : Swift.formatType cfg gens f.ty s0 = .ok (ty, s2) := h1
    rw [swift_formatType cfg gens f.ty false s0, h1, ← h2.1]; rfl
  · unfold Sw.paramStep Swift.fieldType at h
    rw [hov] at h
    obtain ⟨⟨ty, s2⟩, h1, h2⟩ := (bind_eq_ok _ _ _).1 h
    simp only [Outcome.ok.injEq, Prod.mk.injEq] at h2
    replace h1 : Swift.formatType cfg gens f.ty s0 = .ok (ty, s2) := h1
    rw [swift_formatType cfg gens f.ty false s0, h1, ← h2.1]; rfl

/-! ### Kotlin and Scala (no printer state: the loop is a plain `map`) -/

theorem kotlin_params (cfg : Kotlin.Cfg) (gens : List Str) (rsn : Bool) : ∀ (fs : List RustField) (ps : List Kotlin.KtParam),
    Kotlin.paramsFacts cfg gens rsn fs = .ok ps →
    ps.length = fs.length ∧
    ∀ (i : Nat) (hi : i < fs.length) (hi' : i < ps.length), Kotlin.paramFacts cfg gens rsn false fs[i] = .ok ps[i]
  | [], ps, h => by
    simp only [Kotlin.paramsFacts, Outcome.ok.injEq] at h
    rw [← h]; exact ⟨rfl, fun i hi => absurd hi (Nat.not_lt_zero _)⟩
  | f :: fs, ps, h => by
    simp only [Kotlin.paramsFacts] at h
    obtain ⟨p, h1, h⟩ := (bind_eq_ok _ _ _).1 h
    obtain ⟨ps', h2, h⟩ := (bind_eq_ok _ _ _).1 h
    simp only [Outcome.ok.injEq] at h
    obtain ⟨hl, hg⟩ := kotlin_params cfg gens rsn fs ps' h2
    rw [← h]
    refine ⟨by simp [hl], ?_⟩
    intro i hi hi'
    cases i with
    | zero => simpa using h1
    | succ j => simpa using hg j (by simpa using hi) (by simpa using hi')

theorem kotlin_struct_fields (cfg : Kotlin.Cfg) (rs : RustStruct) (cs : List Str) (name gs : Str)
    (ps : List Kotlin.KtParam) (red : Option Str)
    (h : Kotlin.structFacts cfg rs = .ok (.dataClass cs name gs ps red)) :
    ps.length = rs.fields.length ∧
    ∀ (i : Nat) (hi : i < rs.fields.length) (hi' : i < ps.length),
      Kotlin.paramFacts cfg rs.genericTypes (rs.fields.any fun f => f.id.renamed.contains '-') false rs.fields[i] = .ok ps[i] := by
  unfold Kotlin.structFacts at h
  split at h
  · cases h
  · obtain ⟨ps', h1, h2⟩ := (bind_eq_ok _ _ _).1 h
    simp only [Outcome.ok.injEq, Kotlin.KtDecl.dataClass.injEq] at h2
    rw [← h2.2.2.2.1]
    exact kotlin_params cfg _ _ _ _ h1

theorem kotlin_field_type (cfg : Kotlin.Cfg) (gens : List Str) (rsn priv : Bool) (f : RustField) (p : Kotlin.KtParam)
    (hov : typeOverride f .kotlin = none) (h : Kotlin.paramFacts cfg gens rsn priv f = .ok p) :
    Kotlin.formatType cfg gens f.ty = .ok p.ty := by
  unfold Kotlin.paramFacts at h
  rw [hov] at h
  obtain ⟨ty, h1, h2⟩ := (bind_eq_ok _ _ _).1 h
  simp only [Outcome.ok.injEq] at h2
  replace h1 : Kotlin.formatType cfg gens f.ty = .ok ty := h1
  rw [h1, ← h2]

theorem scala_struct_fields (cfg : Scala.Cfg) (rs : RustStruct) (c : Scala.ScClass) (h : Scala.classFacts cfg rs = .ok c) :
    c.params.length = rs.fields.length ∧
    ∀ (i : Nat) (hi : i < rs.fields.length) (hi' : i < c.params.length),
      Scala.paramFacts cfg rs.genericTypes rs.fields[i] = .ok c.params[i] := by
  unfold Scala.classFacts at h
  obtain ⟨ps, h1, h2⟩ := (bind_eq_ok _ _ _).1 h
  simp only [Outcome.ok.injEq] at h2
  rw [← h2]
  exact ⟨mapM'_ok_length _ _ _ h1, mapM'_ok_forall₂ _ _ _ h1⟩

theorem scala_field_type (cfg : Scala.Cfg) (gens : List Str) (f : RustField) (p : Scala.ScParam)
    (hov : typeOverride f .scala = none) (h : Scala.paramFacts cfg gens f = .ok p) :
    Scala.formatType cfg gens f.ty = .ok p.ty := by
  unfold Scala.paramFacts at h
  rw [hov] at h
  obtain ⟨ty, h1, h2⟩ := (bind_eq_ok _ _ _).1 h
  simp only [Outcome.ok.injEq] at h2
  replace h1 : Scala.formatType cfg gens f.ty = .ok ty := h1
  rw [h1, ← h2]

/-! ## 3. examples: the state moves, the text stays -/

def exField (n : Str) (ty : RustType) : RustField :=
  { id := ⟨n, n, false⟩, ty, comments := [], hasDefault := false, decorators := [] }
def exStruct (n : Str) (fs : List RustField) : RustStruct :=
  { id := ⟨n, n, false⟩, genericTypes := [], fields := fs, comments := [], decorators := {}, isRedacted := false }

/-- TypeScript: `Vec<DateTime<Utc>>` registers `Date`; printed again from the state it left — or from a
state that already holds registrations of an earlier struct — the text is the same `Date[]` -/
example :
    TypeScript.formatType {} [] (.vec (.prim .dateTime)) [] = .ok (s%"Date[]", []) ∧
    (match TypeScript.fieldFacts {} [] (exField s%"at" (.prim .dateTime)) [] with
     | .ok (tf, st) => some (tf.ty, st) | _ => none) = some (s%"Date", [(s%"Date", [s%"at"])]) ∧
    txt (TypeScript.fieldFacts {} [] (exField s%"at" (.prim .dateTime)) [(s%"Date", [s%"before"]), (s%"Uint8Array", [])]) =
      txt (TypeScript.fieldFacts {} [] (exField s%"at" (.prim .dateTime)) []) := by
  refine ⟨by decide +kernel, by decide +kernel, TS.fieldFacts_indep _ _ _ _ _⟩

/-- Python: `Option<Vec<DateTime>>` adds three imports; the text does not see them -/
example :
    txt (Python.formatType {} [] (.option (.vec (.prim .dateTime))) {}) = .ok s%"Optional[List[datetime]]" ∧
    (match Python.formatType {} [] (.option (.vec (.prim .dateTime))) {} with
     | .ok (_, st) => st.imports | _ => []) =
      [(s%"datetime", [s%"datetime"]), (s%"typing", [s%"List", s%"Optional"])] ∧
    txt (Python.formatType {} [] (.option (.vec (.prim .dateTime)))
      { imports := [(s%"typing", [s%"Dict"])], typeVars := [s%"T"], customJson := [s%"bytes"] }) =
      .ok s%"Optional[List[datetime]]" := by
  refine ⟨by decide +kernel, by decide +kernel, by decide +kernel⟩

/-- Swift: `()` switches `should_emit_codable_void` on; Go: `DateTime` adds the `time` import -/
example :
    Swift.formatType {} [] (.option (.prim .unit)) false = .ok (s%"CodableVoid?", true) ∧
    Swift.formatType {} [] (.option (.prim .unit)) true = .ok (s%"CodableVoid?", true) ∧
    Go.formatType {} (.vec (.prim .dateTime)) [] = .ok (s%"[]time.Time", [s%"time"]) ∧
    Go.formatType {} (.vec (.prim .dateTime)) [s%"time"] = .ok (s%"[]time.Time", [s%"time"]) := by
  refine ⟨by decide +kernel, by decide +kernel, by decide +kernel, by decide +kernel⟩

/-- failures are state independent too: a generic `HashMap` key is refused from any state -/
example (st : TypeScript.CustomMap) :
    txt (TypeScript.formatType {} [s%"K"] (.hashMap (.simple s%"K") (.prim .bool)) st) =
      .err (.formatError s%"GenericKeyForbiddenInTS") := by
  rw [ts_formatType _ _ _ st []]; decide +kernel

/-- a struct after another one: the second struct's field records are what its fields give alone -/
example (st : Go.Imports) (d : Go.GoStruct) (st' : Go.Imports)
    (h : Go.structFacts .ascii {} (exStruct s%"B" [exField s%"x" (.prim .dateTime), exField s%"y" (.prim .u8)]) st = .ok (d, st')) :
    d.fields.map (·.ty) = [s%"time.Time", s%"int"] := by
  obtain ⟨hl, hg⟩ := go_struct_fields .ascii {} _ st st' [] d h
  have h0 := hg 0 (by decide) (by rw [hl]; decide)
  have h1 := hg 1 (by decide) (by rw [hl]; decide)
  have e0 : txt (Go.fieldFacts .ascii {} (exField s%"x" (.prim .dateTime)) []) =
      .ok { comments := [], name := s%"X", ty := s%"time.Time", jsonName := s%"x", omitempty := false } := by decide +kernel
  have e1 : txt (Go.fieldFacts .ascii {} (exField s%"y" (.prim .u8)) []) =
      .ok { comments := [], name := s%"Y", ty := s%"int", jsonName := s%"y", omitempty := false } := by decide +kernel
  simp only [exStruct, List.getElem_cons_zero, List.getElem_cons_succ] at h0 h1
  rw [e0] at h0
  rw [e1] at h1
  simp only [Outcome.ok.injEq] at h0 h1
  have hlen : d.fields.length = 2 := hl
  match hd : d.fields, hlen with
  | [a, b], _ =>
    simp only [hd, List.getElem_cons_zero, List.getElem_cons_succ] at h0 h1
    simp [← h0, ← h1]

end TsV.C05_StateIndependence
