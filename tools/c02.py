"""C02 — enum wire encoding (variant names, tag and content keys) equals serde's.

Generator: unit enums and adjacently tagged enums with UpperCamelCase variants (identifiers over [A-Za-z0-9] and, in
`unicode_names_part`, over an alphabet with cased letters outside ASCII).  Correspondence: the
text of parse -> reconcile -> generate_types in-process vs the Lean back-end models, byte-exact, all
six languages.  Oracle: per-language extractors over the IMPLEMENTATION's text recover, per enum,
(case identifier, wire name) for every case and every place a tag / content key is printed; they are
compared with serde's names and keys computed here, independently, from the abstract AST.
"""
import itertools, json, multiprocessing, re
from common import *
from syn_gen import *
from gen import Gen, VARIANT_WORDS, RULES
import l2

NEEDS = ("runner", "cli")
TRUSTED = [
    "binding semantics of the six target languages as written in TsV/Lemmas/C02_*.lean (`wire` functions: which "
    "declaration is a case, which string it is serialised as, where a tag / content key is printed) and, on the "
    "python side, the extractors of tools/c02.py written from the same reading",
    "serde's naming rule: TsV.C02.variantName? over the Serde.applyVariant port (compared with the vendored "
    "serde_derive case.rs on every run: C16 and this check's `serde` requests)",
]

# tag / content key pairs: plain, equal prefixes, one inside the other, target-language keywords,
# underscores, capitals, digits
KEY_PAIRS = [("type", "content"), ("t", "c"), ("kind", "data"), ("type", "type_content"), ("tag", "value"),
             ("content", "type"), ("_t", "_c"), ("Kind", "Payload"), ("class", "object"), ("case", "default"),
             ("k1", "k1_"), ("in", "is")]
# per-variant renames over [A-Za-z_][A-Za-z0-9_-]*
RENAMES = ["renamed", "newName", "with-dash", "a-b", "Type", "_x", "kebab-case-name", "UPPER", "x1", "class", "type",
           "snake_case", "A", "default", "B-", "Q__9"]
ENUM_NAMES = ["Foo", "Bar", "Baz", "Item", "User", "Payload", "Colors", "Shape", "Url", "Id", "Node", "Tree", "Event",
              "Kind", "Outer", "Pair", "Page", "Status", "Money", "Options"]
GO_ACRONYMS = [[], [], [], ["id", "url"], ["ID", "Url", "line"], ["type", "kind", "id"], ["foo", "foo_bar", "bar"],
               ["a", "b"], ["i", "d", "id"], ["inner", "variant", "s"], ["ok", "number"]]
WORDS = list(VARIANT_WORDS) + ["UserId", "HttpUrl", "Type", "Default", "Case", "Is", "Do", "Any", "Self1", "None1",
                               "Q", "Ab", "IoError", "X1y2"]


# ----------------------------------------------------------------------------- serde, independently

def ascii_lower(s):
    """`str::to_ascii_lowercase`: A-Z only, every other character is kept"""
    return "".join(chr(ord(c) + 32) if "A" <= c <= "Z" else c for c in s)


def ascii_upper(s):
    """`str::to_ascii_uppercase`: a-z only"""
    return "".join(chr(ord(c) - 32) if "a" <= c <= "z" else c for c in s)


RUST_UPPER = {}      # char -> char::is_uppercase as Rust std answers it (filled through the runner's `unicode` op)


def is_uppercase(ch):
    if ord(ch) < 128:
        return "A" <= ch <= "Z"
    return RUST_UPPER.get(ch, ch.isupper())


def serde_variant(rule, ident):
    """`RenameRule::apply_to_variant` of serde_derive: the case mapping is ASCII-only (`to_ascii_lowercase` /
    `to_ascii_uppercase`: a letter outside ASCII keeps its case), the word boundary of the snake family is
    `char::is_uppercase` (Unicode).  camelCase slices the first *byte* off: serde_derive panics on an identifier
    whose first character is not ASCII (None here: the user's crate does not compile, there is no wire name)"""
    if rule is None or rule not in RULES or rule == "PascalCase":
        return ident
    if rule == "lowercase":
        return ascii_lower(ident)
    if rule == "UPPERCASE":
        return ascii_upper(ident)
    if rule == "camelCase":
        if ident[:1] and ord(ident[0]) > 127:
            return None
        return ascii_lower(ident[:1]) + ident[1:]
    snake = "".join(("_" if i > 0 and is_uppercase(ch) else "") + ascii_lower(ch) for i, ch in enumerate(ident))
    return {"snake_case": snake, "SCREAMING_SNAKE_CASE": ascii_upper(snake), "kebab-case": snake.replace("_", "-"),
            "SCREAMING-KEBAB-CASE": ascii_upper(snake).replace("_", "-")}[rule]


def ts_pascal(s):
    """typeshare's `to_pascal_case` (used by Go's acronym conversion), ASCII case mapping; the tail is lower-cased when the
    name is "all uppercase" = has no lowercase letter of any script (`is_all_uppercase`, char::is_lowercase from Rust std)"""
    to_lower = rust_all_uppercase(s)
    out, cap = [], True
    for ch in s:
        if ch == "_":
            cap = True
        elif cap:
            out.append(ch.upper())
            cap = False
        else:
            out.append(ch.lower() if to_lower else ch)
    return "".join(out)


def go_acr(acronyms, name):
    """`convert_acronyms_to_uppercase` (ASCII names and acronyms)"""
    res = name
    for a in acronyms:
        pat = ts_pascal(a)
        if not pat:
            continue
        i = name.find(pat)
        while i >= 0:
            nxt = name[i + len(pat)] if i + len(pat) < len(name) else None
            if nxt is None or not nxt.islower():
                res = res[:i] + pat.upper() + res[i + len(pat):]
            i = name.find(pat, i + len(pat))
    return res


# ----------------------------------------------------------------------------- generation

BASE_PAYLOADS = [(t_path("String"), False), (t_path("u32"), False), (t_path("Option", [t_path("String")]), True),
                 (t_path("Vec", [t_path("u8")]), False), (t_path("HashMap", [t_path("String"), t_path("bool")]), False),
                 (t_path("Option", [t_path("Vec", [t_path("i32")])]), True), (("tuple", []), False)]


def payload_type(i, generic, recursive, name, first):
    """(abstract type, is it an Option) of the i-th newtype payload; the first payload of the enum carries the
    generic parameter / the recursion when asked for"""
    if first and (generic or recursive):
        me = t_path(name, [t_path("T")] if generic else [])
        special = []
        if generic and not recursive:
            special = [(t_path("T"), False), (t_path("Option", [t_path("T")]), True), (t_path("Vec", [t_path("T")]), False)]
        elif recursive and not generic:
            special = [(t_path("Box", [me]), False), (t_path("Vec", [me]), False), (t_path("Option", [t_path("Box", [me])]), True)]
        else:
            special = [(t_path("HashMap", [t_path("String"), t_path("Vec", [me])]), False),
                       (t_path("Option", [t_path("Box", [me])]), True), (t_path("Vec", [me]), False)]
        return special[i % len(special)]
    return BASE_PAYLOADS[i % len(BASE_PAYLOADS)]


def make_enum(name, rule, variants, keys, generic=False, recursive=False, salt=0, rule_spelling=None):
    """variants: list of dict(ident, kind in u/t/s, rename or None, skip or None).
    Returns (abstract item, expectation)."""
    vs, exp_v = [], []
    first_payload = True
    for i, v in enumerate(variants):
        serde = []
        if v.get("rename") is not None:
            serde.append(m_nv("rename", lit_s(v["rename"])))
        # serde arguments next to the rename that are NOT a skip (`lookalike_attrs_part`): merged into the serde attribute in
        # front of / behind the rename, or as attributes of their own in front of / behind it
        extra, lay, before, after = list(v.get("extra") or []), v.get("extra_layout", 0), [], []
        if extra and lay == 0:
            serde = extra + serde
        elif extra and lay == 1:
            serde = serde + extra
        elif extra and lay == 2:
            before = [m_list("serde", [a]) for a in extra]
        elif extra:
            after = [m_list("serde", extra)]
        attrs = []
        if v.get("skip"):
            attrs.append(m_list(v["skip"], [m_path("skip")]))
        attrs += before
        if serde:
            attrs.append(m_list("serde", serde))
        attrs += after
        if v.get("doc"):
            attrs.append(doc_attr(v["doc"], "line"))
        opt = False
        if v["kind"] == "u":
            fs = ("unit",)
        elif v["kind"] == "t":
            ty, opt = payload_type(salt + i, generic, recursive, name, first_payload)
            first_payload = False
            fs = ("unnamed", [field([], None, ty)])
        else:
            fields = [field([], "a", t_path("u8"))]
            if first_payload and generic:
                fields.append(field([], "gen_field", t_path("Vec", [t_path("T")])))
            if first_payload and recursive:
                fields.append(field([], "next", t_path("Option", [t_path("Box", [t_path(name, [t_path("T")] if generic else [])])])))
            if (salt + i) % 3 == 0:
                fields.append(field([m_list("serde", [m_nv("rename", lit_s("f-x"))])], "other_field", t_path("String")))
            if v.get("variant_rule"):
                attrs.append(m_list("serde", [m_nv("rename_all", lit_s(v["variant_rule"]))]))
            first_payload = False
            fs = ("named", fields)
        # a variant may be written as a raw identifier (`r#Type`): serde and rustc see the identifier without the prefix
        vs.append({"attrs": attrs, "ident": ("r#" + v["ident"]) if v.get("raw") else v["ident"], "fields": fs})
        if not v.get("skip"):
            wire = v["rename"] if v.get("rename") is not None else serde_variant(rule, v["ident"])
            exp_v.append(dict(ident=v["ident"], kind=v["kind"], wire=wire, opt=opt))
            if v.get("looks"):
                exp_v[-1]["looks"] = list(v["looks"])
            if v.get("pair"):
                exp_v[-1]["pair"] = True
    unit = all(v["kind"] == "u" for v in exp_v)
    attrs = [m_path("typeshare")]
    serde = []
    if rule is not None or rule_spelling is not None:
        serde.append(m_nv("rename_all", lit_s(rule_spelling if rule is None else rule)))
    tag = content = None
    if not unit:
        tag, content = keys
        serde += [m_nv("tag", lit_s(tag)), m_nv("content", lit_s(content))]
    if serde:
        # one merged attribute or one attribute per argument, in a salt-dependent order
        if salt % 2:
            serde = serde[::-1]
        attrs += [m_list("serde", serde)] if salt % 3 else [m_list("serde", [a]) for a in serde]
    if salt % 5 == 0:
        attrs = attrs[1:] + attrs[:1]
    gs = [("ty", "T")] if generic and not unit else []
    item = {"kind": "enum", "attrs": attrs, "ident": name, "generics": gs, "variants": vs}
    exp = dict(name=name, unit=unit, tag=tag, content=content, variants=exp_v, rule=rule)
    if any(v.get("pair") for v in exp_v):
        # a variant carrying BOTH `skip_serializing` and `skip_deserializing` is on the wire in no direction (serde: the pair
        # is `skip`): the property is satisfied with a case for it (every variant has one) and without (the variant is
        # skipped); `alt` is the expectation without
        rest = [v for v in exp_v if not v.get("pair")]
        alt_unit = all(v["kind"] == "u" for v in rest)
        exp["alt"] = dict(name=name, unit=alt_unit, tag=None if alt_unit else tag, content=None if alt_unit else content,
                          variants=rest, rule=rule)
    return item, exp


COLLIDING = [("FooBar", "Foobar"), ("UserId", "UserID"), ("FooBar", "FooBAR"), ("HttpUrl", "HttpURL")]


def random_enum(rng, name):
    n = rng.choice([1, 1, 2, 2, 3, 3, 4, 5])
    algebraic = rng.random() < 0.65
    words = rng.sample(WORDS, n)
    if n >= 2 and rng.random() < 0.04:
        # the known classes: Python member names / Go constants that coincide
        a, b = rng.choice(COLLIDING)
        words = [w for w in words if w not in (a, b)][:n - 2] + [a, b]
        rng.shuffle(words)
    variants = []
    for w in words:
        kind = "u" if not algebraic else rng.choice("uts")
        v = dict(ident=w, kind=kind, rename=rng.choice(RENAMES) if rng.random() < 0.3 else None)
        if rng.random() < 0.1 and w not in ("Self", "Super", "Crate"):
            v["raw"] = True
        if rng.random() < 0.08:
            v["skip"] = rng.choice(["serde", "typeshare"])
        if rng.random() < 0.1:
            v["doc"] = rng.choice([" A doc line", " has `code`", " trailing space "])
        if kind == "s" and rng.random() < 0.3:
            v["variant_rule"] = rng.choice(RULES)
        variants.append(v)
    rule, spelling = (rng.choice(RULES) if rng.random() < 0.75 else None), None
    if rule is None and rng.random() < 0.2:
        # not one of serde's eight names: typeshare leaves identifiers alone (serde itself rejects the attribute)
        spelling = rng.choice(["Camel_Snake", "lower-case", "SCREAMING"])
    has_payload = any(v["kind"] != "u" and not v.get("skip") for v in variants)
    return make_enum(name, rule, variants, rng.choice(KEY_PAIRS), generic=has_payload and rng.random() < 0.3,
                     recursive=has_payload and rng.random() < 0.3, salt=rng.randint(0, 999), rule_spelling=spelling)


def random_cfg(rng, lang):
    cfg = {"type_mappings": {}, "version_header": rng.random() < 0.3, "package": "com.example.pkg",
           "module_name": rng.choice(["mod", ""]), "prefix": ""}
    if lang == "kotlin":
        cfg["prefix"] = rng.choice(["", "", "OP", "Core_"])
        cfg["package"] = rng.choice(["com.example.pkg", "", "x"])
    if lang == "swift":
        cfg["prefix"] = rng.choice(["", "", "OP", "Core_", "Ty"])
        cfg["default_decorators"] = rng.choice([[], [], ["Equatable"], ["Sendable", "Hashable"]])
        cfg["default_generic_constraints"] = rng.choice([[], [], ["Equatable"], ["Sendable & Identifiable"]])
        cfg["codablevoid_constraints"] = rng.choice([[], ["Equatable"]])
    if lang == "go":
        cfg["package"] = rng.choice(["proto", "my_pkg"])
        cfg["uppercase_acronyms"] = rng.choice(GO_ACRONYMS)
        cfg["no_pointer_slice"] = rng.random() < 0.4
    if lang == "scala":
        cfg["package"] = rng.choice(["com.example.pkg", "pkg", "a.b"])
    if lang == "typescript" and rng.random() < 0.2:
        cfg["type_mappings"] = {"Vec<u8>": "Uint8Array"}
    return cfg


# ----------------------------------------------------------------------------- extractors (implementation text)

STR = r'"(?:[^"\\]|\\.)*"'


def unq(s):
    return json.loads(s)


def ex_typescript(text):
    out = []
    for m in re.finditer(r'^export enum (\w+)(?:<[^>\n]*>)? \{(.*?)\n\}\n\n', text, re.M | re.S):
        cases = [(a, unq(b)) for a, b in re.findall(r'^\t(\w+) = (%s),$' % STR, m.group(2), re.M)]
        out.append(dict(name=m.group(1), alg=False, cases=cases, tags=[], contents=[], problems=[]))
    for m in re.finditer(r'^export type (\w+)(?:<[^>\n]*>)? = (.*?);\n\n', text, re.M | re.S):
        body = m.group(2)
        mem = re.findall(r'^\t\| \{ ([^\s:]+): (%s), ([^\s:?]+)(\??): ' % STR, body, re.M)
        problems = []
        if len(mem) != len(re.findall(r'^\t\| ', body, re.M)):
            problems.append("a union member is not of the form { tag: \"name\", content…: … }")
        out.append(dict(name=m.group(1), alg=True, cases=[(None, unq(w)) for _, w, _, _ in mem],
                        tags=[t for t, _, _, _ in mem], contents=[c for _, _, c, _ in mem], problems=problems))
    return out


def ex_kotlin(text):
    out = []
    for m in re.finditer(r'^(enum|sealed) class (\w+)[^\n]*\{\n(.*?)^\}\n', text, re.M | re.S):
        body, problems = m.group(3), []
        if m.group(1) == "enum":
            cases = [(n, unq(s_)) for s_, n in re.findall(r'^\t@SerialName\((%s)\)\n\t(\w+)\(%s\),$' % (STR, STR), body, re.M)]
            n_decl = len(re.findall(r'^\t\w+\(', body, re.M))
            out.append(dict(name=m.group(2), alg=False, cases=cases, tags=[], contents=[],
                            problems=[] if n_decl == len(cases) else ["an entry without @SerialName"]))
            continue
        found = re.findall(r'^\t@SerialName\((%s)\)\n\t(?:object (\w+)|data class (\w+)(?:<[^>\n]*>)?\(val ([^\s:]+): [^\n]*\)): [^\n]*\(\)$' % STR,
                           body, re.M)
        n_decl = len(re.findall(r'^\t(?:object|data class) ', body, re.M))
        if n_decl != len(found):
            problems.append("a subclass without @SerialName / of an unknown shape")
        out.append(dict(name=m.group(2), alg=True, cases=[(o or d, unq(s_)) for s_, o, d, _ in found], tags=[],
                        contents=[k for _, o, _, k in found if not o], problems=problems))
    return out


def unt(s):
    return s[1:-1] if len(s) >= 2 and s[0] == "`" and s[-1] == "`" else s


def ex_swift(text):
    out = []
    for m in re.finditer(r'^public (?:indirect )?enum ([^\s:<]+)[^\n]*\{\n(.*?)^\}\n', text, re.M | re.S):
        body, problems = m.group(2), []
        lines = re.findall(r'^\tcase ([^\s(=]+)(\(.*\))?(?: = (%s))?$' % STR, body, re.M)
        if "private enum ContainerCodingKeys" not in body:
            cases = [(n, unq(raw) if raw else unt(n)) for n, _, raw in lines]
            out.append(dict(name=m.group(1), alg=False, cases=cases, tags=[], contents=[], problems=problems))
            continue
        ck = re.search(r'^\tenum CodingKeys: String, CodingKey, Codable \{\n\t\tcase (.*?)\n\t\}\n', body, re.M | re.S)
        keys = []
        if ck:
            for part in ck.group(1).split(",\n\t\t\t"):
                km = re.fullmatch(r'([^\s=]+)(?: = (%s))?' % STR, part)
                if not km:
                    problems.append("unrecognised CodingKeys entry %r" % part)
                    continue
                keys.append((km.group(1), unq(km.group(2)) if km.group(2) else unt(km.group(1))))
        else:
            problems.append("no CodingKeys enum")
        if [n for n, _, _ in lines] != [n for n, _ in keys]:
            problems.append("case lines %r and CodingKeys %r differ" % ([n for n, _, _ in lines], [n for n, _ in keys]))
        tags, contents = [], []
        cm = re.search(r'private enum ContainerCodingKeys: String, CodingKey \{\n\t\tcase (\S+), (\S+)\n\t\}', body)
        if cm:
            tags.append(cm.group(1))
            contents.append(cm.group(2))
        else:
            problems.append("no ContainerCodingKeys")
        tags += re.findall(r'container\.decode\(CodingKeys\.self, forKey: \.(\S+?)\) \{', body)
        enc = re.findall(r'^\t\tcase \.([^\s(:]+)(\(let content\))?:\n\t\t\ttry container\.encode\(CodingKeys\.(\S+), forKey: \.(\S+?)\)'
                         r'(?:\n\t\t\ttry container\.encode\(content, forKey: \.(\S+?)\))?$', body, re.M)
        dec = re.findall(r'^(?:\t\t\t|            )case \.(\S+):\n\t\t\t\t(?:self = \.(\S+)\n\t\t\t\treturn|'
                         r'if let content = try\? container\.decode\((.*)\.self, forKey: \.(\S+?)\) \{\n\t\t\t\t\tself = \.(\S+)\(content\)\n\t\t\t\t\treturn\n\t\t\t\t\}'
                         r'(?:\n\t\t\t\telse if let isNil = try\? container\.decodeNil\(forKey: \.(\S+?)\), isNil \{\n\t\t\t\t\tself = \.(\S+)\(nil\))?)', body, re.M)
        for n, n2, _, k1, n3, k2, n4 in dec:
            if k1:
                contents.append(k1)
            if k2:
                contents.append(k2)
            if any(x and x != n for x in (n2, n3, n4)):
                problems.append("decode arm .%s assigns another case" % n)
        for n, has, n2, kt, kc in enc:
            tags.append(kt)
            if has:
                contents.append(kc) if kc else problems.append("encode arm .%s does not encode its content" % n)
            if unt(n) != unt(n2):
                problems.append("encode arm .%s writes CodingKeys.%s" % (n, n2))
        names = [unt(n) for n, _ in keys]
        if [unt(d[0]) for d in dec] != names or [unt(e[0]) for e in enc] != names:
            problems.append("decode / encode arms are not one per case in order")
        if body.count("forKey: .") != len(tags) + len(contents) - 2:
            problems.append("a `forKey:` occurrence of unknown role")
        out.append(dict(name=m.group(1), alg=True, cases=keys, tags=tags, contents=contents, problems=problems))
    return out


def ex_scala(text):
    out = []
    for m in re.finditer(r'^object (\w+) \{\n(.*?)^\}\n', text, re.M | re.S):
        body = m.group(2)
        found = re.findall(r'^\tcase (object|class) (\w+)(?:\[[^\]\n]*\])?(?:\(([^\s:]+): [^\n]*\))? extends [^\n]*\{\n'
                           r'\t\tval serialName: String = (%s)\n\t\}$' % STR, body, re.M)
        problems = [] if len(found) == len(re.findall(r'^\tcase ', body, re.M)) else ["a case of unknown shape"]
        alg = bool(re.search(r'^sealed trait %s(?:\[[^\]\n]*\])? \{' % re.escape(m.group(1)), text, re.M)) and \
            any(k == "class" for k, _, _, _ in found)
        out.append(dict(name=m.group(1), alg=alg, cases=[(n, unq(w)) for _, n, _, w in found], tags=[],
                        contents=[p for k, _, p, _ in found if k == "class"], problems=problems))
    return out


def ex_go(text):
    out = []
    for m in re.finditer(r'^type (\w+) string\nconst \((.*?)\n?\)\n', text, re.M | re.S):
        consts = re.findall(r'^\t(\w+) (\w+) = (%s)$' % STR, m.group(2), re.M)
        problems = []
        if any(t != m.group(1) for _, t, _ in consts):
            problems.append("a constant of another type inside the block")
        rest = text[m.end():]
        sm = re.match(r'type (\w+) struct\{ \n\t(\w+) (\w+) `json:(%s)`\n\t(\w+) interface\{\}\n\}\n' % STR, rest)
        cases = [(n, unq(w)) for n, _, w in consts]
        if not sm:
            out.append(dict(name=m.group(1), alg=False, cases=cases, tags=[], contents=[], problems=problems))
            continue
        name = sm.group(1)
        tags, contents = [unq(sm.group(4))], []
        um = re.search(r'^func \(\w* \*%s\) UnmarshalJSON\(data \[\]byte\) error \{\n\tvar enum struct \{\n'
                       r'\t\tTag    \w+   `json:"([^"\n]*)"`\n\t\tContent json\.RawMessage `json:"([^"\n]*)"`\n\t\}\n(.*?)^\}\n' % re.escape(name),
                       rest, re.M | re.S)
        mm = re.search(r'^func \(\w* %s\) MarshalJSON\(\) \(\[\]byte, error\) \{\n    var enum struct \{\n'
                       r'\t\tTag    \w+   `json:"([^"\n]*)"`\n\t\tContent interface\{\} `json:"([^"\n]*),omitempty"`\n    \}\n' % re.escape(name),
                       rest, re.M)
        if um:
            tags.append(um.group(1))
            contents.append(um.group(2))
            arms = re.findall(r'^\tcase (\w+):$', um.group(3), re.M)
            if arms != [n for n, _ in cases]:
                problems.append("the decode switch is not one arm per constant in order")
        else:
            problems.append("no UnmarshalJSON of the expected shape")
        if mm:
            tags.append(mm.group(1))
            contents.append(mm.group(2))
        else:
            problems.append("no MarshalJSON of the expected shape")
        out.append(dict(name=name, alg=True, cases=cases, tags=tags, contents=contents, problems=problems))
    return out


def ex_python(text):
    out = []
    enums = {}
    for m in re.finditer(r'^class (\w+)\(str, Enum\):\n((?:    [^\n]*\n|\n(?=    ))*)', text, re.M):
        enums[m.group(1)] = (re.findall(r'^    ([^\s=]+) = "((?:[^"\\]|\\.)*)"$', m.group(2), re.M), m.start())
    classes = {m.group(1): m.group(2) for m in re.finditer(r'^class (\w+)\(BaseModel\):\n((?:    [^\n]*\n)*)', text, re.M)}
    unions = {}
    for m in re.finditer(r'^(\w+) = (?:Union\[([^\]\n]*)\]|(\w+))$', text, re.M):
        unions[m.group(1)] = (m.group(2).split(", ") if m.group(2) is not None else [m.group(3)])
    for name, members in unions.items():
        problems, cases, tags, contents = [], [], [], []
        types = enums.get(name + "Types")
        if types is None:
            problems.append("no %sTypes enumeration" % name)
            types = ([], 0)
        for cls in members:
            body = classes.get(cls)
            if body is None:
                problems.append("union member %s is not a class" % cls)
                continue
            fm = re.search(r'^    ([^\s:]+): Literal\[(\S+)\] = (\S+)\n(?:    ([^\s:"]+): [^\n]*\n)?', body, re.M)
            if not fm or fm.group(2) != fm.group(3) or not fm.group(2).startswith(name + "Types."):
                problems.append("class %s has no Literal tag attribute" % cls)
                continue
            tags.append(fm.group(1))
            if fm.group(4):
                contents.append(fm.group(4))
            member = fm.group(2)[len(name) + 6:]
            cases.append((fm.group(2), [w.replace('\\"', '"') for n, w in types[0] if n == member]))
        out.append(dict(name=name, alg=True, cases=cases, tags=tags, contents=contents, problems=problems,
                        members=[n for n, _ in types[0]]))
    for name, (members, _) in enums.items():
        if name.endswith("Types") and name[:-5] in unions:
            continue
        out.append(dict(name=name, alg=False, cases=[(n, [w.replace('\\"', '"')]) for n, w in members], tags=[], contents=[],
                        problems=[]))
    return out


EXTRACT = {"typescript": ex_typescript, "kotlin": ex_kotlin, "swift": ex_swift, "scala": ex_scala, "go": ex_go,
           "python": ex_python}


def declared_name(lang, cfg, ident):
    if lang in ("kotlin", "swift"):
        return cfg.get("prefix", "") + ident
    if lang == "go":
        return go_acr(cfg.get("uppercase_acronyms", []), ident)
    return ident


def hole_counts(lang, exp):
    """how many tag / content holes the output of `lang` carries for this enum"""
    vs = exp["variants"]
    n, p = len(vs), sum(1 for v in vs if v["kind"] != "u")
    o = sum(1 for v in vs if v["kind"] == "t" and v["opt"])
    if exp["unit"]:
        return 0, 0
    return {"typescript": (n, n), "kotlin": (0, p), "scala": (0, p), "swift": (2 + n, 1 + p + o + p), "go": (3, 2),
            "python": (n, p)}[lang]


def known_class(lang, cfg, exp, snake):
    """the id of the open known class this enum lies in for this language, or None"""
    vs = exp["variants"]
    if lang == "python":
        names = [v["ident"].upper() for v in vs] if exp["unit"] else [snake.get(v["wire"], v["wire"]).upper() for v in vs]
        if len(set(names)) != len(names):
            return "python-member-name-collision"
    if lang == "go":
        names = [go_acr(cfg.get("uppercase_acronyms", []), v["ident"]) for v in vs]
        if len(set(names)) != len(names):
            return "go-acronym-constant-collision"
    return None


def oracle(lang, cfg, text, exps):
    """the property evaluated on generated text; returns {enum name: [(facet, message)]} for the enums that fail"""
    try:
        got = {g["name"]: g for g in EXTRACT[lang](text)}
    except Exception as ex:           # an extractor must never take the check down
        return {e["name"]: [("unrecognised", "extractor failed: %r" % ex)] for e in exps}
    bad = {}
    for exp in exps:
        g = got.get(declared_name(lang, cfg, exp["name"]))
        if g is None:
            bad[exp["name"]] = [("unrecognised", "no enum declaration named %s found" % declared_name(lang, cfg, exp["name"]))]
            continue
        problems = judge(lang, g, exp)
        if exp.get("alt") is not None:
            # the enum has variants with both one-directional skips: with a case for them or without, see make_enum
            if not problems:
                PAIR_SEEN["kept"] += 1
            elif not judge(lang, g, exp["alt"]):
                PAIR_SEEN["dropped"] += 1
                problems = []
        if problems:
            bad[exp["name"]] = problems
    return bad


PAIR_SEEN = {"kept": 0, "dropped": 0}


def judge(lang, g, exp):
    """the facets of the property on one extracted enum `g` against one expectation; returns [(facet, message)]"""
    problems = []
    for p in g["problems"]:
        problems.append(("unrecognised", p))
    want = [v["wire"] for v in exp["variants"]]
    under = " (rename_all = \"%s\")" % exp["rule"] if exp.get("rule") else ""
    if lang == "python":
        have = [w for _, w in g["cases"]]
        if len(have) != len(want) or any(x not in cands for x, cands in zip(want, have)):
            problems.append(("names", "wire names %r, serde gives %r%s" % (have, want, under)))
    else:
        have = [w for _, w in g["cases"]]
        if have != want:
            problems.append(("names", "wire names %r, serde gives %r%s" % (have, want, under)))
    ids = [i for i, _ in g["cases"] if i is not None]
    if len(set(ids)) != len(ids):
        problems.append(("distinct", "two variants share one case identifier: %r" % ids))
    nt, nc = hole_counts(lang, exp)
    if g["tags"] != [exp["tag"]] * nt:
        problems.append(("keys", "tag key printed as %r, expected %d x %r" % (g["tags"], nt, exp["tag"])))
    if g["contents"] != [exp["content"]] * nc:
        problems.append(("keys", "content key printed as %r, expected %d x %r" % (g["contents"], nc, exp["content"])))
    return problems


# ----------------------------------------------------------------------------- running cases

def build_case(lang, cfg, enums, gen):
    """enums: list of (item, exp) -> case dict with both requests"""
    f = {"attrs": [], "items": [it for it, _ in enums]}
    m, r, texts = l2.requests(lang, cfg, [{"crate": "", "file_name": "out", "path": "src/lib.rs", "file": f}], gen)
    return dict(lang=lang, cfg=cfg, exps=[e for _, e in enums], m=m, r=r, src=texts[0], file=f)


def snake_of(cases):
    """convert_case's snake-casing (external) of every wire name, through the runner"""
    names = sorted({v["wire"] for c in cases if c["lang"] == "python" for e in c["exps"] for v in e["variants"]})
    if not names:
        return {}
    rows = run_lines(RUNNER_BIN, [json.dumps({"op": "snake", "strings": names})])[0]["ok"]
    return {a: b for a, b in rows}


def evaluate(cases):
    """run model and implementation on the cases, compare, run the oracle.  Returns (stats, findings):
    findings are dicts(kind = violation-input | violation-corr | known, …)"""
    pynames = set()
    for c in cases:
        if c["lang"] == "python":
            pynames |= l2.names_of(c["file"])
    mans = [l2.norm(a) for a in model([c["m"] for c in cases], names=pynames or None)]
    rans = [l2.norm(a) for a in runner([c["r"] for c in cases])]
    snake = snake_of(cases)
    stats = dict(cases=0, enums=0, nontrivial=0, rejected=0, agree=0, hist={})
    findings = []
    for c, ma, ra in zip(cases, mans, rans):
        stats["cases"] += 1
        lang = c["lang"]
        for e in c["exps"]:
            stats["enums"] += 1
            stats["nontrivial"] += 0 if e["unit"] and all(v["wire"] == v["ident"] for v in e["variants"]) else 1
            k = "%s-%s" % (lang, "unit" if e["unit"] else "algebraic")
            stats["hist"][k] = stats["hist"].get(k, 0) + 1
        text = None
        if isinstance(ra.get("ok"), dict):
            text = "".join(ra["ok"].values())
        same = ma == ra
        stats["agree"] += 1 if same else 0
        if text is None:
            stats["rejected"] += 1
            if not same:
                if isinstance(ma.get("ok"), dict) and ("errors" in ra or "err" in ra):
                    # the implementation refuses to generate in-scope enums that the model generates: no variant of them
                    # has a case on the foreign side
                    findings.append(dict(kind="violation-input", what="%s: the implementation rejects a program of in-scope enums (%s); "
                                         "none of their variants gets a case on the foreign side" % (lang, str(ra)[:200]),
                                         case=c, impl=ra, model=ma))
                else:
                    findings.append(dict(kind="violation-corr", what="%s: the implementation answers %s, the model %s" %
                                         (lang, str(ra)[:200], str(ma)[:200]), case=c, impl=ra, model=ma))
            continue
        bad = oracle(lang, c["cfg"], text, c["exps"])
        new = {}
        for e in c["exps"]:
            ps = bad.get(e["name"])
            if not ps:
                continue
            kid = known_class(lang, c["cfg"], e, snake)
            if kid and all(f == "distinct" for f, _ in ps):
                findings.append(dict(kind="known", id=kid, witness={"lang": lang, "config": c["cfg"], "source": c["src"],
                                                                    "enum": e["name"], "oracle": ps}))
            else:
                new[e["name"]] = ps
        if new:
            name, ps = sorted(new.items())[0]
            findings.append(dict(kind="violation-input", what="%s output for enum %s violates the property: %s" % (lang, name, "; ".join(m for _, m in ps)),
                                 case=c, impl=ra, model=ma, enum=name, facets=sorted({f for f, _ in ps})))
        elif not same:
            d = None
            if isinstance(ma.get("ok"), dict):
                d = l2.text_diff("".join(ma["ok"].values()), text)
            findings.append(dict(kind="violation-corr", what="%s text differs from the model (%s); the oracle finds the "
                                 "implementation's output still correct" % (lang, d or str(ma)[:200]), case=c, impl=ra, model=ma))
    return stats, findings


def report(check, stats, findings):
    check.evaluations += stats["enums"]
    check.nontrivial.n += stats["nontrivial"]
    for k, v in stats["hist"].items():
        check.count(k, v)
    check.count("requests", stats["cases"])
    check.count("requests-rejected-by-both", stats["rejected"])
    check.count("requests-byte-identical", stats["agree"])
    for f in findings:
        if len(check.violations) >= 5 and f["kind"] != "known":
            continue
        if f["kind"] == "known":
            check.count("inside-known-class:" + f["id"])
            if not check.known(f["id"], f["witness"]):
                check.violation("the property fails inside a class that is not an open known finding (%s)" % f["id"],
                                case=f["witness"], failing_input=True)
        elif f["kind"] == "violation-input":
            c = f["case"]
            check.violation(f["what"], case={"lang": c["lang"], "config": c["cfg"], "source": c["src"], "request": c["r"],
                                             "expected": [e for e in c["exps"] if e["name"] == f.get("enum", e["name"])]},
                            impl=f["impl"], model=f["model"], failing_input=True)
        else:
            c = f["case"]
            check.violation(f["what"], case={"lang": c["lang"], "config": c["cfg"], "source": c["src"], "request": c["r"]},
                            impl=f["impl"], model=f["model"], failing_input=False,
                            broken="correspondence L2 write_enum for %s (theorems TsV.C02.C02_backend, C02_partial; "
                                   "templates swift_codec_template / go_codec_template)" % c["lang"])


class Counted:
    """stands in for the set of distinct non-trivial cases (an enumeration without repetitions is counted)"""

    def __init__(self):
        self.n = 0

    def add(self, _):
        self.n += 1

    def __len__(self):
        return self.n


# ----------------------------------------------------------------------------- the specification tie and witnesses

def serde_tie(check):
    """the python port of apply_to_variant used as the expectation equals the vendored serde_derive case.rs"""
    reqs, meta = [], []
    for w in WORDS + ["FooBAR", "UserID", "Foobar"]:
        for r in RULES:
            reqs.append({"op": "serde", "pos": "variant", "rule": r, "s": w})
            meta.append((r, w))
    for (r, w), a in zip(meta, runner(reqs)):
        if a.get("ok") != serde_variant(r, w):
            check.violation("the check's port of serde's apply_to_variant disagrees with the vendored case.rs on (%s, %s): %r vs %r"
                            % (r, w, serde_variant(r, w), a), case={"rule": r, "ident": w}, impl=a, failing_input=False,
                            broken="specification tie (tools/c02.py serde_variant)")
            return
    check.count("serde-spec-tie", len(reqs))


WITNESSES = [
    ("python-member-name-collision", "python", {},
     [dict(ident="FooBar", kind="u", rename=None), dict(ident="Foobar", kind="u", rename=None)]),
    ("python-member-name-collision", "python", {},
     [dict(ident="FooBar", kind="t", rename=None), dict(ident="FooBAR", kind="u", rename=None)]),
    ("go-acronym-constant-collision", "go", {"package": "p", "uppercase_acronyms": ["id"]},
     [dict(ident="UserId", kind="u", rename=None), dict(ident="UserID", kind="u", rename=None)]),
    ("go-acronym-constant-collision", "go", {"package": "p", "uppercase_acronyms": ["id"]},
     [dict(ident="UserId", kind="t", rename=None), dict(ident="UserID", kind="u", rename=None)]),
]


def replay_witnesses(check, gen):
    cases = []
    for kid, lang, cfg, variants in WITNESSES:
        cfg = dict({"type_mappings": {}, "version_header": False, "package": "p", "module_name": "", "prefix": ""}, **cfg)
        cases.append(build_case(lang, cfg, [make_enum("E", None, variants, ("t", "c"), salt=1)], gen))
    stats, findings = evaluate(cases)
    hit = {f["id"] for f in findings if f["kind"] == "known"}
    report(check, stats, findings)
    for kid in check.open:
        if kid not in hit:
            check.notes.append("witness of %s: the implementation's output now satisfies the property" % kid)


# ----------------------------------------------------------------------------- tiers

def quick_cases(rng, gen, n_files, per_file):
    cases = []
    for i in range(n_files):
        names = rng.sample(ENUM_NAMES, per_file)
        enums = [random_enum(rng, nm) for nm in names]
        for lang in LANGS:
            cases.append(build_case(lang, random_cfg(rng, lang), enums, gen))
    return cases


KINDS = [k for n in range(1, 5) for k in itertools.product("uts", repeat=n)]


def exhaustive_specs(max_n):
    """(rule, kinds, rename mask, key pair index, generic, recursive) without repetitions"""
    for ri, rule in enumerate([None] + RULES):
        for kinds in KINDS:
            n = len(kinds)
            if n > max_n:
                continue
            has_payload = any(k != "u" for k in kinds)
            for mask in range(2 ** n):
                if not has_payload:
                    yield (rule, kinds, mask, 0, False, False)
                    continue
                for ki in range(len(KEY_PAIRS)):
                    for generic, recursive in ((False, False), (True, False), (False, True), (True, True)):
                        yield (rule, kinds, mask, ki, generic, recursive)


def spec_enum(idx, name, spec):
    rule, kinds, mask, ki, generic, recursive = spec
    n = len(kinds)
    words = [WORDS[(idx * 7 + i * 5) % len(WORDS)] for i in range(n)]
    # distinct identifiers
    seen, j = set(), 0
    for i in range(n):
        while words[i] in seen:
            j += 1
            words[i] = WORDS[(idx + j) % len(WORDS)]
        seen.add(words[i])
    variants = [dict(ident=w, kind=k, rename=RENAMES[(idx + i * 3) % len(RENAMES)] if mask >> i & 1 else None)
                for i, (w, k) in enumerate(zip(words, kinds))]
    return make_enum(name, rule, variants, KEY_PAIRS[ki], generic=generic, recursive=recursive, salt=idx)


_SPECS = []          # filled by the parent before the pool forks


def _work(args):
    lang, chunk_id, start, end, seed, per_file = args
    rng = random.Random(seed * 1000003 + chunk_id)
    gen = Gen(rng)
    cases = []
    for off in range(start, end, per_file):
        part = _SPECS[off:min(off + per_file, end)]
        enums = [spec_enum(idx, "E%d" % j, sp) for j, (idx, sp) in enumerate(part)]
        cases.append(build_case(lang, random_cfg(rng, lang), enums, gen))
    stats, findings = evaluate(cases)
    # keep what goes back to the parent small
    for f in findings:
        if "case" in f:
            f["case"] = {k: f["case"][k] for k in ("lang", "cfg", "src", "r", "exps")}
    return stats, findings[:5]


def thorough(check, per_file=24, chunk=1920):
    global _SPECS
    _SPECS = list(enumerate(exhaustive_specs(4)))
    jobs = []
    for lang in LANGS:
        for c in range(0, len(_SPECS), chunk):
            jobs.append((lang, c // chunk, c, min(c + chunk, len(_SPECS)), check.seed, per_file))
    check.extra["exhaustive_scope"] = (
        "{no rule, 8 rules} x every sequence of 1..4 variant kinds over {unit, newtype, struct} x every subset of renamed "
        "variants x (for data-carrying enums) 12 tag/content pairs x {generic} x {recursive}: %d enums, each through all 6 "
        "languages (byte-exact against the model, and the oracle)" % len(_SPECS))
    with multiprocessing.Pool(min(12, os.cpu_count() or 4)) as pool:
        for stats, findings in pool.imap_unordered(_work, jobs):
            report(check, stats, findings)
            if len(check.violations) >= 5:
                pool.terminate()
                break
    check.exhaustive = True


ENUM_V1 = """#[typeshare]
#[serde(rename_all = "SCREAMING_SNAKE_CASE")]
pub enum Signal { HeartbeatAcknowledged, ConnectionClosedByPeer, Retry, Timeout, Unknown }

#[typeshare]
#[serde(tag = "messageKind", content = "messagePayload", rename_all = "kebab-case")]
pub enum Message { ConnectionClosedByPeer { reason_text: String }, Ping(u32), Quit }
"""
ENUM_V2 = """#[typeshare]
#[serde(rename_all = "lowercase")]
pub enum Signal { Ack, Closed, Retry }

#[typeshare]
#[serde(tag = "k", content = "p")]
pub enum Message { Closed { why: String }, Ping(u32), Quit }
"""


def on_disk_part(check):
    """the definitions a user gets are the file the binary leaves behind: over a destination that already holds an earlier (longer,
    equally long, shorter) output the file must end up as after a run into a fresh path - no variant, key or case of the earlier
    version may survive"""
    for lang in LANGS:
        for now, before in ((ENUM_V2, ENUM_V1), (ENUM_V1, ENUM_V2)):
            prob = dirty_destination(check, "enums", lang, {"src/lib.rs": now}, earlier_sources={"src/lib.rs": before})
            if prob:
                check.violation("%s: written over an existing file (%s) the output is not what a fresh run writes: the enum definitions "
                                "on disk mix two versions of the program" % (lang, prob["state"]), case=prob, impl=prob["file_after_run"],
                                model=prob["fresh_run"], failing_input=True)
                return


# ----------------------------------------------------------------------------- variant identifiers outside ASCII

# the alphabet, by what Unicode says about the letter's case (every letter is XID, NFC-stable: a Rust identifier as written)
UNI_CLASSES = {
    "upper": "ÖÉÑΩΣЖǄ",       # upper-case, the lower case is one letter (Ǆ: a digraph)
    "upper-expanding": "İ",    # upper-case, the lower case is two code points
    "title": "ǅǲ",            # title-case digraphs: neither char::is_uppercase nor is_lowercase, both mappings change them
    "lower": "öéñωσжǆ",        # lower-case, the upper case is one letter
    "lower-expanding": "ßŉǰﬁ",  # lower-case, the upper case is two letters (SS, ʼN, J̌, FI)
    "lower-to-ascii": "ıſ",    # lower-case, the upper case is an ASCII letter (I, S)
    "lower-only": "ĸς",        # lower-case without an upper case of its own / final sigma (upper case Σ, whose lower case is σ)
    "caseless": "日",          # a letter without case
}
UNI_CAPS = ("upper", "upper-expanding", "title")
UNI_WORDS = ["Café", "Straße", "Öffnen", "Schließen", "Größe", "ÉtéIndien", "Ωmega", "Ǆungla", "ǅemal", "İstanbul", "Dıyarbakır",
             "Waſſer", "ΑλφαBeta", "NaïveBayes", "Señor", "ŒuvreD1", "Žlutý", "ЖукBug", "ÅngströmUnit", "Tōkyō", "ΟδόςAlpha", "Ærø"]
UNI_KEY_PAIRS = [("größe", "wert"), ("τύπος", "δεδομένα"), ("Art", "İçerik"), ("ıd", "ßody")]
UNI_ALLCAPS_ID = "ascii-allcaps-test-on-unicode-names"


def uni_class(ch):
    for k, v in UNI_CLASSES.items():
        if ch in v:
            return k
    return None


def uni_pool():
    """every letter of the alphabet at every position an UpperCamelCase identifier has for it: a capital as the first letter of
    the first / an inner / the last (one-letter) word, a small or caseless letter inside and at the end of a word - each time next
    to ASCII letters (so that the identifier has an ASCII lower-case letter: see `unicode_names_part`)"""
    out = []
    for k, letters in UNI_CLASSES.items():
        for c in letters:
            if k in UNI_CAPS:
                out += [c + "ab", "Ab" + c + "d", "Ab" + c, c + "a" + c + "b"]
            else:
                out += ["A" + c + "b", "Ab" + c, "Ab" + c + "Cd", "X" + c + c + "y"]
    return out + UNI_WORDS


def uni_random_ident(rng, ascii_first, ascii_lower_letter=True):
    """1-3 words, each a capital (ASCII or not) and 0-3 small letters / digits (ASCII or not)"""
    caps = "".join(UNI_CLASSES[k] for k in UNI_CAPS)
    smalls = "".join(v for k, v in UNI_CLASSES.items() if k not in UNI_CAPS)
    words = []
    for w in range(rng.choice([1, 2, 2, 3])):
        cap = rng.choice("ABDEFGHIKMNOSTZ") if (w == 0 and ascii_first) or rng.random() < 0.4 else rng.choice(caps)
        if not ascii_lower_letter and w > 0:
            cap = rng.choice(caps)
        tail = ""
        for _ in range(rng.choice([0, 1, 2, 2, 3])):
            r = rng.random()
            tail += rng.choice(smalls) if r < 0.5 or not ascii_lower_letter else (rng.choice("0123456789") if r < 0.58 else rng.choice("abeiklnorstuz"))
        words.append(cap + tail)
    s_ = "".join(words)
    if ascii_lower_letter and not re.search("[a-z]", s_):
        words[0] += rng.choice("aeiou")
        s_ = "".join(words)
    if not ascii_lower_letter and len(s_) < 2:
        s_ += rng.choice(UNI_CLASSES["lower"])
    return s_


def unicode_mapped(rule, ident):
    """what the rule gives when the *Unicode* case mapping is used where serde uses the ASCII one (the neighbouring
    implementation): only to count how many of the explored variants tell the two apart"""
    if rule in (None, "PascalCase"):
        return ident
    if rule == "lowercase":
        return ident.lower()
    if rule == "UPPERCASE":
        return ident.upper()
    if rule == "camelCase":
        return ident[:1].lower() + ident[1:]
    snake = "".join(("_" if i > 0 and is_uppercase(ch) else "") + ch.lower() for i, ch in enumerate(ident))
    return {"snake_case": snake, "SCREAMING_SNAKE_CASE": snake.upper(), "kebab-case": snake.replace("_", "-"),
            "SCREAMING-KEBAB-CASE": snake.upper().replace("_", "-")}[rule]


def uni_enums(rng, idents, rule, name_of, unit_first):
    """enums of 1-5 variants over `idents` (all of them used once), alternately unit enums and adjacently tagged enums"""
    enums, i, n = [], 0, 0
    while i < len(idents):
        k = rng.choice([1, 2, 3, 3, 4, 5])
        chunk, i = idents[i:i + k], i + k
        unit = (n % 2 == 0) == unit_first
        variants = []
        for w in chunk:
            v = dict(ident=w, kind="u" if unit else rng.choice("uts"), rename=rng.choice(RENAMES) if rng.random() < 0.08 else None)
            if rng.random() < 0.05:
                v["doc"] = " A doc line"
            variants.append(v)
        if not unit and all(v["kind"] == "u" for v in variants):
            variants[rng.randrange(len(variants))]["kind"] = rng.choice("ts")
        keys = rng.choice(UNI_KEY_PAIRS) if rng.random() < 0.25 else rng.choice(KEY_PAIRS)
        enums.append(make_enum(name_of(n), rule, variants, keys, generic=not unit and rng.random() < 0.15,
                               recursive=not unit and rng.random() < 0.15, salt=rng.randint(0, 999)))
        n += 1
    return enums


def shrink_to_enum(f, gen):
    """a finding of the oracle about one enum of a file: the same request with that enum alone, when the output for it still
    violates the property (otherwise the finding as it is)"""
    if f["kind"] != "violation-input" or not f.get("enum") or len(f["case"]["exps"]) < 2:
        return f
    c = f["case"]
    keep = [(it, e) for it, e in zip(c["file"]["items"], c["exps"]) if e["name"] == f["enum"]]
    if len(keep) != 1 or keep[0][0].get("ident") != f["enum"]:
        return f
    _, again = evaluate([build_case(c["lang"], c["cfg"], keep, gen)])
    again = [g for g in again if g["kind"] == "violation-input" and g.get("enum") == f["enum"]]
    return again[0] if again else f


def unicode_tie(check, pairs):
    """the port of apply_to_variant equals the vendored serde_derive case.rs on every (rule, identifier) the part uses"""
    pairs = sorted(set(pairs))
    ans = runner([{"op": "serde", "pos": "variant", "rule": r, "s": w} for r, w in pairs])
    for (r, w), a in zip(pairs, ans):
        if a.get("ok") != serde_variant(r, w):
            check.violation("the check's port of serde's apply_to_variant disagrees with the vendored case.rs on (%s, %s): %r vs %r"
                            % (r, w, serde_variant(r, w), a), case={"rule": r, "ident": w}, impl=a, failing_input=False,
                            broken="specification tie (tools/c02.py serde_variant, identifiers outside ASCII)")
            return False
    check.count("serde-spec-tie-unicode", len(pairs))
    return True


def unicode_names_part(check, gen):
    """Dimension: the *alphabet of the variant identifiers*.  The other parts draw identifiers from [A-Za-z0-9]; here they are
    UpperCamelCase identifiers over an alphabet with cased letters outside ASCII - upper-case letters whose lower case is one
    letter (Ö É Ñ Ω Σ Ж Ǆ) or two code points (İ), title-case digraphs (ǅ ǲ), lower-case letters whose upper case is one
    letter (ö é σ ж …), two letters (ß ŉ ǰ ﬁ), an ASCII letter (ı ſ) or missing (ĸ, final ς), a caseless letter (日) - each at
    every position (first letter, first letter of an inner / of the last word, inside and at the end of a word), plus a
    dictionary of words and random identifiers; unit enums and adjacently tagged enums (unit / newtype / struct variants,
    sometimes generic / recursive, a few explicit renames, tag / content keys with and without letters outside ASCII), no rule
    and all eight rename_all rules, random back-end configurations, all six languages.
    Demand: the property itself, on the implementation's text - C02's extractors recover the wire name of every case and
    every printed tag / content key; they must be serde's (`apply_to_variant`: ASCII-only case mapping, word boundary before
    every `char::is_uppercase` letter; the port is compared with the vendored serde_derive on every identifier used).  The
    text is also compared byte for byte with the Lean back-end models (which get the Unicode facts of exactly these letters
    from Rust std).
    Scope notes.  (1) Under camelCase serde_derive slices the first *byte* off the identifier and panics when the first
    letter is outside ASCII (the user's crate does not compile): camelCase enums get identifiers with an ASCII first letter.
    (2) Identifiers *without any ASCII lower-case letter* but with a lower-case letter of another script (`ΑλφαΒήτα`,
    `ÖßÉé`) are explored as a class of their own (`unicode_allcaps_class`), with the same demands: before the fix "a name with
    non-ASCII lowercase letters is not all uppercase" typeshare's test "is the name all capitals" was ASCII-only and took them
    for all-capitals names.  Identifiers without any lower-case letter at all (`ΟΔΟΣ`, `Ж1Ω2`: all capitals, like `URL`) are
    not UpperCamelCase; they belong to C16's open finding `allcaps-special-case`."""
    rng = random.Random(check.seed * 7919 + 17)
    RUST_UPPER.update({r[0]: r[1] for r in unicode_table(set("".join(UNI_CLASSES.values()) + "".join(UNI_WORDS)))})
    pool = uni_pool()
    n_random = 120 if check.thorough else 24
    rounds = 4 if check.thorough else 1
    cases, pairs = [], []
    sensitive = 0
    for rule in [None] + RULES:
        for rnd in range(rounds):
            idents = list(pool)
            seen = set(idents)
            while len(idents) < len(pool) + n_random:
                w = uni_random_ident(rng, ascii_first=rng.random() < 0.5)
                if w not in seen:
                    seen.add(w)
                    idents.append(w)
            if rule == "camelCase":
                idents = [w for w in idents if ord(w[0]) < 128]
            rng.shuffle(idents)
            enums = uni_enums(rng, idents, rule, lambda n: "%s%d" % (ENUM_NAMES[n % len(ENUM_NAMES)], n), unit_first=rnd % 2 == 0)
            for w in idents:
                check.count("unicode-variants")
                if rule is not None:
                    pairs.append((rule, w))
                    if unicode_mapped(rule, w) != serde_variant(rule, w):
                        sensitive += 1
                for k in {uni_class(ch) for ch in w} - {None}:
                    check.count("unicode-class:" + k)
            check.count("unicode-rule:%s" % rule, len(idents))
            per_file = 6
            for i in range(0, len(enums), per_file):
                for lang in LANGS:
                    cases.append(build_case(lang, random_cfg(rng, lang), enums[i:i + per_file], gen))
    check.count("unicode-variants-telling-ascii-from-unicode-case-mapping", sensitive)
    check.count("unicode-requests", len(cases))
    if not unicode_tie(check, pairs):
        return
    c = next(c for c in cases if c["lang"] == "kotlin" and any(not e["unit"] for e in c["exps"]))
    check.samples.append({"lang": c["lang"], "config": c["cfg"], "source": c["src"],
                          "serde": [{"enum": e["name"], "wire": [v["wire"] for v in e["variants"]], "tag": e["tag"], "content": e["content"]}
                                    for e in c["exps"]]})
    stats, findings = evaluate(cases)
    shrunk = 0
    for i, f in enumerate(findings):
        if f["kind"] == "violation-input" and shrunk < 5:      # `report` keeps five
            findings[i], shrunk = shrink_to_enum(f, gen), shrunk + 1
    report(check, stats, findings)
    if not check.has_failing():
        unicode_allcaps_class(check, gen, rng)


def unicode_allcaps_class(check, gen, rng):
    """UpperCamelCase identifiers with no ASCII lower-case letter but at least one lower-case letter of another script
    (Greek, Cyrillic, `ÖßÉé`, with or without ASCII capitals and digits; "lower-case" = `char::is_lowercase` of Rust std,
    through the runner), under the eight rules, all six languages.  This is the class of the repaired defect `%s`: typeshare
    decided "the name is all capitals" (the `URL` / `TOTP` special case of to_pascal_case / to_snake_case) with
    `to_ascii_uppercase() == name`, which holds for every such identifier - the snake family then set no `_` before the inner
    capitals and PascalCase / camelCase lower-cased the ASCII capitals of the tail, where serde does neither.  Since the fix
    the test is "no lower-case letter of any script", and the class is demanded like every other: serde's wire names, the
    keys, one case per variant, recognisable declarations, and the byte-exact comparison with the model.  (Identifiers with
    no lower-case letter whatsoever really are all capitals and stay out, as `URL` does in the ASCII parts.)"""
    fixed = ["ΑλφαΒήτα", "ÖßÉé", "ЖукМир", "Éé", "ΩσΣς", "ÉéB", "ΟδόςA", "ǅöǲé", "İıİı", "Жσ1Ω2", "ÑñA1Éé"]
    cases, pairs = [], []
    for rule in RULES:
        idents, seen = list(fixed), set(fixed)
        while len(idents) < len(fixed) + (40 if check.thorough else 8):
            w = uni_random_ident(rng, ascii_first=False, ascii_lower_letter=False)
            if w not in seen and not re.search("[a-z]", w) and not rust_all_uppercase(w):
                seen.add(w)
                idents.append(w)
        if rule == "camelCase":
            continue        # the first letter is outside ASCII: serde_derive itself fails
        rng.shuffle(idents)
        pairs += [(rule, w) for w in idents]
        enums = uni_enums(rng, idents, rule, lambda n: "%s%d" % (ENUM_NAMES[n % len(ENUM_NAMES)], n), unit_first=True)
        check.count("unicode-allcaps-class-variants", len(idents))
        for i in range(0, len(enums), 6):
            for lang in LANGS:
                cases.append(build_case(lang, random_cfg(rng, lang), enums[i:i + 6], gen))
    RUST_UPPER.update({r[0]: r[1] for r in unicode_table({ch for _, w in pairs for ch in w if ord(ch) > 127})})
    if not unicode_tie(check, pairs):
        return
    for w in fixed:
        if rust_all_uppercase(w):
            raise InfraError("the stored identifier %r has no lower-case letter (char::is_lowercase): it is not in the class" % w)
    stats, findings = evaluate(cases)
    shrunk = 0
    for i, f in enumerate(findings):
        if f["kind"] == "violation-input" and shrunk < 5:
            findings[i], shrunk = shrink_to_enum(f, gen), shrunk + 1
    check.count("unicode-allcaps-class-requests-with-a-name-differing-from-serde",
                sum(1 for f in findings if f["kind"] == "violation-input" and "names" in (f.get("facets") or [])))
    report(check, stats, findings)


unicode_allcaps_class.__doc__ = unicode_allcaps_class.__doc__ % UNI_ALLCAPS_ID


# ----------------------------------------------------------------------------- serde attributes that look like a skip

# (name, serde argument(s) to draw from, variant kinds serde_derive accepts it on)
LOOKALIKES = [
    ("skip_serializing", [m_path("skip_serializing")], "uts"),          # never written, still accepted from the wire
    ("skip_deserializing", [m_path("skip_deserializing")], "uts"),      # never accepted, still written to the wire
    ("skip_serializing_if", [m_nv("skip_serializing_if", lit_s("Option::is_none")), m_nv("skip_serializing_if", lit_s("skip"))], "uts"),
    ("other", [m_path("other")], "u"),                                  # the catch-all of the decoder: the last variant, a unit
    ("alias", [m_nv("alias", lit_s("old-name")), m_nv("alias", lit_s("skip")), m_nv("alias", lit_s("V1"))], "uts"),
    ("serialize_with", [m_nv("serialize_with", lit_s("helpers::ser"))], "uts"),
    ("deserialize_with", [m_nv("deserialize_with", lit_s("helpers::de")), m_nv("deserialize_with", lit_s("skip"))], "uts"),
    ("with", [m_nv("with", lit_s("helpers"))], "uts"),
    ("bound", [m_nv("bound", lit_s("")), m_nv("bound", lit_s("u8: Copy"))], "uts"),
    ("borrow", [m_path("borrow")], "t"),                                # newtype variants only
]
PAIR = [m_path("skip_serializing"), m_path("skip_deserializing")]


def lookalike_variant(rng, word, kind, looks, rename_ctx, rule_pool):
    """a variant carrying the look-alike arguments named in `looks` ("pair" = both one-directional skips)"""
    v = dict(ident=word, kind=kind, rename=rng.choice(RENAMES) if rename_ctx else None, extra_layout=rng.randrange(4))
    extra = []
    for nm in looks:
        if nm == "pair":
            extra += PAIR if rng.random() < 0.5 else PAIR[::-1]
            v["pair"] = True
        else:
            extra.append(rng.choice(next(ms for n, ms, _ in LOOKALIKES if n == nm)))
    v["extra"], v["looks"] = extra, list(looks)
    if kind == "s" and rng.random() < 0.3:
        v["variant_rule"] = rng.choice(rule_pool)
    if rng.random() < 0.15:
        v["doc"] = " A doc line"
    return v


def lookalike_enum(rng, name, target, unit_enum, kind, ctx, rule):
    """an enum around one *target* variant of kind `kind` carrying the look-alike `target` (or "pair"), with or without a
    rename (`ctx & 1`) under `rule`; 0-3 neighbours: plain, really skipped (`serde(skip)` / `typeshare(skip)`, sometimes next
    to a look-alike), the pair, one or two other look-alikes"""
    n = rng.choice([0, 1, 1, 2, 2, 3]) + (1 if target == "pair" else 0)
    words = rng.sample(WORDS, n + 2)
    spare = words.pop()
    tv = lookalike_variant(rng, words[0], kind, [target], ctx & 1, RULES)
    others = []
    for i, w in enumerate(words[1:]):
        k = "u" if unit_enum else rng.choice("uts")
        r = rng.random()
        allowed = [nm for nm, _, ks in LOOKALIKES if k in ks and nm != "other"]
        if target == "pair" and i == 0:
            v = dict(ident=w, kind=k, rename=None)          # the enum keeps a variant that is on the wire
        elif r < 0.2:
            v = lookalike_variant(rng, w, k, rng.sample(allowed, rng.choice([0, 0, 1])), rng.random() < 0.3, RULES)
            v["skip"] = rng.choice(["serde", "typeshare"])
        elif r < 0.32:
            v = lookalike_variant(rng, w, k, ["pair"], rng.random() < 0.3, RULES)
        elif r < 0.7:
            looks = rng.sample(allowed, rng.choice([1, 1, 2]))
            if "skip_serializing" in looks and "skip_deserializing" in looks:
                looks = ["pair"]
            if "with" in looks:         # serde_derive: `with` stands for both, naming one of them again is a duplicate
                looks = [x for x in looks if x not in ("serialize_with", "deserialize_with")]
            v = lookalike_variant(rng, w, k, looks, rng.random() < 0.3, RULES)
        else:
            v = dict(ident=w, kind=k, rename=rng.choice(RENAMES) if rng.random() < 0.3 else None)
        others.append(v)
    at = len(others) if target == "other" else rng.randrange(len(others) + 1)
    variants = others[:at] + [tv] + others[at:]
    if not unit_enum and not any(v["kind"] != "u" and not v.get("skip") and not v.get("pair") for v in variants):
        # an adjacently tagged enum keeps a data-carrying variant that is on the wire
        variants.insert(0, dict(ident=spare, kind=rng.choice("ts"), rename=None))
    has_payload = any(v["kind"] != "u" and not v.get("skip") for v in variants)
    return make_enum(name, rule, variants, rng.choice(KEY_PAIRS), generic=has_payload and rng.random() < 0.2,
                     recursive=has_payload and rng.random() < 0.2, salt=rng.randint(0, 999))


def lookalike_attrs_part(check, gen):
    """Dimension: the *serde arguments a variant carries besides its rename*.  The other parts give a variant a rename, a
    rename_all (struct variants), a doc comment and the two real skips; here a variant also carries arguments that look like a
    skip or sit where a skip sits but are none: `skip_serializing` alone (serde never writes the variant but still accepts
    it), `skip_deserializing` alone (never accepted, still written), `skip_serializing_if = ".."`, `other`, `alias = ".."`,
    `serialize_with` / `deserialize_with` / `with = ".."`, `bound = ".."`, `borrow` - each one as the target of an enum, on
    unit / newtype / struct variants (where serde_derive knows the argument on that kind; `skip_serializing_if` is a field
    argument for serde_derive and a no-op for typeshare - it is explored because it is the nearest spelling), of unit enums and
    of adjacently tagged enums, without and with a per-variant rename, without and with a rename_all rule, merged into the
    rename's `#[serde(..)]` in front of / behind it or as attributes of their own in front of / behind it; the neighbours in the
    enum are plain variants, really skipped ones (`#[serde(skip)]`, `#[typeshare(skip)]`, also next to a look-alike), variants
    with two look-alikes, and variants with BOTH one-directional skips; random configurations, six languages.
    Demand: the property itself on the implementation's text (C02's extractors): every variant that serde puts on the wire in
    at least one direction has exactly one case, under serde's wire name (rename, else rule, else identifier), with the keys
    in every hole; a really skipped variant has none.  A variant with both one-directional skips is on the wire in no
    direction: an output with a case for it and an output without are both accepted (the counters say which one the tool
    gives).  The text is also compared byte for byte with the Lean back-end models."""
    rng = random.Random(check.seed * 104729 + 14)
    rounds = 6 if check.thorough else 1
    specs = []
    for target, kinds in [(nm, ks) for nm, _, ks in LOOKALIKES] + [("pair", "uts")]:
        for unit_enum in (True, False):
            for kind in ("u" if unit_enum else "uts"):
                if kind in kinds:
                    specs += [(target, unit_enum, kind, ctx) for ctx in range(4)]
    cases = []
    PAIR_SEEN.update(kept=0, dropped=0)
    for rnd in range(rounds):
        enums = []
        order = list(specs)
        rng.shuffle(order)
        for i, (target, unit_enum, kind, ctx) in enumerate(order):
            rule = RULES[(i + rnd) % len(RULES)] if ctx & 2 else None
            it, exp = lookalike_enum(rng, "%s%d" % (ENUM_NAMES[i % len(ENUM_NAMES)], i), target, unit_enum, kind, ctx, rule)
            enums.append((it, exp))
            check.count("lookalike-target:%s" % target)
            check.count("lookalike-enums:%s" % ("unit" if exp["unit"] else "adjacently-tagged"))
            for v in exp["variants"]:
                if v.get("looks"):
                    check.count("lookalike-variants-on-the-wire:%s" % ("both-one-directional-skips" if v.get("pair") else v["kind"]))
            check.count("lookalike-variants-really-skipped", len(it["variants"]) - len(exp["variants"]))
        for i in range(0, len(enums), 4):
            for lang in LANGS:
                cases.append(build_case(lang, random_cfg(rng, lang), enums[i:i + 4], gen))
    check.count("lookalike-requests", len(cases))
    c = next(c for c in cases if c["lang"] == "typescript" and any(not e["unit"] for e in c["exps"]))
    check.samples.append({"lang": c["lang"], "config": c["cfg"], "source": c["src"],
                          "serde": [{"enum": e["name"], "wire": [v["wire"] for v in e["variants"]], "tag": e["tag"], "content": e["content"]}
                                    for e in c["exps"]]})
    stats, findings = evaluate(cases)
    check.count("lookalike-enums-with-both-skips:case-kept", PAIR_SEEN["kept"])
    check.count("lookalike-enums-with-both-skips:case-dropped", PAIR_SEEN["dropped"])
    shrunk = 0
    for i, f in enumerate(findings):
        if f["kind"] == "violation-input" and shrunk < 5:
            f = findings[i] = shrink_to_enum(f, gen)
            shrunk += 1
            marked = ["%s (%s)" % (v["ident"], ", ".join(v["looks"])) for e in f["case"]["exps"] if e["name"] == f.get("enum")
                      for v in e["variants"] if v.get("looks")]
            if marked:
                f["what"] += " - variants of the enum with serde arguments that are not a skip (serde still writes or accepts " \
                             "them under their wire name; `pair` = both one-directional skips, never on the wire): " + "; ".join(marked)
    report(check, stats, findings)



def run(check):
    rng = check.rng
    check.nontrivial = Counted()
    gen = Gen(rng)
    check.rule = ("unit enums and adjacently tagged enums with UpperCamelCase variants (mix of unit / newtype / struct "
                  "variants, generics, recursion, skipped variants), none + 8 rename_all rules (+ unknown rule names), "
                  "per-variant renames over [A-Za-z_][A-Za-z0-9_-]*, 12 tag/content key pairs, random back-end "
                  "configurations (prefixes, packages, Go acronyms), six languages; byte-exact comparison of the generated "
                  "text with the Lean models, and the oracle (extractor over the implementation's text vs serde's names "
                  "and keys computed from the AST) on every output; non-trivial = the enum is algebraic or some variant's "
                  "wire name differs from its identifier; plus (unicode_names_part) the same kinds of enums with variant "
                  "identifiers over an alphabet with non-ASCII upper- / lower- / title-case and caseless letters (ß, ı, ǅ, İ, Σ/ς, "
                  "Greek, Cyrillic) at every position, none + 8 rules, six languages; plus (lookalike_attrs_part) variants carrying "
                  "serde arguments that look like a skip but are none (skip_serializing / skip_deserializing alone, "
                  "skip_serializing_if, other, alias, serialize_with, deserialize_with, with, bound, borrow) next to really skipped ones")
    serde_tie(check)
    replay_witnesses(check, gen)
    n_files = 1200 if check.thorough else 400
    cases = quick_cases(rng, gen, n_files, 4)
    for c in cases[:3]:
        check.sample({"lang": c["lang"], "config": c["cfg"], "source": c["src"],
                      "serde": [{"enum": e["name"], "wire": [v["wire"] for v in e["variants"]], "tag": e["tag"], "content": e["content"]}
                                for e in c["exps"]]})
    stats, findings = evaluate(cases)
    report(check, stats, findings)
    if stats["rejected"] * 10 > stats["cases"]:
        check.notes.append("%d of %d requests were rejected by implementation and model alike" % (stats["rejected"], stats["cases"]))
    if not check.has_failing():
        lookalike_attrs_part(check, gen)
    if not check.has_failing():
        unicode_names_part(check, gen)
    if check.thorough and not check.has_failing():
        thorough(check)
    if not check.has_failing():
        on_disk_part(check)
    check.assumptions += [
        "convert_case's snake-casing (Python member names) is external: taken from the real crate through the runner",
        "an enum whose variants share a *wire* name (possible through serde(rename)) is inside the scope; the property "
        "demands distinct case identifiers, not distinct wire names",
        "identifiers outside ASCII: char::is_uppercase of the letters used is taken from Rust std (runner op `unicode`), serde's "
        "names from the python port of apply_to_variant, compared with the vendored serde_derive case.rs on every identifier "
        "used; camelCase enums only get identifiers with an ASCII first letter (serde_derive panics on the others)",
    ]
