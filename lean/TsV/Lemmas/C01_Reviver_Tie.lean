import TsV.Lemmas.C01_Reviver_State
/-!
# C01, the reviver — the steps are what the model prints

Whenever `writeItems` succeeds, `itemsSteps` succeeds with the same final state, and the property
line of every field step (`renderField tf`) occurs in the printed text.
-/
namespace TsV.C01R
open TsV TsV.Lang TsV.Lang.TypeScript TsV.Outcome

theorem infix_wrap {a b : Str} (x y : Str) (h : a <:+: b) : a <:+: x ++ b ++ y := by
  obtain ⟨p, q, rfl⟩ := h
  exact ⟨x ++ p, q ++ y, by simp [List.append_assoc]⟩

theorem infix_left {a b : Str} (y : Str) (h : a <:+: b) : a <:+: b ++ y := by
  simpa using infix_wrap [] y h

theorem infix_right {a b : Str} (x : Str) (h : a <:+: b) : a <:+: x ++ b := by
  simpa using infix_wrap x [] h

theorem render_infix {tf : TsField} {tfs : List TsField} (h : tf ∈ tfs) :
    renderField tf <:+: tfs.flatMap renderField := by
  obtain ⟨a, b, rfl⟩ := List.append_of_mem h
  exact ⟨a.flatMap renderField, b.flatMap renderField, by simp⟩

theorem mem_fieldSteps {fs : List RustField} {tfs : List TsField} {f : RustField} {tf : TsField}
    (h : Step.field f tf ∈ fieldSteps fs tfs) : f ∈ fs ∧ tf ∈ tfs := by
  unfold fieldSteps at h
  obtain ⟨p, hp, he⟩ := List.mem_map.1 h
  cases he
  exact ⟨(List.of_mem_zip hp).1, (List.of_mem_zip hp).2⟩

theorem ty_not_mem_fieldSteps {fs : List RustField} {tfs : List TsField} {t : RustType} :
    Step.ty t ∉ fieldSteps fs tfs := by
  intro h
  unfold fieldSteps at h
  obtain ⟨p, _, he⟩ := List.mem_map.1 h
  cases he

/-- what a step list says about a text: every property line it names is printed there -/
def Printed (steps : List Step) (txt : Str) : Prop :=
  ∀ f tf, Step.field f tf ∈ steps → renderField tf <:+: txt

theorem Printed.nil (txt : Str) : Printed [] txt := fun _ _ h => by simp at h

theorem Printed.append {a b : List Step} {x y : Str} (ha : Printed a x) (hb : Printed b y) :
    Printed (a ++ b) (x ++ y) := by
  intro f tf h
  rcases List.mem_append.1 h with h | h
  · exact infix_left y (ha f tf h)
  · exact infix_right x (hb f tf h)

theorem Printed.wrap {a : List Step} {x : Str} (p q : Str) (ha : Printed a x) : Printed a (p ++ x ++ q) :=
  fun f tf h => infix_wrap p q (ha f tf h)

theorem printed_fields (fs : List RustField) (tfs : List TsField) :
    Printed (fieldSteps fs tfs) (tfs.flatMap renderField) :=
  fun _ _ h => render_infix (mem_fieldSteps h).2

theorem writeVariants_steps (cfg : Cfg) (e : RustEnum) (tag content : Str) :
    ∀ (vs : List RustEnumVariant) (st st' : CustomMap) (txt : Str),
      writeVariants cfg e tag content vs st = .ok (txt, st') →
      ∃ steps, variantsSteps cfg e vs st = .ok (steps, st') ∧ Printed steps txt
  | [], st, st', txt, h => by
    simp only [writeVariants, Outcome.ok.injEq, Prod.mk.injEq] at h
    obtain ⟨rfl, rfl⟩ := h
    exact ⟨[], rfl, Printed.nil _⟩
  | v :: vs, st, st', txt, h => by
    simp only [writeVariants] at h
    obtain ⟨a, st1, h1, h⟩ := bindPair h
    obtain ⟨b, st2, h2, h⟩ := bindPair h
    simp only [Outcome.ok.injEq, Prod.mk.injEq] at h
    obtain ⟨rfl, rfl⟩ := h
    obtain ⟨rest, hr, hp⟩ := writeVariants_steps cfg e tag content vs st1 st2 b h2
    cases v with
    | unit id cs =>
      simp only [writeVariant, Outcome.ok.injEq, Prod.mk.injEq] at h1
      obtain ⟨_, rfl⟩ := h1
      exact ⟨rest, by simp only [variantsSteps]; exact hr, fun f tf hm => infix_right a (hp f tf hm)⟩
    | tuple id cs ty =>
      simp only [writeVariant] at h1
      obtain ⟨t, st3, h5, h6⟩ := bindPair h1
      simp only [Outcome.ok.injEq, Prod.mk.injEq] at h6
      obtain ⟨_, rfl⟩ := h6
      refine ⟨Step.ty ty :: rest, by simp only [variantsSteps, h5, bind_ok, hr], ?_⟩
      intro f tf hm
      simp only [List.mem_cons, reduceCtorEq, false_or] at hm
      exact infix_right a (hp f tf hm)
    | anonymousStruct id cs fs =>
      rw [C01.TypeScript.writeVariant_struct] at h1
      obtain ⟨tfs, st3, h5, h6⟩ := bindPair h1
      simp only [Outcome.ok.injEq, Prod.mk.injEq] at h6
      obtain ⟨rfl, rfl⟩ := h6
      refine ⟨fieldSteps fs tfs ++ rest, by simp only [variantsSteps, h5, bind_ok, hr], ?_⟩
      exact Printed.append (Printed.wrap _ (s%"}}") (printed_fields fs tfs)) hp

theorem writeItem_steps (U : UnicodeOps) (cfg : Cfg) (it : RustItem) (st st' : CustomMap) (txt : Str)
    (h : writeItem U cfg it st = .ok (txt, st')) :
    ∃ steps, itemSteps cfg it st = .ok (steps, st') ∧ Printed steps txt := by
  cases it with
  | struct s =>
    simp only [writeItem] at h
    obtain ⟨tfs, h1, rfl⟩ := C01.TypeScript.writeStruct_fields cfg s st st' txt h
    refine ⟨fieldSteps s.fields tfs, by simp only [itemSteps, h1, bind_ok], ?_⟩
    exact Printed.wrap _ (s%"}\n\n") (printed_fields s.fields tfs)
  | «enum» e =>
    simp only [writeItem, writeEnum] at h
    cases hk : e.keys with
    | none =>
      rw [hk] at h
      simp only [Outcome.ok.injEq, Prod.mk.injEq] at h
      obtain ⟨_, rfl⟩ := h
      exact ⟨[], by simp only [itemSteps, hk], Printed.nil _⟩
    | some kc =>
      obtain ⟨tag, content⟩ := kc
      rw [hk] at h
      simp only at h
      obtain ⟨body, st1, hb, h⟩ := bindPair h
      simp only [Outcome.ok.injEq, Prod.mk.injEq] at h
      obtain ⟨rfl, rfl⟩ := h
      obtain ⟨steps, hs, hp⟩ := writeVariants_steps cfg e tag content e.variants st st1 body hb
      exact ⟨steps, by simp only [itemSteps, hk]; exact hs, Printed.wrap _ (s%";\n\n") hp⟩
  | alias a =>
    simp only [writeItem, writeAlias] at h
    obtain ⟨ty, st1, h1, h⟩ := bindPair h
    simp only [Outcome.ok.injEq, Prod.mk.injEq] at h
    obtain ⟨_, rfl⟩ := h
    refine ⟨[Step.ty a.ty], by simp only [itemSteps, h1, bind_ok], ?_⟩
    intro f tf hm; simp at hm
  | const c =>
    simp only [writeItem, writeConst] at h
    obtain ⟨ty, st1, h1, h⟩ := bindPair h
    simp only [Outcome.ok.injEq, Prod.mk.injEq] at h
    obtain ⟨_, rfl⟩ := h
    refine ⟨[Step.ty c.ty], by simp only [itemSteps, h1, bind_ok], ?_⟩
    intro f tf hm; simp at hm

theorem writeItems_steps (U : UnicodeOps) (cfg : Cfg) : ∀ (its : List RustItem) (st st' : CustomMap) (txt : Str),
    writeItems U cfg its st = .ok (txt, st') →
    ∃ steps, itemsSteps cfg its st = .ok (steps, st') ∧ Printed steps txt
  | [], st, st', txt, h => by
    simp only [writeItems, Outcome.ok.injEq, Prod.mk.injEq] at h
    obtain ⟨rfl, rfl⟩ := h
    exact ⟨[], rfl, Printed.nil _⟩
  | it :: its, st, st', txt, h => by
    simp only [writeItems] at h
    obtain ⟨a, st1, h1, h⟩ := bindPair h
    obtain ⟨b, st2, h2, h⟩ := bindPair h
    simp only [Outcome.ok.injEq, Prod.mk.injEq] at h
    obtain ⟨rfl, rfl⟩ := h
    obtain ⟨sa, hsa, hpa⟩ := writeItem_steps U cfg it st st1 a h1
    obtain ⟨sb, hsb, hpb⟩ := writeItems_steps U cfg its st1 st2 b h2
    exact ⟨sa ++ sb, by simp only [itemsSteps, hsa, bind_ok, hsb], Printed.append hpa hpb⟩

/-! ## what a field step says -/

/-- the field steps of `itemsSteps` are produced by `fieldFacts`: the property carries the field's
wire name, and its printed type is the one the state was updated for -/
def StepOk (cfg : Cfg) : Step → Prop
  | .ty _ => True
  | .field f tf => tf.name = propertyName f.id.renamed ∧ ∃ gens st st', fieldFacts cfg gens f st = .ok (tf, st')

theorem fieldsFacts_stepOk (cfg : Cfg) (gens : List Str) : ∀ (fs : List RustField) (st st' : CustomMap)
    (tfs : List TsField), C01.TypeScript.fieldsFacts cfg gens fs st = .ok (tfs, st') →
    ∀ s ∈ fieldSteps fs tfs, StepOk cfg s
  | [], st, st', tfs, h => by
    simp only [C01.TypeScript.fieldsFacts, Outcome.ok.injEq, Prod.mk.injEq] at h
    obtain ⟨rfl, _⟩ := h
    intro s hs; simp [fieldSteps] at hs
  | f :: fs, st, st', tfs, h => by
    simp only [C01.TypeScript.fieldsFacts] at h
    obtain ⟨tf, st1, h1, h⟩ := bindPair h
    obtain ⟨rest, st2, h2, h⟩ := bindPair h
    simp only [Outcome.ok.injEq, Prod.mk.injEq] at h
    obtain ⟨rfl, rfl⟩ := h
    intro s hs
    have : fieldSteps (f :: fs) (tf :: rest) = Step.field f tf :: fieldSteps fs rest := by simp [fieldSteps]
    rw [this] at hs
    rcases List.mem_cons.1 hs with rfl | hs
    · exact ⟨C01.TypeScript.fieldFacts_name cfg gens f st st1 tf h1, gens, st, st1, h1⟩
    · exact fieldsFacts_stepOk cfg gens fs st1 st2 rest h2 s hs

theorem variantsSteps_stepOk (cfg : Cfg) (e : RustEnum) : ∀ (vs : List RustEnumVariant) (st st' : CustomMap)
    (steps : List Step), variantsSteps cfg e vs st = .ok (steps, st') → ∀ s ∈ steps, StepOk cfg s
  | [], st, st', steps, h => by
    simp only [variantsSteps, Outcome.ok.injEq, Prod.mk.injEq] at h
    obtain ⟨rfl, _⟩ := h
    intro s hs; simp at hs
  | .unit _ _ :: vs, st, st', steps, h => by
    simp only [variantsSteps] at h
    exact variantsSteps_stepOk cfg e vs st st' steps h
  | .tuple _ _ ty :: vs, st, st', steps, h => by
    simp only [variantsSteps] at h
    obtain ⟨s1, st1, h1, h⟩ := bindPair h
    obtain ⟨rest, st2, h2, h⟩ := bindPair h
    simp only [Outcome.ok.injEq, Prod.mk.injEq] at h
    obtain ⟨rfl, rfl⟩ := h
    intro s hs
    rcases List.mem_cons.1 hs with rfl | hs
    · trivial
    · exact variantsSteps_stepOk cfg e vs st1 st2 rest h2 s hs
  | .anonymousStruct _ _ fs :: vs, st, st', steps, h => by
    simp only [variantsSteps] at h
    obtain ⟨tfs, st1, h1, h⟩ := bindPair h
    obtain ⟨rest, st2, h2, h⟩ := bindPair h
    simp only [Outcome.ok.injEq, Prod.mk.injEq] at h
    obtain ⟨rfl, rfl⟩ := h
    intro s hs
    rcases List.mem_append.1 hs with hs | hs
    · exact fieldsFacts_stepOk cfg e.genericTypes fs st st1 tfs h1 s hs
    · exact variantsSteps_stepOk cfg e vs st1 st2 rest h2 s hs

theorem itemSteps_stepOk (cfg : Cfg) (it : RustItem) (st st' : CustomMap) (steps : List Step)
    (h : itemSteps cfg it st = .ok (steps, st')) : ∀ s ∈ steps, StepOk cfg s := by
  cases it with
  | struct s =>
    simp only [itemSteps] at h
    obtain ⟨tfs, st1, h1, h⟩ := bindPair h
    simp only [Outcome.ok.injEq, Prod.mk.injEq] at h
    obtain ⟨rfl, rfl⟩ := h
    exact fieldsFacts_stepOk cfg s.genericTypes s.fields st st1 tfs h1
  | «enum» e =>
    simp only [itemSteps] at h
    split at h
    · simp only [Outcome.ok.injEq, Prod.mk.injEq] at h
      obtain ⟨rfl, _⟩ := h
      intro s hs; simp at hs
    · exact variantsSteps_stepOk cfg e e.variants st st' steps h
  | alias a =>
    simp only [itemSteps] at h
    obtain ⟨s1, st1, h1, h⟩ := bindPair h
    simp only [Outcome.ok.injEq, Prod.mk.injEq] at h
    obtain ⟨rfl, _⟩ := h
    intro s hs; simp only [List.mem_singleton] at hs; subst hs; trivial
  | const c =>
    simp only [itemSteps] at h
    obtain ⟨s1, st1, h1, h⟩ := bindPair h
    simp only [Outcome.ok.injEq, Prod.mk.injEq] at h
    obtain ⟨rfl, _⟩ := h
    intro s hs; simp only [List.mem_singleton] at hs; subst hs; trivial

theorem itemsSteps_stepOk (cfg : Cfg) : ∀ (its : List RustItem) (st st' : CustomMap) (steps : List Step),
    itemsSteps cfg its st = .ok (steps, st') → ∀ s ∈ steps, StepOk cfg s
  | [], st, st', steps, h => by
    simp only [itemsSteps, Outcome.ok.injEq, Prod.mk.injEq] at h
    obtain ⟨rfl, _⟩ := h
    intro s hs; simp at hs
  | it :: its, st, st', steps, h => by
    simp only [itemsSteps] at h
    obtain ⟨a, st1, h1, h⟩ := bindPair h
    obtain ⟨b, st2, h2, h⟩ := bindPair h
    simp only [Outcome.ok.injEq, Prod.mk.injEq] at h
    obtain ⟨rfl, rfl⟩ := h
    intro s hs
    rcases List.mem_append.1 hs with hs | hs
    · exact itemSteps_stepOk cfg it st st1 a h1 s hs
    · exact itemsSteps_stepOk cfg its st1 st2 b h2 s hs

/-- an `add` event comes from a field step that printed that type under that wire name -/
theorem add_mem_eventsOf {cfg : Cfg} {steps : List Step} {t k : Str} (h : Ev.add t k ∈ eventsOf cfg steps) :
    ∃ f tf, Step.field f tf ∈ steps ∧ tf.ty = t ∧ f.id.renamed = k ∧ hasCustom t = true := by
  unfold eventsOf at h
  obtain ⟨s, hs, he⟩ := List.mem_flatMap.1 h
  cases s with
  | ty r => simp [stepEvents, resetEvents] at he
  | field f tf =>
    simp only [stepEvents, List.mem_append] at he
    rcases he with he | he
    · split at he
      · simp at he
      · simp [resetEvents] at he
    · split at he
      · rename_i hc
        simp only [List.mem_singleton, Ev.add.injEq] at he
        exact ⟨f, tf, hs, he.1.symm, he.2.symm, he.1 ▸ hc⟩
      · simp at he

/-- a field step whose printed type is custom-translated adds its wire name -/
theorem add_of_field {cfg : Cfg} {steps : List Step} {f : RustField} {tf : TsField}
    (h : Step.field f tf ∈ steps) (hc : hasCustom tf.ty = true) : Ev.add tf.ty f.id.renamed ∈ eventsOf cfg steps := by
  unfold eventsOf
  refine List.mem_flatMap.2 ⟨_, h, ?_⟩
  simp [stepEvents, hc]

/-- a reset event comes from a special type that the configuration maps to a custom-translated type -/
theorem reset_mem_eventsOf {cfg : Cfg} {steps : List Step} {t : Str} (h : Ev.reset t ∈ eventsOf cfg steps) :
    ∃ r, (Step.ty r ∈ steps ∨ ∃ f tf, Step.field f tf ∈ steps ∧ f.ty = r ∧ typeOverride f .typescript = none) ∧
      t ∈ resetsOf cfg r := by
  unfold eventsOf at h
  obtain ⟨s, hs, he⟩ := List.mem_flatMap.1 h
  cases s with
  | ty r =>
    simp only [stepEvents, resetEvents, List.mem_map, Ev.reset.injEq] at he
    obtain ⟨m, hm, rfl⟩ := he
    exact ⟨r, Or.inl hs, hm⟩
  | field f tf =>
    simp only [stepEvents, List.mem_append] at he
    rcases he with he | he
    · cases ho : typeOverride f .typescript with
      | some x => rw [ho] at he; simp at he
      | none =>
        rw [ho] at he
        simp only [resetEvents, List.mem_map, Ev.reset.injEq] at he
        obtain ⟨m, hm, rfl⟩ := he
        exact ⟨f.ty, Or.inr ⟨f, tf, hs, rfl, ho⟩, hm⟩
    · split at he <;> simp at he

theorem eventsOf_noReset {cfg : Cfg} (H : NoCustomTarget cfg) (steps : List Step) (t : Str) :
    Ev.reset t ∉ eventsOf cfg steps := by
  intro h
  obtain ⟨r, _, hr⟩ := reset_mem_eventsOf h
  rw [resetsOf_nil H r] at hr
  simp at hr

end TsV.C01R
