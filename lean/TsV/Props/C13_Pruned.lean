import TsV.Lemmas.C13_Pruned
import TsV.Props.C13
/-!
# C13, metamorphic form — a member the target list excludes is treated as if it had not been written

`C13P.prune f T` (in `Lemmas/C13_Pruned.lean`, 35 lines, trusted as the *reading* of "not written") deletes
from the abstract file `f`

* an item that carries the `typeshare` annotation (struct, enum, type alias, const) when
  `accept_target_os` of its attributes rejects `T`,
* a variant of a kept annotated enum, a named field of a kept annotated struct or of a struct variant, when
  `accept_target_os` of the member's attributes rejects `T`

(payload fields of tuple structs / tuple variants are not filtered by typeshare and are left alone; modules
and the items nested in function bodies are descended into; an excluded file becomes the empty file).
Skip markers play no role: `prune` is about the target list only.

* `C13_Pruned_full`: `parser::parse` cannot tell `prune f T` from `f` — the same `Option<ParsedData>`, the same
  error entries, the same panic.  **False in folder mode** (`C13_Pruned_not_full`): the visitor walks the
  paths *inside* an excluded member although it does not parse it (`syn::visit::visit_item_struct` runs
  after the `if`), so a path like `other::Foo` in an excluded struct is still recorded as an import, and
  survives `reconcile_referenced_types` when a kept item mentions `Foo`.
* `C13_Pruned` (single-file mode, `-o`): outright equality.
* `C13_Pruned_folder` (every mode): equality of everything except `importTypes` — items, members, error
  entries, type names, crate / file name, the decision to return `None`, panics.
* `C13_Pruned_text`: the same when the pruned *text* no longer contains `#[typeshare` (the marker of the
  pruned file is then `false`): nothing annotated survived, and both answers are `None`.
* corollaries: `prune_idempotent`, `prune_no_targets`, `excluded_field_irrelevant`,
  `excluded_variant_field_irrelevant`, `excluded_variant_irrelevant` (an excluded member may carry
  `serde(flatten)`, an unsupported type, several payloads …: the enclosing item parses as without it).
-/
namespace TsV.C13_Pruned
open TsV TsV.Syn TsV.Parser TsV.Visitor TsV.C13P

/-- the answer of `parser::parse` with the raw import set blanked -/
def forgetR : Outcome (Option ParsedData) → Outcome (Option ParsedData)
  | .ok r => .ok (r.map forget)
  | .err e => .err e
  | .panic s => .panic s

/-- **the metamorphic rule at full strength**: in every mode `parser::parse` answers the same for the
program and for the program with the excluded members deleted -/
def C13_Pruned_full : Prop :=
  ∀ (E : Ext) (ctx : ParseContext) (pick : List ImportedType → Option ImportedType) (cn fn fp : Str) (f : File),
    parseFile E ctx pick cn fn fp (prune f ctx.targetOs) = parseFile E ctx pick cn fn fp f

/-! ## the visitor's result -/

theorem visitFile_prune (E : Ext) (ctx : ParseContext) (cn fn fp : Str) (f : File)
    (hk : keep ctx.targetOs f.attrs = true) :
    AgreeO ctx (visitFile E ctx cn fn fp f) (visitFile E ctx cn fn fp (prune f ctx.targetOs)) := by
  have hk' : (TargetOs.accept f.attrs ctx.targetOs).getD true = true := hk
  simp only [visitFile, prune, hk, if_true, hk']
  exact visitItems_prune E ctx fp f.items _ _ (Agree.refl ctx _)

theorem isEmpty_forget (d : ParsedData) : isEmpty (forget d) = isEmpty d := rfl

theorem isEmpty_agree {ctx : ParseContext} {a b : ParsedData} (h : Agree ctx a b) : isEmpty a = isEmpty b := by
  rw [← isEmpty_forget a, ← isEmpty_forget b, h.1]

theorem multiFile_agree {ctx : ParseContext} {a b : ParsedData} (h : Agree ctx a b) : a.multiFile = b.multiFile := by
  show (forget a).multiFile = (forget b).multiFile
  rw [h.1]

theorem forget_reconcile (U : UnicodeOps) (pick : List ImportedType → Option ImportedType) (d : ParsedData) :
    forget (reconcileReferencedTypes U pick d) = forget d := rfl

/-- the tail of `parser::parse` after the visitor -/
def finish (E : Ext) (pick : List ImportedType → Option ImportedType) (d : ParsedData) :
    Outcome (Option ParsedData) :=
  if isEmpty d then pure none
  else if d.multiFile then pure (some (reconcileReferencedTypes E.U pick d))
  else pure (some d)

theorem finish_agree (E : Ext) (ctx : ParseContext) (pick : List ImportedType → Option ImportedType)
    (x y : Outcome ParsedData) (h : AgreeO ctx x y) :
    forgetR (x.bind (finish E pick)) = forgetR (y.bind (finish E pick)) ∧
    (ctx.multiFile = false → x.bind (finish E pick) = y.bind (finish E pick)) := by
  cases x <;> cases y <;> simp only [AgreeO] at h <;> try exact h.elim
  · rename_i a b
    refine ⟨?_, fun hf => by rw [h.2 hf]⟩
    simp only [Outcome.bind_ok, finish, isEmpty_agree h, multiFile_agree h]
    split
    · rfl
    · split
      · simp only [forgetR, pure, Option.map_some, forget_reconcile, h.1]
      · simp only [forgetR, pure, Option.map_some, h.1]
  · subst h; exact ⟨rfl, fun _ => rfl⟩
  · subst h; exact ⟨rfl, fun _ => rfl⟩

theorem parseFile_eq (E : Ext) (ctx : ParseContext) (pick : List ImportedType → Option ImportedType)
    (cn fn fp : Str) (f : File) :
    parseFile E ctx pick cn fn fp f =
      if !f.marker then .ok none else (visitFile E ctx cn fn fp f).bind (finish E pick) := rfl

/-- a file the target list excludes yields nothing, like the empty file -/
theorem parseFile_excluded (E : Ext) (ctx : ParseContext) (pick : List ImportedType → Option ImportedType)
    (cn fn fp : Str) (f : File) (hk : keep ctx.targetOs f.attrs = false) :
    parseFile E ctx pick cn fn fp f = .ok none := by
  have hk' : (TargetOs.accept f.attrs ctx.targetOs).getD true = false := hk
  rw [parseFile_eq]
  split
  · rfl
  · simp [visitFile, hk', finish, isEmpty]

theorem prune_marker (f : File) (T : List Str) (hk : keep T f.attrs = true) : (prune f T).marker = f.marker := by
  simp [prune, hk]

theorem parseFile_prune_both (E : Ext) (ctx : ParseContext) (pick : List ImportedType → Option ImportedType)
    (cn fn fp : Str) (f : File) :
    forgetR (parseFile E ctx pick cn fn fp (prune f ctx.targetOs)) = forgetR (parseFile E ctx pick cn fn fp f) ∧
    (ctx.multiFile = false →
      parseFile E ctx pick cn fn fp (prune f ctx.targetOs) = parseFile E ctx pick cn fn fp f) := by
  cases hk : keep ctx.targetOs f.attrs with
  | false =>
    rw [parseFile_excluded E ctx pick cn fn fp f hk]
    have : prune f ctx.targetOs = ⟨[], [], false⟩ := by simp [prune, hk]
    rw [this]
    exact ⟨rfl, fun _ => rfl⟩
  | true =>
    rw [parseFile_eq, parseFile_eq, prune_marker f _ hk]
    split
    · exact ⟨rfl, fun _ => rfl⟩
    · have := finish_agree E ctx pick _ _ (visitFile_prune E ctx cn fn fp f hk)
      exact ⟨this.1.symm, fun hf => (this.2 hf).symm⟩

/-! ## the statements -/

/-- **C13_Pruned (single-file mode).**  With `-o` (one output file, `multi_file = false`) the program
and the program with every excluded member deleted parse to the *same* answer. -/
theorem C13_Pruned (E : Ext) (ctx : ParseContext) (pick : List ImportedType → Option ImportedType)
    (cn fn fp : Str) (f : File) (hsingle : ctx.multiFile = false) :
    parseFile E ctx pick cn fn fp (prune f ctx.targetOs) = parseFile E ctx pick cn fn fp f :=
  (parseFile_prune_both E ctx pick cn fn fp f).2 hsingle

/-- **C13_Pruned (every mode).**  The two answers agree in everything but the raw import set: the same
structs, enums, aliases, consts (with the same members), the same error entries, type names, crate and
file name; `None` for the one iff `None` for the other; the same panic. -/
theorem C13_Pruned_folder (E : Ext) (ctx : ParseContext) (pick : List ImportedType → Option ImportedType)
    (cn fn fp : Str) (f : File) :
    forgetR (parseFile E ctx pick cn fn fp (prune f ctx.targetOs)) = forgetR (parseFile E ctx pick cn fn fp f) :=
  (parseFile_prune_both E ctx pick cn fn fp f).1

/-- field by field, for a file that yields data -/
theorem C13_Pruned_fields (E : Ext) (ctx : ParseContext) (pick : List ImportedType → Option ImportedType)
    (cn fn fp : Str) (f : File) (d : ParsedData) (h : parseFile E ctx pick cn fn fp f = .ok (some d)) :
    ∃ d', parseFile E ctx pick cn fn fp (prune f ctx.targetOs) = .ok (some d') ∧
      d'.structs = d.structs ∧ d'.enums = d.enums ∧ d'.aliases = d.aliases ∧ d'.consts = d.consts ∧
      d'.errors = d.errors ∧ d'.typeNames = d.typeNames ∧ d'.crateName = d.crateName ∧
      d'.fileName = d.fileName ∧ d'.multiFile = d.multiFile := by
  have hf := C13_Pruned_folder E ctx pick cn fn fp f
  rw [h] at hf
  cases hp : parseFile E ctx pick cn fn fp (prune f ctx.targetOs) with
  | ok r =>
    rw [hp] at hf
    cases r with
    | none => simp [forgetR] at hf
    | some d' =>
      simp only [forgetR, Option.map_some, Outcome.ok.injEq, Option.some.injEq] at hf
      refine ⟨d', rfl, ?_⟩
      simp only [forget] at hf
      injection hf with h1 h2 h3 h4 h5 h6 h7 h8 h9 h10
      exact ⟨h1, h2, h3, h4, h7, h6, h8, h9, h10⟩
  | err e => rw [hp] at hf; simp [forgetR] at hf
  | panic s => rw [hp] at hf; simp [forgetR] at hf

/-- a file in which no item carries the annotation yields nothing, whatever its marker says -/
theorem parseFile_noAnnotated (E : Ext) (ctx : ParseContext) (pick : List ImportedType → Option ImportedType)
    (cn fn fp : Str) (g : File) (h : noAnnotatedList g.items = true) :
    parseFile E ctx pick cn fn fp g = .ok none := by
  rw [parseFile_eq]
  split
  · rfl
  · simp only [visitFile]
    split
    · have hb : Blank (addPaths E ctx { crateName := cn, fileName := fn, multiFile := ctx.multiFile }
          (attrPaths g.attrs)) := blank_addPaths E ctx _ _ rfl
      obtain ⟨d', hd, hb'⟩ := visitItems_blank E ctx fp g.items _ h hb
      rw [hd]
      have : isEmpty d' = true := hb'
      simp [finish, this]
    · simp [finish, isEmpty]

/-- **the pruned *text*.**  The marker of a file is a fact about its text ("contains `#[typeshare`").  When
the pruned text still contains it, `C13_Pruned_folder` applies as it stands; when it does not, no annotated
item survived, and then both programs yield nothing.  So for *either* value `m` of the pruned file's marker
that the text can have, the answers agree. -/
theorem C13_Pruned_text (E : Ext) (ctx : ParseContext) (pick : List ImportedType → Option ImportedType)
    (cn fn fp : Str) (f : File) (m : Bool)
    (hm : m = (prune f ctx.targetOs).marker ∨ noAnnotatedList (prune f ctx.targetOs).items = true) :
    forgetR (parseFile E ctx pick cn fn fp { prune f ctx.targetOs with marker := m }) =
      forgetR (parseFile E ctx pick cn fn fp f) := by
  rcases hm with rfl | hn
  · exact C13_Pruned_folder E ctx pick cn fn fp f
  · rw [← C13_Pruned_folder E ctx pick cn fn fp f,
      parseFile_noAnnotated E ctx pick cn fn fp _ hn,
      parseFile_noAnnotated E ctx pick cn fn fp { prune f ctx.targetOs with marker := m } hn]

/-! ## corollaries -/

/-- deleting twice deletes nothing more -/
theorem prune_idempotent (f : File) (T : List Str) : prune (prune f T) T = prune f T := by
  cases hk : keep T f.attrs with
  | false =>
    have : prune f T = ⟨[], [], false⟩ := by simp [prune, hk]
    rw [this]
    simp [prune, keep_nil_attrs, pruneItems]
  | true =>
    have : prune f T = { f with items := pruneItems T f.items } := by simp [prune, hk]
    rw [this]
    simp [prune, hk, pruneItems_idem]

/-- without `--target-os` nothing is deleted -/
theorem prune_no_targets (f : File) : prune f [] = f := by
  simp [prune, keep_nil, pruneItems_nil]

/-- what is deleted is exactly what `accept_target_os` rejects (the decision of `TsV.C13.C13`) -/
theorem keep_iff (T : List Str) (attrs : List Attr) :
    keep T attrs = false ↔ TargetOs.accept attrs T = some false := by
  unfold keep
  obtain ⟨b, hb⟩ := Option.isSome_iff_exists.mp (TargetOs.accept_isSome attrs T)
  rw [hb]; cases b <;> simp

/-- **an excluded field can carry anything**: a struct parses as if the field were not there — whatever its
type, `serde(flatten)`, `serialized_as` … -/
theorem excluded_field_irrelevant (E : Ext) (T : List Str) (a : List Attr) (i : Str) (g : List GenericParam)
    (pre post : List Field) (x : Field) (hx : keep T x.attrs = false) :
    parseStruct E T a i g (.named (pre ++ x :: post)) = parseStruct E T a i g (.named (pre ++ post)) := by
  rw [← parseStruct_prune E T a i g (.named (pre ++ x :: post)), ← parseStruct_prune E T a i g (.named (pre ++ post))]
  simp [pruneFields, hx]

/-- the same for a field of a struct variant -/
theorem excluded_variant_field_irrelevant (E : Ext) (T : List Str) (ra : Option Str) (va : List Attr) (vi : Str)
    (pre post : List Field) (x : Field) (hx : keep T x.attrs = false) :
    parseEnumVariant E T ra ⟨va, vi, .named (pre ++ x :: post)⟩ =
      parseEnumVariant E T ra ⟨va, vi, .named (pre ++ post)⟩ := by
  rw [← parseEnumVariant_prune E T ra ⟨va, vi, .named (pre ++ x :: post)⟩,
    ← parseEnumVariant_prune E T ra ⟨va, vi, .named (pre ++ post)⟩]
  simp [pruneVariant, pruneFields, hx]

/-- **an excluded variant can carry anything** (several payloads, unsupported types, flattened fields): the
enum parses as if the variant were not there — including the unit / algebraic decision and the
`tag` / `content` requirements, which are taken on the variants that are left -/
theorem excluded_variant_irrelevant (E : Ext) (T : List Str) (a : List Attr) (i : Str) (g : List GenericParam)
    (pre post : List Variant) (x : Variant) (hx : keep T x.attrs = false) :
    parseEnum E T a i g (pre ++ x :: post) = parseEnum E T a i g (pre ++ post) := by
  rw [← parseEnum_prune E T a i g (pre ++ x :: post), ← parseEnum_prune E T a i g (pre ++ post)]
  simp [pruneVariants, hx]

/-! ## the witness against the full statement (folder mode), kernel-checked -/

def wE : Ext := { U := .ascii, parseType := fun _ => none }
def wCtx : ParseContext := { multiFile := true, targetOs := [s%"android"] }
def tsAttr : Attr := ⟨.path [s%"typeshare"]⟩
def iosAttr : Attr := ⟨.list [s%"cfg"] true [.nameValue [s%"target_os"] (some (.str s%"ios"))]⟩

/-- ```
#[typeshare] #[cfg(target_os = "ios")] pub struct OnlyIos { pub x: other::Foo }
#[typeshare] pub struct Kept { pub y: Foo }
``` -/
def wFile : File :=
  { attrs := [], marker := true,
    items := [.struct [tsAttr, iosAttr] s%"OnlyIos" [] (.named [⟨[], some s%"x", .path [s%"other"] s%"Foo" []⟩]),
              .struct [tsAttr] s%"Kept" [] (.named [⟨[], some s%"y", .path [] s%"Foo" []⟩])] }

/-- the same with `OnlyIos` deleted -/
theorem wFile_pruned : prune wFile wCtx.targetOs =
    { attrs := [], marker := true,
      items := [.struct [tsAttr] s%"Kept" [] (.named [⟨[], some s%"y", .path [] s%"Foo" []⟩])] } := by
  have h1 : keep wCtx.targetOs wFile.attrs = true := by decide +kernel
  have h2 : keep wCtx.targetOs [tsAttr, iosAttr] = false := by decide +kernel
  have h3 : keep wCtx.targetOs [tsAttr] = true := by decide +kernel
  have h4 : hasTypeshareAnnotation [tsAttr, iosAttr] = true := by decide +kernel
  have h5 : hasTypeshareAnnotation [tsAttr] = true := by decide +kernel
  have h6 : keep wCtx.targetOs ([] : List Attr) = true := by decide +kernel
  simp only [prune, h1, if_true]
  simp [wFile, pruneItems, pruneItem, h2, h3, h4, h5, pruneFields, h6]

def importsOf : Outcome (Option ParsedData) → List ImportedType
  | .ok (some d) => d.importTypes
  | _ => []

/-- in folder mode the excluded struct's path `other::Foo` is still an import of the module … -/
theorem witness_original :
    importsOf (parseFile wE wCtx List.head? s%"mine" s%"mine" s%"src/lib.rs" wFile) = [⟨s%"other", s%"Foo"⟩] := by
  decide +kernel

/-- … and it is not when the struct is deleted -/
theorem witness_pruned :
    importsOf (parseFile wE wCtx List.head? s%"mine" s%"mine" s%"src/lib.rs" (prune wFile wCtx.targetOs)) = [] := by
  rw [wFile_pruned]; decide +kernel

/-- **the full statement is false in folder mode.** -/
theorem C13_Pruned_not_full : ¬ C13_Pruned_full := by
  intro h
  have := congrArg importsOf (h wE wCtx List.head? s%"mine" s%"mine" s%"src/lib.rs" wFile)
  rw [witness_original, witness_pruned] at this
  exact absurd this (by decide)

/-! ## non-vacuity -/

def androidNot : Attr :=
  ⟨.list [s%"cfg"] true [.list [s%"not"] true [.nameValue [s%"target_os"] (some (.str s%"android"))]]⟩
def flattenAttr : Attr := ⟨.list [s%"serde"] true [.path [s%"flatten"]]⟩

/-- `#[cfg(not(target_os = "android"))] #[serde(flatten)] pub bad: (u64, usize)` -/
def badField : Field := ⟨[androidNot, flattenAttr], some s%"bad", .tuple [.path [] s%"u64" [], .path [] s%"usize" []]⟩
def goodField : Field := ⟨[], some s%"good", .path [] s%"u8" []⟩

/-- the hypothesis of `excluded_field_irrelevant` for a flattened field of unsupported type … -/
example : keep [s%"android"] badField.attrs = false := by decide +kernel
/-- … with which the struct is generated for android and is an error for ios -/
example : (parseStruct wE [s%"android"] [tsAttr] s%"S" [] (.named [goodField, badField])).isOk = true := by
  decide +kernel
example : (parseStruct wE [s%"ios"] [tsAttr] s%"S" [] (.named [goodField, badField])).isOk = false := by
  decide +kernel

/-- a variant with two payloads, excluded -/
def badVariant : Variant := ⟨[androidNot], s%"Two", .unnamed [⟨[], none, .path [] s%"u8" []⟩, ⟨[], none, .path [] s%"u8" []⟩]⟩
example : keep [s%"android"] badVariant.attrs = false := by decide +kernel
example : (parseEnum wE [s%"android"] [tsAttr] s%"En" [] [⟨[], s%"A", .unit⟩, badVariant]).isOk = true := by
  decide +kernel
example : (parseEnum wE [s%"ios"] [tsAttr] s%"En" [] [⟨[], s%"A", .unit⟩, badVariant]).isOk = false := by
  decide +kernel

/-- `C13_Pruned` on the witness file in single-file mode: both sides are the one struct `Kept`, and the
pruned file really is a different file -/
example : (match parseFile wE { wCtx with multiFile := false } List.head? s%"mine" s%"mine" s%"src/lib.rs" wFile with
    | .ok (some d) => d.structs.map (·.id.original) | _ => []) = [s%"Kept"] := by decide +kernel
example : (prune wFile wCtx.targetOs).items.length = 1 ∧ wFile.items.length = 2 := by
  rw [wFile_pruned]; decide

end TsV.C13_Pruned
