#!/usr/bin/env python3
"""Regenerate MANIFEST.json from the table of claims below."""
import json, os
V = os.path.dirname(os.path.dirname(os.path.abspath(__file__)))
props = [json.loads(l) for l in open(os.path.join(V, 'properties.jsonl'))]
TB = "Trusted: Lean 4.33 kernel + {propext, Classical.choice, Quot.sound} (audited per theorem on every run); the hand-written model; the runner, generators and comparison code. "
claimed = {
 "C18": dict(ref="8/C18",
   text="Lean theorems over Int (acceptance ranges with literal limits, round trips, narrowing, JSON, exact double conversion and its tightness) on a hand-written model of integer.rs; tied to the code by running every constructor/conversion of the real `typeshare` crate and the model on the same boundary-exhaustive and random values.",
   note=TB + "u64/i64 modelled as range-restricted Int, `as` casts as modular reduction, f64 as round-to-nearest-even on 53 bits.",
   tech="Lean 4 proof (omega/decide) + differential correspondence against lib/src/integer.rs"),
 "C13": dict(ref="8/C13",
   text="Theorem C13: the model of accept_target_os (a fuel-driven stack machine mirroring TargetOsIterator) decides exactly the documented rule (names under / outside not(...)) for every attribute list and target list, with fuel sufficiency proved; tied to the code by exhaustive enumeration of cfg expressions (depth<=2, all target lists) and random deep/malformed ones through the verif-hooks wrapper of the real function.",
   note=TB + "syn parses rendered attribute text into the Meta tree the generator built. Attachment levels (file/item/variant/field) are covered once the parser model is in place (see C03/C08).",
   tech="Lean 4 proof (induction over the stack machine, List.Perm) + exhaustive small-scope correspondence"),
 "C16": dict(ref="8/C16",
   text="Full statement C16_full is disproved by a kernel-checked witness (URL/camelCase); C16_field and C16_variant prove agreement with the ported serde_derive case.rs for all eight rules on conventional field names [a-z0-9_]* and UpperCamelCase variants, parametric in Unicode case mapping; unknown rule = identity. Both sides are tied to code: typeshare's rename_all_to_case (hook) vs model and the vendored serde_derive case.rs vs Serde model, exhaustively over class representatives (length<=5 quick, <=7 thorough) x 8 rules x 2 positions.",
   note=TB + "Unicode case mapping is a parameter (table computed by Rust std per run). Divergences outside conventional names are recorded as 4 open known findings with replayed witnesses.",
   tech="Lean 4 proof (structural induction on strings, case analysis on chars) + exhaustive correspondence on both implementation and specification"),
 "C11": dict(ref="8/C11",
   text="Proved on the model of topsort.rs: toposort_impl terminates without index panic on every in-range graph (fuel sufficiency, pigeonhole on the DFS stack), its result is a permutation of the nodes for all graphs incl. cycles, and sort_by_indices only permutes. Partial: the topological-order theorem for acyclic graphs and the exact gather semantics of sort_by_indices are not proved yet (checked only by the exhaustive correspondence oracle); dependency extraction (get_dependencies) is not modelled yet.",
   note=TB + "toposort_impl / sort_by_indices reached through verif-hooks wrappers; exhaustive over digraphs with <=3 (quick) / <=4 (thorough) nodes and permutations of <=5/6 elements.",
   tech="Lean 4 proof (functional induction, invariants) + exhaustive small-scope correspondence"),
 "C08": dict(ref="8/C08",
   text="Theorems on the parser model: the recursive type parser rejects a 64-bit integer or non-empty tuple at any nesting depth (induction over the type tree, incl. references, arrays, slices, generic arguments), lifted through struct fields, newtypes, variant payloads, struct-variant fields, aliases, consts and serialized_as strings for every non-skipped position; flatten, several unnamed fields, missing/extra tag+content and non-literal consts are rejected; a skipped member is never looked at; a rejected item becomes exactly one error entry. Tied to the code by planting one unsupported construct at a random position of generated valid programs (with and without skip) through parser::parse, and by the real CLI (non-zero exit, file named, pre-existing output byte- and mtime-identical). Two former violations (flatten on variant fields, const = first literal in the expression) were repaired by fix: commits and are kept as kernel-checked regressions.",
   note=TB + "syn is inside the compared path on the implementation side (source text is rendered from the abstract AST); serialized_as parsing by syn is an external parameter with a per-case table. The 'no output written' clause rests on the CLI runs (the writer model is C17's).",
   tech="Lean 4 proof (mutual structural induction, Outcome monad lemmas) + planted-construct correspondence + CLI runs"),
 "C03": dict(ref="8/C03",
   text="Theorems on the visitor/parser model: (i) in single-file mode visiting a file equals folding collect_result over its annotated, target-os-accepted items in pre-order (modules and fn bodies included); the number of parsed items plus error entries grows by exactly the number of annotated items (none dropped, none invented, an ungeneratable item is an error entry); (ii) the fields of a parsed struct, the variants of a parsed enum and the fields of a struct variant are exactly the non-skipped source members in source order, with isSkipped characterised as 'bare skip path inside serde(..)/typeshare(..) in any position, or rejected by --target-os'. Tied by L1 correspondence on files mixing annotated/un-annotated items at depth with skip markers in all spellings, an independent python oracle on the implementation's ParsedData, and CLI runs per language. Partial: the emission clause per back end currently rests on the byte-exact back-end correspondence (TypeScript modelled; others in progress).",
   note=TB + "One open known finding: the `#[typeshare` substring pre-filter skips files whose annotations are spelled `# [typeshare]`.",
   tech="Lean 4 proof (mutual induction over the item tree, mapM lemmas) + L1 differential correspondence with an independent oracle"),
 "C07": dict(ref="8/C07",
   text="Partial. Proved: every model function is total; parser::parse (type parser, attribute readers, rename_all, target-os stack walk with fuel sufficiency, use-tree walk, item parsers, visitor) never returns a panic outcome, in single- and multi-file mode; toposort terminates without index panics. Six former parser panic sites were repaired by fix: commits and are kept as kernel-checked regressions. Tied by an edge-construct stream through parser::parse, through in-process generation for all six back ends and through the real binary (exit status in {0,1}, no `panicked at`, 30 s time-out, unparsable / non-UTF-8 files). Not carried by the model: hang-vs-abort of the ignore/crossbeam thread pool after a worker panic (observed only); back-end panic freedom (4 open known findings: Kotlin/Swift const todo!(), Scala empty package, Go non-ASCII enum name).",
   note=TB + "Runtime behaviour of threads is outside the model; see DESIGN.md section 11.",
   tech="Lean 4 proof (compositional no-panic lemmas over the Outcome monad, fuel sufficiency) + edge-stream correspondence + process-level runs"),
 "C06": dict(ref="8/C06",
   text="Theorem C06_arrival_order: for the per-file results of one crate (all of single-file mode) with unique type and const names, every permutation of the arrival order at the collector yields the same reconciled, stably sorted structs/enums/aliases/consts, crate key and file name - everything generate_types reads (collector fold characterised, rename table shown order-insensitive under unique names, stable sort on distinct keys erases arrival order); hash iteration order enters the model only through explicit parameters that are never consulted when import_types is empty. Tied by running the real binary under every arrival order (collector hook) for <=4/5 files, sampled orders beyond, walker thread counts 1-16 and repeated processes, comparing all outputs byte-for-byte with each other and with the text the Lean pipeline + back-end models generate. The former violation (consts never sorted) was repaired by a fix: commit. Partial: the multi-crate statement (per-crate grouping by the BTreeMap) is covered by the correspondence but not yet by a theorem; ambiguous imports (same name from two crates) depend on the hash seed and are flagged, not compared.",
   note=TB + "A schedule is abstracted to an arrival order plus hash iteration orders; real races inside ignore/crossbeam are realised only through the hook and repeated runs.",
   tech="Lean 4 proof (List.Perm, stable merge sort on distinct keys) + process-level permutation runs with the collector hook"),
 "C17": dict(ref="8/C17",
   text="Theorems on the writer model (finite map path -> (bytes, mtime)): re-running with the same outputs leaves contents and modification times untouched and writes nothing (rerun_unchanged); after a run every file it is responsible for holds exactly this run's bytes whatever the file system held before (run_content), lifted over arbitrary histories (history_content: equal to a run into an empty location); the skip-when-empty hole is exhibited as a kernel-checked example. Tied by histories of 2-4 (quick) / 2-6 (thorough) runs of the real binary over changing workspaces, single- and multi-file, six languages, comparing bytes and ns-mtimes after every run with the model fed by a fresh-directory reference run. The former violation (Codable.swift rewritten every run) was repaired by a fix: commit.",
   note=TB + "The file system is a finite map with a clock; generated bytes are taken from the reference run of the same binary (that they are a function of the inputs is C06).",
   tech="Lean 4 proof (invariants over run histories) + process-level history replay"),
 "C20": dict(ref="8/C20",
   text="Theorems on the configuration model: for each of the seven settings that exist both as an option and in typeshare.toml the effective value is option, else file, else default (precedence); the file-only settings are passed through unchanged (the model is parametric in them); target_os comes from the command line only; the only failure is Go without a package; -g never overwrites; what -g stores reloads to the same effective settings for every later command line (given TOML round-trips). Tied by the full 2x2 matrix per setting through the real binary (config found by -c and by ancestor search), observed in generated code and in the TOML written by -g, random file-only tables observed in generated code, overwrite refusal and reload equality.",
   note=TB + "clap option parsing and the toml crate are external and exercised through the binary; kotlin/scala module_name are dead settings (observed only in the emitted TOML).",
   tech="Lean 4 proof (case analysis on the override function) + exhaustive option/key matrix through the binary"),
 "C19": dict(ref="8/C19",
   text="Partial. Proved on the model of the attribute macro: the expansion of a struct/enum/union is the item with exactly the attributes whose path is `typeshare` removed from variants, variant fields, struct fields and union fields - other attributes kept in order (sub-list theorem, interleaving theorem), item-level attributes, heads, field/variant bodies, their number and order untouched, idempotent, identity on items without helper attributes and on every non-DeriveInput item. Tied by expanding hundreds of generated items with the real macro inside rustc and capturing the token stream rustc hands on (a second attribute macro, harness/attrdump), compared with the model's expansion modulo white-space. Not proved: that rustc / serde derive behave identically on syntactically identical token streams (trusted).",
   note=TB + "rustc and the proc-macro bridge are external; cfg/cfg_attr on the item itself are evaluated by rustc before the macro runs and are kept out of the item position of the generator.",
   tech="Lean 4 proof (list filter/sublist/permutation lemmas) + in-rustc expansion capture"),
}
checks = []
for pid, c in claimed.items():
    checks.append(dict(property_id=pid, quick_cmd="./check %s --tier quick" % pid,
                       thorough_cmd="./check %s --tier thorough" % pid, evidence_file="evidence/%s.json" % pid,
                       replay_cmd_template="./check %s --replay {path}" % pid, engine="lean-proof+correspondence",
                       level_claimed=dict(category="proof", text=c["text"], design_ref=c["ref"]),
                       level_note=c["note"], technique=c["tech"]))
na = [dict(property_id=p["id"], reason="not yet claimed: the model and proofs for this property are still under construction (DESIGN.md section 12 staging); the technique applies")
      for p in props if p["id"] not in claimed]
m = dict(version=1, setup_cmd="./setup.sh",
         hooks=dict(guard="cargo feature verif-hooks (typeshare-core, typeshare-cli)",
                    enable="runner depends on typeshare-core with features=[verif-hooks]; CLI built with --features go,python,verif-hooks",
                    baseline_off_cmd="cd /repo && cargo nextest run --workspace --no-fail-fast --offline",
                    source_commits=["d4afac6"], add_only=True),
         engines=[dict(name="lean-proof+correspondence", path="lean/ tools/ harness/runner/ check",
                       serves_properties=list(claimed),
                       kind_free_text="Lean 4 theorems about a hand-written executable model; the compiled model driver (tsmodel) and a Rust runner linked against /repo are run on the same inputs and compared")],
         checks=checks, not_applicable=na, notes="see DESIGN.md")
json.dump(m, open(os.path.join(V, 'MANIFEST.json'), 'w'), indent=1)
print("claimed:", sorted(claimed))
