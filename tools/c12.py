"""C12 — every helper name typeshare introduces into a file is defined or imported there.

Exhaustive over trigger x position x depth: one trigger type (`()`, u8/u16/u32/U53, OffsetDateTime, a generic
parameter, a mapped `Vec<u8>`, ...) under every chain of wrappers (Vec, Option, HashMap value, HashMap key, array,
slice, generic argument, Box) up to the tier's depth, at every position (struct field, defaulted field, tuple payload,
alias target, struct-variant field, defaulted struct-variant field), alone and in pairs, six languages, single- and
multi-file.  Model and implementation are compared byte for byte (`l2.requests`); the oracle is the property
evaluated on the IMPLEMENTATION's text: the helper names a file uses vs the ones it defines or imports.

`mapped_builtin_part`: the same programs under configurations whose `type_mappings` keys are built-in / special Rust types
(primitives, `()`, `OffsetDateTime`, containers spelled the way the type prints, user types), alone and in tables shared by
all six languages, the trigger type occurring only in a mapped spelling / only elsewhere / in both.
"""
import ast, builtins, itertools, multiprocessing, random, re
from common import *
from syn_gen import *
from gen import Gen
import l2

NEEDS = ("runner",)
TRUSTED = [
    "binding semantics (Lean): C12L.Swift.unitIn / fieldUnit / itemUnit, C12L.Scala.unsignedIn / formatted / definesUnsigned, "
    "C12L.Go.timeIn / usesJson, C12L.TypeScript.fieldNeeds / clauseFor, C12L.Kotlin.declUses / provided, "
    "C12L.Python.typeNeeds / fieldSafe / structSafe / enumSafe / itemSafe / fnsNeeds / Provides "
    "(which helper names a rendered declaration mentions, and what the header / footer of a file defines)",
    "the python extractors of tools/c12.py (one per language: names used vs defined/imported in the generated text; "
    "Python through CPython's ast with a module/function scope analysis)",
]

# ----------------------------------------------------------------------------- the input space

WRAPPERS = ["Vec", "Option", "Map", "MapKey", "Array", "Slice", "Wrap", "Box"]
LEAVES = ["()", "u8", "u16", "u32", "U53", "OffsetDateTime", "T", "Vec<u8>", "String"]
PY_ONLY_LEAVES = ["Stamp"]           # a simple type the Python configuration maps to `datetime`
POSITIONS = ["field", "field_default", "payload", "alias", "variant_field", "variant_field_default", "field_foreign",
             "variant_field_foreign"]
UNSIGNED = {"u8", "u16", "u32", "U53"}

CFG = {
    "typescript": {"type_mappings": {"Vec<u8>": "Uint8Array"}},
    "kotlin": {"package": "com.example"},
    "swift": {},
    "scala": {"package": "com.example"},
    "go": {"package": "proto", "type_mappings": {"Vec<u8>": "[]byte"}},
    "python": {"type_mappings": {"Vec<u8>": "bytes", "Stamp": "datetime"}},
}


def leaf_syn(leaf):
    if leaf == "()":
        return ("tuple", [])
    if leaf == "Vec<u8>":
        return t_path("Vec", [t_path("u8")])
    return t_path(leaf)


def leaf_tree(leaf):
    """the RustType the parser makes of the leaf"""
    if leaf == "()":
        return ("prim", "()")
    if leaf == "Vec<u8>":
        return ("vec", ("prim", "u8"))
    if leaf in ("T", "Stamp"):
        return ("simple", leaf)
    return ("prim", leaf)


def wrap_syn(w, t):
    if w == "Vec":
        return t_path("Vec", [t])
    if w == "Option":
        return t_path("Option", [t])
    if w == "Map":
        return t_path("HashMap", [t_path("String"), t])
    if w == "MapKey":
        return t_path("HashMap", [t, t_path("String")])
    if w == "Array":
        return ("array", t, 2)
    if w == "Slice":
        return ("ref", ("slice", t), False)
    if w == "Wrap":
        return t_path("Wrap", [t])
    if w == "Box":
        return t_path("Box", [t])
    raise ValueError(w)


def wrap_tree(w, t):
    return {"Vec": ("vec", t), "Option": ("option", t), "Map": ("map", ("prim", "String"), t),
            "MapKey": ("map", t, ("prim", "String")), "Array": ("array", t),
            "Slice": ("slice", t), "Wrap": ("generic", "Wrap", [t]), "Box": t}[w]


def build(chain, leaf):
    s, t = leaf_syn(leaf), leaf_tree(leaf)
    for w in reversed(chain):
        s, t = wrap_syn(w, s), wrap_tree(w, t)
    return s, t


def type_id(t):
    """`RustType::id` / `SpecialRustType::id`"""
    if t[0] in ("prim", "simple", "generic"):
        return t[1]
    return {"vec": "Vec", "option": "Option", "map": "HashMap", "array": "[]", "slice": "&[]"}[t[0]]


def display(t):
    """`impl Display for RustType / SpecialRustType`: the string a special type is looked up by in `type_mappings`"""
    k = t[0]
    if k in ("prim", "simple"):
        return t[1]
    if k == "generic":
        return t[1] + ("<%s>" % ", ".join(display(x) for x in t[2]) if t[2] else "")
    if k == "vec":
        return "Vec<%s>" % display(t[1])
    if k == "array":
        return "[%s]" % display(t[1])
    if k == "slice":
        return "&[%s]" % display(t[1])
    if k == "map":
        return "HashMap<%s,%s>" % (display(t[1]), display(t[2]))
    if k == "option":
        return "Option<%s>" % type_id(t[1])
    raise ValueError(t)


def mapping_key(t):
    """the `type_mappings` key that addresses the node: a generic type is looked up by its name, everything else by its spelling"""
    return t[1] if t[0] == "generic" else display(t)


def spine(chain, leaf):
    """the nodes of an entry's type tree that contain its trigger, outermost first (`Box<X>` is `X`)"""
    out = [build(chain[i:], leaf)[1] for i in range(len(chain) + 1) if i == len(chain) or chain[i] != "Box"]
    if leaf == "Vec<u8>":
        out.append(("prim", "u8"))
    return out


TS_ATTR = m_path("typeshare")
TAG_ATTR = m_list("serde", [m_nv("tag", lit_s("type")), m_nv("content", lit_s("content"))])
DEFAULT_ATTR = m_list("serde", [m_path("default")])


def foreign_override(lang):
    """a per-field type override addressed to a back end other than the one that is generating: it must change nothing"""
    other = "swift" if lang == "kotlin" else "kotlin"
    return m_list("typeshare", [m_list(other, [m_nv("type", lit_s("Ov"))])])


def make_items(entries, tag="", lang=None):
    """entries: list of (position, chain, leaf).  Fields of the same kind share one struct / one enum variant.
    Returns (items, description) where the description lists what the parser will see."""
    gens = ["T"] if any(leaf == "T" for _, _, leaf in entries) else []
    g = [("ty", x) for x in gens]
    items, desc = [], {"generic_items": [], "fields": [], "aliases": [], "payloads": [], "wrap": False}
    sfields, vfields, payloads, aliases = [], [], [], []
    for n, (pos, chain, leaf) in enumerate(entries):
        syn, tree = build(chain, leaf)
        if "Wrap" in chain:
            desc["wrap"] = True
        if pos.endswith("_foreign"):
            # same as the plain position, the field only carries an override for another language
            pos = pos[:-len("_foreign")]
            fa = [foreign_override(lang)]
            if pos == "field":
                sfields.append(field(fa, "f%d" % n, syn))
            else:
                vfields.append(field(fa, "f%d" % n, syn))
            desc["fields"].append((tree, False, gens))
            continue
        if pos in ("field", "field_default"):
            sfields.append(field([DEFAULT_ATTR] if pos.endswith("default") else [], "f%d" % n, syn))
            desc["fields"].append((tree, pos.endswith("default"), gens))
        elif pos in ("variant_field", "variant_field_default"):
            vfields.append(field([DEFAULT_ATTR] if pos.endswith("default") else [], "f%d" % n, syn))
            desc["fields"].append((tree, pos.endswith("default"), gens))
        elif pos == "payload":
            payloads.append((syn, tree))
            desc["payloads"].append(tree)
        elif pos == "alias":
            aliases.append((syn, tree))
            desc["aliases"].append((tree, gens))
    for i, (syn, tree) in enumerate(aliases):
        items.append({"kind": "alias", "attrs": [TS_ATTR], "ident": "Al%s%d" % (tag, i), "generics": g, "ty": syn})
    if sfields:
        items.append({"kind": "struct", "attrs": [TS_ATTR], "ident": "St" + tag, "generics": g, "fields": ("named", sfields)})
        if gens:
            desc["generic_items"].append("struct")
    if vfields or payloads:
        variants = []
        if vfields:
            variants.append({"attrs": [], "ident": "Sv", "fields": ("named", vfields)})
        for i, (syn, tree) in enumerate(payloads):
            variants.append({"attrs": [], "ident": "Tv%d" % i, "fields": ("unnamed", [field([], None, syn)])})
        variants.append({"attrs": [], "ident": "Un", "fields": ("unit",)})
        items.append({"kind": "enum", "attrs": [TS_ATTR, TAG_ATTR], "ident": "En" + tag, "generics": g, "variants": variants})
        if gens:
            desc["generic_items"].append("enum")
    if desc["wrap"]:
        items.append({"kind": "struct", "attrs": [TS_ATTR], "ident": "Wrap", "generics": [("ty", "T")],
                      "fields": ("named", [field([], "inner", t_path("T"))])})
        desc["generic_items"].append("struct")
    return items, desc


NEUTRAL = {"attrs": [], "items": [{"kind": "struct", "attrs": [TS_ATTR], "ident": "Plain", "generics": [],
                                   "fields": ("named", [field([], "name", t_path("String"))])}]}


# a second crate that needs helpers of its own (an unsigned integer, the unit type, a generic parameter): each module of a folder run
# must define / import what *it* uses, whatever an earlier module of the run already wrote
NEEDY = {"attrs": [], "items": [{"kind": "struct", "attrs": [TS_ATTR], "ident": "Needy", "generics": [("ty", "T")],
                                 "fields": ("named", [field([], "count", t_path("u32")), field([], "small", t_path("Vec", [t_path("u16")])),
                                                      field([], "nothing", ("tuple", [])), field([], "t", t_path("T"))])}]}


def make_case(entries, lang, multi, trigger_first=True, cfg=None, needy=False):
    items, desc = make_items(entries, lang=lang)
    f = {"attrs": [], "items": items}
    cfg = dict(CFG[lang] if cfg is None else cfg)
    if not multi:
        files = [{"crate": "", "file_name": "out", "path": "src/lib.rs", "file": f}]
        trig = ""
    else:
        a, b = ("alpha", "beta") if trigger_first else ("beta", "alpha")
        files = [{"crate": a, "file_name": a + ".out", "path": a + "/src/lib.rs", "file": f},
                 {"crate": b, "file_name": b + ".out", "path": b + "/src/lib.rs", "file": NEEDY if needy else NEUTRAL}]
        trig = a
    return dict(entries=entries, lang=lang, multi=multi, files=files, desc=desc, cfg=cfg, trigger_crate=trig,
                trigger_first=trigger_first, needy=needy)


# ----------------------------------------------------------------------------- the oracle (implementation text)

SWIFT_DEF = re.compile(r"public struct CodableVoid\b")
SCALA_NAMES = ["UByte", "UShort", "UInt", "ULong"]
PY_BUILTINS = set(dir(builtins))


def strip_line_comments(text, marker):
    return "\n".join(l for l in text.split("\n") if not l.lstrip().startswith(marker))


def oracle_swift(text, outputs):
    body = strip_line_comments(text, "///")
    uses = [m for m in re.finditer(r"\bCodableVoid\b", body)
            if not body[max(0, m.start() - 14):m.start()].endswith("public struct ")]
    if not uses:
        return set()
    shared = outputs.get("<post>/Codable.swift", "")
    if SWIFT_DEF.search(text) or SWIFT_DEF.search(shared):
        return set()
    return {"CodableVoid"}


def oracle_scala(text, outputs):
    missing = set()
    body = strip_line_comments(text, "//")
    for n in SCALA_NAMES:
        defined = re.search(r"^type %s = " % n, body, re.M) is not None
        used = any(not l.startswith("type %s = " % n) and re.search(r"\b%s\b" % n, l) for l in body.split("\n"))
        if used and not defined:
            missing.add(n)
    return missing


def oracle_go(text, outputs):
    m = re.search(r"^import \(\n(.*?)^\)\n", text, re.M | re.S)
    if m:
        imports = set(re.findall(r'"([^"]+)"', m.group(1)))
        rest = text[:m.start()] + text[m.end():]
    else:
        m1 = re.search(r'^import "([^"]+)"\n', text, re.M)
        imports = {m1.group(1)} if m1 else set()
        rest = text[:m1.start()] + text[m1.end():] if m1 else text
    rest = strip_line_comments(rest, "//")
    # back-quoted struct tags cannot contain package references that matter here
    rest = re.sub(r"`[^`\n]*`", "", rest)
    missing = set()
    for pkg, path in (("time", "time"), ("json", "encoding/json")):
        if re.search(r"(?<![\w.])%s\.[A-Z]" % pkg, rest) and path not in imports:
            missing.add(path)
    return missing


def oracle_typescript(text, outputs):
    missing = set()
    for ty in ("Date", "Uint8Array"):
        used = re.search(r"^\t(readonly )?[^\s:]+\??: %s( \| null)?;$" % ty, text, re.M)
        if not used:
            continue
        if "export const ReviverFunc = " not in text or "export const ReplacerFunc = " not in text:
            missing.add("ReviverFunc/ReplacerFunc")
        elif ("value instanceof %s" % ty) not in text or ("new %s(value)" % ty) not in text:
            missing.add("clause for " + ty)
    return missing


def oracle_kotlin(text, outputs):
    missing = set()
    body = strip_line_comments(text, "///")
    for name in ("Serializable", "SerialName"):
        if re.search(r"@%s\b" % name, body) and ("import kotlinx.serialization.%s\n" % name) not in text:
            missing.add(name)
    return missing


class PyScope(ast.NodeVisitor):
    """names loaded anywhere in the module that are not builtins, not bound at module level and not local to the
    function that loads them"""

    def __init__(self, tree):
        self.module = set()
        for node in tree.body:
            self.bind(node, self.module)
        self.undefined = set()
        self.locals = [set()]
        self.visit(tree)

    def bind(self, node, into):
        if isinstance(node, (ast.Import, ast.ImportFrom)):
            for a in node.names:
                into.add((a.asname or a.name).split(".")[0])
        elif isinstance(node, (ast.ClassDef, ast.FunctionDef)):
            into.add(node.name)
        elif isinstance(node, ast.Assign):
            for t in node.targets:
                for n in ast.walk(t):
                    if isinstance(n, ast.Name) and isinstance(n.ctx, ast.Store):
                        into.add(n.id)
        elif isinstance(node, ast.AnnAssign) and isinstance(node.target, ast.Name):
            into.add(node.target.id)

    def visit_FunctionDef(self, node):
        loc = {a.arg for a in node.args.args + node.args.kwonlyargs}
        for n in ast.walk(node):
            if isinstance(n, ast.Name) and isinstance(n.ctx, ast.Store):
                loc.add(n.id)
            if isinstance(n, ast.ExceptHandler) and n.name:
                loc.add(n.name)
        self.locals.append(loc)
        self.generic_visit(node)
        self.locals.pop()

    def visit_ClassDef(self, node):
        loc = set()
        for b in node.body:
            self.bind(b, loc)
        self.locals.append(loc)
        self.generic_visit(node)
        self.locals.pop()

    def visit_Name(self, node):
        if isinstance(node.ctx, ast.Load):
            if node.id in PY_BUILTINS or node.id in self.module or any(node.id in l for l in self.locals):
                return
            self.undefined.add(node.id)


def oracle_python(text, outputs):
    try:
        tree = ast.parse(text)
    except SyntaxError as e:
        return {"<syntax error: %s>" % e.msg}
    return PyScope(tree).undefined


ORACLES = {"swift": oracle_swift, "scala": oracle_scala, "go": oracle_go, "typescript": oracle_typescript,
           "kotlin": oracle_kotlin, "python": oracle_python}


# ----------------------------------------------------------------------------- the Known classes (mirror of the Lean predicates)

def all_types(desc):
    return [t for t, _, _ in desc["fields"]] + desc["payloads"] + [t for t, _ in desc["aliases"]]


def py_type(t, maps):
    """the python type string of a tree when it is one of the custom-translated ones, else None; second component:
    was it registered by format_special_type (a mapped special type)"""
    if t == ("vec", ("prim", "u8")) and maps.get("Vec<u8>") in ("bytes", "datetime"):
        return maps["Vec<u8>"], True
    if t == ("prim", "OffsetDateTime"):
        if "OffsetDateTime" in maps:
            return (maps["OffsetDateTime"], True) if maps["OffsetDateTime"] in ("bytes", "datetime") else (None, False)
        return "datetime", False
    if t[0] == "simple" and maps.get(t[1]) in ("bytes", "datetime"):
        return maps[t[1]], False
    return None, False


def py_special_registrations(t, maps, acc):
    """custom types registered while formatting (mapped special types, at any depth)"""
    if t == ("vec", ("prim", "u8")) and maps.get("Vec<u8>") in ("bytes", "datetime"):
        acc.add(maps["Vec<u8>"])
        return
    if t[0] == "prim" and maps.get(t[1]) in ("bytes", "datetime"):
        acc.add(maps[t[1]])
        return
    if t[0] == "generic":
        for x in t[2]:
            py_special_registrations(x, maps, acc)
    elif t[0] == "map":
        py_special_registrations(t[1], maps, acc)
        py_special_registrations(t[2], maps, acc)
    elif t[0] in ("vec", "option", "array", "slice"):
        py_special_registrations(t[1], maps, acc)


def py_datetime_imported(t, maps):
    """does formatting the tree import `datetime` (an unmapped OffsetDateTime at any depth that the printer reaches: a
    special type whose printed spelling is a mapping key, and a generic type whose name is one, are replaced before
    anything below them is formatted)"""
    if t[0] == "simple":
        return False
    if t[0] == "generic":
        return t[1] not in maps and any(py_datetime_imported(x, maps) for x in t[2])
    if display(t) in maps:
        return False
    if t[0] == "prim":
        return t[1] == "OffsetDateTime"
    if t[0] == "map":
        return py_datetime_imported(t[1], maps) or py_datetime_imported(t[2], maps)
    if t[0] in ("vec", "option", "array", "slice"):
        return py_datetime_imported(t[1], maps)
    return False


def known_python(case):
    """Python has no known class any more: py-alias-typevar (f8d1040), py-default-custom-fns (0d6268d) and
    py-mapped-datetime-import (bfc37c3) are repaired and TsV.C12.C12_python is a full theorem.  (The simulation of the
    printer state above is kept for `replay`-time diagnostics of a returned defect.)"""
    return []


def returned_python(case):
    """which repaired Python class an undefined name on this input would belong to (for the message of a violation)"""
    d, maps = case["desc"], case["cfg"].get("type_mappings", {})
    out = []
    registered = set()
    for t in all_types(d):
        py_special_registrations(t, maps, registered)
    for t, dflt, _ in d["fields"]:
        ty, _ = py_type(t, maps)
        if ty and not dflt:
            registered.add(ty)
    if any(dflt and py_type(t, maps)[0] and py_type(t, maps)[0] not in registered for t, dflt, _ in d["fields"]):
        out.append("py-default-custom-fns (fix 0d6268d)")
    if ("datetime" in registered or any(py_type(t, maps)[0] == "datetime" for t, _, _ in d["fields"])) \
            and not any(py_datetime_imported(t, maps) for t in all_types(d)):
        out.append("py-mapped-datetime-import (fix bfc37c3)")
    return out


def known_classes(case):
    lang = case["lang"]
    # Scala: none any more (C12_scala is a full theorem since the unsigned-integer scan became recursive)
    if lang == "python":
        return known_python(case)
    if lang == "kotlin":
        # a file of type aliases only carries no annotation
        d = case["desc"]
        annotated = bool(d["fields"] or d["payloads"] or d["wrap"] or case["multi"])    # the neutral crate has a struct
        return ["kotlin-empty-package"] if not case["cfg"].get("package") and annotated else []
    return []


def explained(case, names, classes):
    """are all the undefined names the oracle found accounted for by the known classes of the case"""
    return bool(classes)


def item_names(case):
    """the names of the user's own items (an undefined one is C10's / C11's business)"""
    return {it["ident"] for f in case["files"] for it in f["file"]["items"]} | set(case.get("user_names", ()))


def user_only(case, names):
    """undefined names that are the user's own (a type-mapping target used only where the mapping put it)"""
    if case["lang"] == "python" and "datetime" in names:
        maps = case["cfg"].get("type_mappings", {})
        if "datetime" in maps.values() and not any(py_datetime_imported(t, maps) for t in all_types(case["desc"])):
            # typeshare's own use of `datetime` is the text of the two translation functions - and the translation of an
            # unmapped OffsetDateTime, at any depth and in any position: then the name is typeshare's, not the user's
            return {"datetime"}
    return set()


# ----------------------------------------------------------------------------- running

class Recorder:
    """what a worker process would have told the Check object; replayed on it by the parent"""

    def __init__(self, open_ids):
        self.events, self.open, self.known_hit, self.n_samples = [], set(open_ids), {}, 0
        self.rng = random.Random(0)
        self.notes = self

    def append(self, note):
        self.events.append(("note", note))

    def saw(self, key, nontrivial=True):
        self.events.append(("saw", key, nontrivial))

    def count(self, key, n=1):
        self.events.append(("count", key, n))

    def known(self, kid, witness):
        if kid in self.open:
            if kid not in self.known_hit:
                self.known_hit[kid] = witness
                self.events.append(("known", kid, witness))
            return True
        return False

    def violation(self, what, case, impl=None, model=None, failing_input=True, broken=None):
        self.events.append(("violation", dict(what=what, case=case, impl=impl, model=model, failing_input=failing_input,
                                              broken=broken)))

    @property
    def samples(self):
        return [None] * self.n_samples

    def sample(self, x, limit=6):
        self.n_samples += 1
        self.events.append(("sample", x))


def replay_events(check, events):
    for e in events:
        if e[0] == "saw":
            check.saw(e[1], e[2])
        elif e[0] == "count":
            check.count(e[1], e[2])
        elif e[0] == "known":
            check.known(e[1], e[2])
        elif e[0] == "violation":
            # at most 50 of each kind are kept: a flood of broken-correspondence reports must not crowd out a failing input
            weak = not e[1].get("failing_input", True)
            if sum(1 for v in check.violations if (not v["failing_input_found"]) == weak) < 50:
                check.violation(**e[1])
        elif e[0] == "note":
            if len(check.notes) < 50:
                check.notes.append(e[1])
        elif e[0] == "sample":
            check.sample(e[1])


def evaluate(check, cases, label):
    g = Gen(check.rng)
    reqs = [l2.requests(c["lang"], c["cfg"], c["files"], g, c["multi"]) for c in cases]
    names = set()
    for c in cases:
        if c["lang"] == "python":
            for f in c["files"]:
                names |= l2.names_of(f["file"])
    mans = [l2.norm(a) for a in model([r[0] for r in reqs], names=names or None)]
    rans = [l2.norm(a) for a in runner([r[1] for r in reqs])]
    for c, (mreq, rreq, texts), ma, ra in zip(cases, reqs, mans, rans):
        lang = c["lang"]
        key = (label, lang, c["multi"], c["trigger_first"], c.get("needy", False), tuple(c["entries"]), json.dumps(c["cfg"], sort_keys=True))
        trig = any(leaf != "String" for _, _, leaf in c["entries"])
        check.saw(key, nontrivial=trig)
        check.count("%s %s %s" % (lang, "multi" if c["multi"] else "single", label))
        if c.get("mapped"):
            check.count("%s mapped built-in keys: %s, trigger %s" % (lang, c["mapped"]["mode"], c["mapped"]["class"]))
        src = "\n// ---- next file ----\n".join(texts)
        replay = {"lang": lang, "config": c["cfg"], "multi_file": c["multi"], "source": src, "request": rreq,
                  "entries": c["entries"]}
        agree = (ma == ra)
        if "ok" not in ra:
            # rejected by the back end (e.g. OffsetDateTime in Kotlin / Swift / Scala): nothing is generated
            check.count("%s rejected" % lang)
            if not agree:
                check.violation("%s: model and implementation disagree on a rejected input" % lang, case=replay,
                                impl=ra, model=ma, failing_input=False,
                                broken="correspondence L2 generate (theorems TsV.C12.*)")
            continue
        outputs = ra["ok"]
        classes = known_classes(c)
        problems = {}
        for crate, text in outputs.items():
            if crate.startswith("<post>/"):
                continue
            names_ = ORACLES[lang](text, outputs) - item_names(c)
            if not re.search(r"^def parse_rfc3339", text, re.M):
                # without the translation functions, `datetime` can only be where the user's mapping put it
                names_ -= user_only(c, names_)
            if names_:
                problems[crate] = sorted(names_)
        if problems:
            flat = set().union(*[set(v) for v in problems.values()])
            if classes and explained(c, flat, classes):
                ok_known = all(check.known(k, {"lang": lang, "source": src, "config": c["cfg"], "multi_file": c["multi"],
                                               "undefined": problems}) for k in classes if k in relevant(classes, flat, lang))
                check.count("known " + "+".join(classes))
                if ok_known:
                    continue
            back = returned_python(c) if lang == "python" else []
            about = ""
            if c.get("mapped"):
                about = (" - with [%s.type_mappings] %s (keys that are built-in / special Rust types or user types; the "
                         "helper-triggering types of the program occur %s)" % (
                             lang, json.dumps(c["cfg"].get("type_mappings", {}), sort_keys=True),
                             {"only mapped": "only inside types spelled like a key", "only elsewhere": "only outside the mapped types",
                              "both": "both inside and outside the mapped types", "no trigger": "nowhere"}[c["mapped"]["class"]]))
            check.violation("%s output uses helper names that it neither defines nor imports: %s%s%s" % (
                lang, problems, " - the repaired finding %s has returned" % " / ".join(back) if back else "", about),
                            case=replay, impl=ra, model=ma, failing_input=True)
            continue
        if classes:
            # inside a known class, yet the implementation's text is fine: the extractor / the mirror of Known disagree
            # with the theorems' exact characterisation, or the defect was repaired
            if agree:
                check.violation("%s: the input lies in %s but the implementation's output defines everything it uses, and "
                                "the model agrees with it" % (lang, classes), case=replay, impl=ra, model=ma,
                                failing_input=False, broken="exactness of TsV.C12.Known_kotlin (C12_kotlin_exact)")
            else:
                check.notes.append("%s: known class %s no longer fails (repaired upstream?)" % (lang, classes))
            continue
        if not agree:
            d = None
            for k in ra["ok"]:
                d = d or l2.text_diff(ma.get("ok", {}).get(k, "") if isinstance(ma.get("ok"), dict) else "", ra["ok"][k])
            check.violation("%s: generated text differs from the model (oracle passes on the implementation's text): %s"
                            % (lang, d or "%s vs %s" % (str(ma)[:200], str(ra)[:200])), case=replay, impl=ra, model=ma,
                            failing_input=False, broken="correspondence L2 generate_types (theorems TsV.C12.C12_partial, "
                            "C12_swift, C12_go, C12_typescript, C12_scala, C12_python, C12_kotlin_partial)")
        if len(check.samples) < 6 and trig and c["multi"] and lang in ("swift", "python"):
            check.sample({"lang": lang, "source": src, "outputs": {k: v[-400:] for k, v in outputs.items()}})


def replay(check, case):
    """./check C12 --replay FILE: the stored request against the current tree (implementation, oracle)"""
    c = case["case"]
    ra = l2.norm(runner([c["request"]])[0])
    print("source:\n" + c["source"])
    if "ok" not in ra:
        print("implementation:", ra)
        return 0
    bad = 0
    for crate, text in ra["ok"].items():
        print("---- [%s]\n%s" % (crate, text))
        if not crate.startswith("<post>/"):
            names = ORACLES[c["lang"]](text, ra["ok"])
            print("undefined helper names:", sorted(names))
            bad |= bool(names)
    return 1 if bad else 0


def relevant(classes, names, lang):
    """the known classes that actually account for one of the undefined names"""
    return classes


def chains(maxlen):
    for n in range(maxlen + 1):
        yield from itertools.product(WRAPPERS, repeat=n)


WITNESSES = [
    ("kotlin-empty-package", "kotlin", [("field", (), "u8")], {"package": ""}),
]


# the witnesses of the repaired findings scala-unsigned-scan-depth (37c1b68), py-alias-typevar (f8d1040),
# py-default-custom-fns (0d6268d) and py-mapped-datetime-import (bfc37c3): now ordinary inputs that must pass the oracle
# (and on which model and implementation must agree); a failure is reported as a VIOLATION with the input ("has returned")
REGRESSIONS = [
    ("scala", [("field", ("Vec", "Vec"), "u8")]),
    ("scala", [("field", ("Array",), "u16")]),
    ("scala", [("alias", ("Slice",), "u16")]),
    ("scala", [("payload", ("Option", "Vec"), "u32")]),
    ("scala", [("variant_field", ("Map", "Vec"), "u8")]),
    ("scala", [("field", ("Wrap", "Vec"), "u8")]),
    ("python", [("alias", ("Vec",), "T")]),
    ("python", [("alias", ("Map", "Option"), "T")]),
    ("python", [("field_default", (), "OffsetDateTime")]),
    ("python", [("variant_field_default", (), "OffsetDateTime")]),
    ("python", [("field_default", (), "Stamp")]),
    ("python", [("field", (), "Stamp")]),
    ("python", [("variant_field", (), "Stamp")]),
    ("python", [("field", (), "Stamp"), ("field_default", (), "Vec<u8>")]),
]


def language_cases(lang, thorough, depth, mdepth):
    """the batches of one language: (label, cases)"""
    leaves = LEAVES + (PY_ONLY_LEAVES if lang == "python" else [])
    cases = []
    for ch in chains(depth):
        for leaf in leaves:
            for pos in POSITIONS:
                cases.append(make_case([(pos, ch, leaf)], lang, False))
                if len(ch) <= mdepth:
                    # both generation orders: the crate with the trigger before and after the neutral crate
                    cases.append(make_case([(pos, ch, leaf)], lang, True, trigger_first=True))
                    cases.append(make_case([(pos, ch, leaf)], lang, True, trigger_first=False))
                    if len(ch) <= 1:
                        cases.append(make_case([(pos, ch, leaf)], lang, True, trigger_first=True, needy=True))
                        cases.append(make_case([(pos, ch, leaf)], lang, True, trigger_first=False, needy=True))
    yield "alone", cases
    # together: pairs
    small = [(ch, leaf) for ch in [(), ("Vec",), ("Vec", "Vec")] for leaf in leaves]
    cases = []
    for (c1, l1), (c2, l2_) in itertools.product(small, small):
        for p2 in (("field", "field_default") if thorough or (len(c1) + len(c2)) % 2 == 0 else ("field",)):
            if l1 == "String" and l2_ == "String":
                continue
            cases.append(make_case([("field", c1, l1), (p2, c2, l2_)], lang, False))
    # mixed positions together: an alias, a payload and a struct-variant field in one file
    for (c1, l1), (c2, l2_) in itertools.product(small[::2], small[1::2]):
        cases.append(make_case([("alias", c1, l1), ("payload", c2, l2_), ("variant_field_default", c1, l2_)], lang,
                               len(cases) % 3 == 0, trigger_first=len(cases) % 2 == 0))
    yield "together", cases
    if lang == "kotlin":
        yield "no-package", [make_case([(pos, ch, leaf)], lang, m, cfg={"package": ""})
                             for ch in chains(1) for leaf in ["u8", "String", "()"] for pos in POSITIONS for m in (False, True)]


# ----------------------------------------------------------------------------- built-in types as type-mapping keys

# replacement texts per language: none of them spells a helper name of its language, except the ones the back end itself
# treats as custom-translated (TypeScript Uint8Array / Date, Python bytes / datetime) - there typeshare owes the helper
MAP_TARGETS = {
    "typescript": ["Uint8Array", "Date", "Mapped", "string"],
    "kotlin": ["ByteArray", "Mapped", "Long"],
    "swift": ["Data", "Mapped", "Int64"],
    "scala": ["ByteString", "Mapped", "Long"],
    "go": ["[]byte", "Mapped", "int64"],
    "python": ["bytes", "datetime", "int", "str"],
}
# keys of a shared table that address nothing the trigger sits in (other built-in types, spelled as they print)
BYSTANDER_KEYS = ["i32", "bool", "f64", "char", "I54", "i8", "f32", "String", "Other", "Vec<i32>", "Vec<String>", "Option<bool>",
                  "Option<Vec>", "HashMap<String,i32>", "[bool]", "&[i32]", "Vec<Vec<i8>>"]
MAPPED_LEAVES = LEAVES + PY_ONLY_LEAVES      # here `Stamp` is a user type for every language (mapped or not by the table drawn)


def mapped_class(entries, keys):
    """where the helper-triggering types of a program sit relative to the mapping keys (read off the Rust spelling alone,
    whatever the back end makes of the key): only inside mapped types / only elsewhere / both"""
    hit = [any(mapping_key(n) in keys for n in spine(ch, leaf)) for _, ch, leaf in entries if leaf != "String"]
    if not hit:
        return "no trigger"
    return "only mapped" if all(hit) else "both" if any(hit) else "only elsewhere"


def mapped_builtin_cases(lang, seed, thorough):
    """the cases of `mapped_builtin_part` for one language.  The random stream does not depend on the language: all six
    languages see the same programs with the same key sets (a table shared between the languages' sections), only the
    replacement texts are the language's own."""
    rng = random.Random("C12 mapped built-in keys %d" % seed)
    targets = MAP_TARGETS[lang]

    def table(keys):
        return {k: targets[rng.randrange(60) % len(targets)] for k in keys}

    def case(entries, keys, mode):
        layout = rng.randrange(10)              # drawn for every case so that the stream stays the same for all languages
        multi, first, needy = layout >= 7, layout % 2 == 0, layout == 9
        cfg = {k: v for k, v in CFG[lang].items() if k != "type_mappings"}
        cfg["type_mappings"] = table(keys)
        c = make_case(entries, lang, multi, trigger_first=first, cfg=cfg, needy=needy and multi)
        c["mapped"] = {"mode": mode, "class": mapped_class(entries, set(keys))}
        c["user_names"] = ["Stamp"]         # a type of the user's that is not annotated: not typeshare's to define
        return c

    def entry(leaf=None):
        return (rng.choice(POSITIONS), tuple(rng.choice(WRAPPERS) for _ in range(rng.choice([0, 0, 1, 1, 2, 2, 3]))),
                leaf or rng.choice(MAPPED_LEAVES))

    cases = []
    # alone: one trigger, one key - every node of the trigger's type tree in turn (the leaf itself, each container around it)
    for ch in chains(3 if thorough else 2):
        for leaf in MAPPED_LEAVES:
            nodes = spine(ch, leaf)
            for node in nodes:
                for _ in range(2 if thorough else 1):
                    cases.append(case([(rng.choice(POSITIONS), ch, leaf)], [mapping_key(node)], "one key"))
    # tables: several entries, several keys
    for i in range(40000 if thorough else 3000):
        mode = ["table, every trigger mapped", "table, some triggers mapped", "table, bystander keys only",
                "table, same trigger mapped and unmapped"][i % 4]
        entries = [entry() for _ in range(rng.choice([1, 2, 2, 3]))]
        keys = rng.sample(BYSTANDER_KEYS, rng.choice([0, 1, 1, 2]))
        if mode == "table, every trigger mapped":
            keys += [mapping_key(rng.choice(spine(ch, leaf))) for _, ch, leaf in entries]
        elif mode == "table, some triggers mapped":
            some = rng.sample(entries, rng.randrange(1, len(entries) + 1))
            keys += [mapping_key(rng.choice(spine(ch, leaf))) for _, ch, leaf in some]
        elif mode == "table, bystander keys only":
            # spellings of types that do not occur: what another program of the same project uses
            other = [entry() for _ in range(2)]
            keys += [mapping_key(rng.choice(spine(ch, leaf))) for _, ch, leaf in other]
            here = {mapping_key(n) for _, ch, leaf in entries if leaf != "String" for n in spine(ch, leaf)}
            keys = [k for k in keys if k not in here] or ["i32"]
        else:
            # the first trigger twice: once below a container that is a key, once bare or below other containers
            pos, ch, leaf = entries[0]
            if not ch:
                ch = (rng.choice(WRAPPERS[:6]),)
                entries[0] = (pos, ch, leaf)
            outer = [n for n in spine(ch, leaf) if n[0] not in ("prim", "simple")] or spine(ch, leaf)
            keys.append(mapping_key(rng.choice(outer)))
            entries.append((rng.choice(POSITIONS), rng.choice([(), (), ("Option",), ("Vec", "Vec"), ("Map",), ("Wrap",)]), leaf))
        cases.append(case(entries, sorted(set(keys)), mode))
    return cases


def mapped_builtin_part(check, lang, seed, thorough):
    """Dimension: the keys of `[<lang>.type_mappings]`.  The other parts only ever map `Vec<u8>` (TypeScript, Go, Python) and
    the user type `Stamp` (Python); here the keys are *built-in / special* Rust types spelled the way `Display` prints them -
    primitives (`u8` `u16` `u32` `U53` `String` `bool` ...), `()`, `OffsetDateTime`, containers at any depth (`Vec<u8>`,
    `Vec<Vec<u16>>`, `Option<Vec>`, `HashMap<String,u32>`, `[u8]`, `&[u16]`), a generic parameter, the user types `Stamp` and
    `Wrap` - for every language, whether or not its printer honours such a key (TypeScript, Go and Python look a special type up
    before they print it; Kotlin, Swift and Scala print built-in types without consulting the table and honour only user /
    generic type names).  One key alone: every node of the trigger's type tree (chains of <= 2 wrappers, 3 thorough) in turn.
    Tables (the same keys for all six languages, replacement texts per language): 1-3 entries at random positions with
    keys for every trigger / for some / for none (spellings that occur nowhere plus other built-in types) / for one of two
    occurrences of the same trigger; single- and multi-file (neutral and needy second crate).
    Demand: exactly C12's - the helper names the IMPLEMENTATION's text uses are defined or imported in it (per-language
    oracle, unchanged); nothing is demanded about which keys a back end honours.  Model and implementation are compared
    byte for byte as everywhere else in this file."""
    cases = mapped_builtin_cases(lang, seed, thorough)
    for i in range(0, len(cases), 20000):
        evaluate(check, cases[i:i + 20000], "mapped-builtin")


def worker(args):
    lang, thorough, depth, mdepth, open_ids, seed = args
    rec = Recorder(open_ids)
    mapped_builtin_part(rec, lang, seed, thorough)
    for label, cases in language_cases(lang, thorough, depth, mdepth):
        for i in range(0, len(cases), 20000):
            evaluate(rec, cases[i:i + 20000], label)
    return rec.events


def run(check):
    depth = 4 if check.thorough else 3
    mdepth = 3 if check.thorough else 2
    check.rule = ("exhaustive: every trigger leaf %s (+ %s for Python) under every chain of <= %d wrappers from %s at every "
                  "position %s, alone; all ordered pairs of (leaf, chain of <= 2 of Vec) in two struct fields, the second "
                  "also defaulted; triples alias + tuple payload + defaulted struct-variant field; six languages; single-file, "
                  "and multi-file (two crates, the trigger crate generated first and second) for chains of <= %d wrappers; "
                  "Kotlin also without a package.  Depth of the type tree = chain + leaf.  non-trivial = the trigger is not "
                  "the neutral leaf `String`.  Plus (mapped_builtin_part, seeded by --seed): the same kinds of program under "
                  "type_mappings tables whose keys are built-in / special Rust types and user types - one key for every node of "
                  "the trigger's type tree (chains of <= %d wrappers), and random tables shared by all six languages with the "
                  "trigger only inside / only outside / inside and outside the mapped types"
                  % (LEAVES, PY_ONLY_LEAVES, depth, WRAPPERS, POSITIONS, mdepth, 3 if check.thorough else 2))
    # stored witnesses of the known findings, replayed first
    evaluate(check, [make_case(entries, lang, False, cfg=cfg) for _, lang, entries, cfg in WITNESSES], "witness")
    for kid, lang, entries, cfg in WITNESSES:
        if check.known_open(kid) and kid not in check.known_hit:
            check.notes.append("witness of %s no longer fails" % kid)
    evaluate(check, [make_case(entries, lang, False) for lang, entries in REGRESSIONS], "regression")
    with multiprocessing.get_context("fork").Pool(len(LANGS)) as pool:
        for events in pool.imap(worker, [(lang, check.thorough, depth, mdepth, sorted(check.open), check.seed) for lang in LANGS]):
            replay_events(check, events)
    check.exhaustive = True
    check.extra["exhaustive_scope"] = ("%d leaves x %d chains x %d positions x 6 languages (single file; multi-file for chains "
                                       "<= %d)" % (len(LEAVES), sum(1 for _ in chains(depth)), len(POSITIONS), mdepth))
    check.assumptions += [
        "user-written names are outside the property: a `#[typeshare(<lang>(type = \"..\"))]` override or a type-mapping "
        "target that happens to spell a helper name (`CodableVoid`, `time.Time`, `UByte`, `datetime`) is the user's text; "
        "typeshare records no import / flag for it (Go: mapping OffsetDateTime -> time.Time imports nothing) — noted, not a finding",
        "TypeScript: the generated code never *refers* to ReviverFunc/ReplacerFunc; 'uses' is read as 'a field is printed with a "
        "custom-translated type (Date, Uint8Array)'; such types below the top of a field type (Date[]) or in aliases / payloads "
        "are not registered by typeshare and get no clause — by design of the helper, noted",
        "provided-but-unused helpers (Go always imports encoding/json; Python/Go/TypeScript/Swift printer state leaks from one "
        "crate's file into the next in multi-file mode) are not violations of this property",
    ]
