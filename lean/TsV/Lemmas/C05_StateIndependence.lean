import TsV.Lemmas.C01_Backends
import TsV.Model.Lang.Go
import TsV.Model.Lang.Python
import TsV.Model.Lang.Swift
import TsV.Model.Lang.Kotlin
import TsV.Model.Lang.Scala
/-!
# C05_StateIndependence, lemmas — the text a printer returns does not depend on the printer state

A language value lives for a whole run; four of the six printers thread a state through every call
(`TypeScript`: the reviver / replacer registrations, `Python`: imports, `TypeVar`s and the custom-JSON
set, `Swift`: `should_emit_codable_void`, `Go`: the import set).  `txt` forgets the returned state;
`*_formatType_indep` says the rest (text, error kind, panic site) is the same from any two states.
`travM` is the shape of every "loop over the fields, threading the state" of the models; `travM_get`
turns per-step independence into "element `i` of the loop's result is the step on field `i` alone".
-/
namespace TsV.C05_StateIndependence
open TsV TsV.Lang TsV.Outcome

/-- what a stateful printer call returns, the returned state forgotten (errors and panics kept) -/
def txt {α σ} : Outcome (α × σ) → Outcome α
  | .ok (a, _) => .ok a
  | .err e => .err e
  | .panic s => .panic s

@[simp] theorem txt_ok {α σ} (a : α) (s : σ) : txt (.ok (a, s) : Outcome (α × σ)) = .ok a := rfl
@[simp] theorem txt_err {α σ} (e) : txt (.err e : Outcome (α × σ)) = .err e := rfl
@[simp] theorem txt_panic {α σ} (p) : txt (.panic p : Outcome (α × σ)) = .panic p := rfl

theorem txt_eq_ok {α σ} {x : Outcome (α × σ)} {a : α} : txt x = .ok a ↔ ∃ s, x = .ok (a, s) := by
  rcases x with ⟨b, s⟩ | e | p
  · constructor
    · intro h; simp only [txt_ok, Outcome.ok.injEq] at h; exact ⟨s, by rw [h]⟩
    · rintro ⟨s', h⟩; cases h; rfl
  · simp [txt]
  · simp [txt]

/-- the continuation of a `bind` may be run from any state when its text does not depend on it -/
theorem txt_bind_congr {α β σ τ} {x : Outcome (α × σ)} {x' : Outcome (α × σ)}
    {g g' : α × σ → Outcome (β × τ)}
    (hx : txt x = txt x') (hg : ∀ a s s', txt (g (a, s)) = txt (g' (a, s'))) :
    txt (x.bind g) = txt (x'.bind g') := by
  rcases x with ⟨a, s⟩ | e | p <;> rcases x' with ⟨a', s'⟩ | e' | p' <;> simp only [txt_ok, txt_err, txt_panic] at hx <;>
    first
    | (cases hx; exact hg _ _ _)
    | (cases hx; rfl)
    | cases hx

/-- close `txt (match x …) = txt (match x' …)` from `ih : txt x = txt x'` -/
macro "txt_cases " ih:ident " : " x:term " , " y:term : tactic =>
  `(tactic| (revert $ih:ident; generalize $x = x1; generalize $y = x2; intro ih';
             rcases x1 with ⟨a, s⟩ | e | p <;> rcases x2 with ⟨a', s'⟩ | e' | p' <;>
               simp only [txt_ok, txt_err, txt_panic] at ih' <;>
               first | (cases ih'; rfl) | cases ih'))

/-! ## the loop over a list, threading the state -/

/-- `for x in xs { out.push(step(x, &mut state)?) }` -/
def travM {α β σ} (step : α → σ → Outcome (β × σ)) : List α → σ → Outcome (List β × σ)
  | [], st => .ok ([], st)
  | a :: as, st =>
    (step a st).bind fun (b, st) =>
    (travM step as st).bind fun (bs, st) => .ok (b :: bs, st)

/-- when the text of a step does not depend on the state, element `i` of the loop's result is the step
on element `i` alone, from any state `s0` one likes (in particular the initial one) -/
theorem travM_get {α β σ} (step : α → σ → Outcome (β × σ))
    (hstep : ∀ a s s', txt (step a s) = txt (step a s')) (s0 : σ) :
    ∀ (as : List α) (st st' : σ) (bs : List β), travM step as st = .ok (bs, st') →
      bs.length = as.length ∧
      ∀ (i : Nat) (h : i < as.length) (h' : i < bs.length), txt (step as[i] s0) = .ok bs[i]
  | [], st, st', bs, h => by
    simp only [travM, Outcome.ok.injEq, Prod.mk.injEq] at h
    rw [← h.1]
    exact ⟨rfl, fun i hi => absurd hi (Nat.not_lt_zero _)⟩
  | a :: as, st, st', bs, h => by
    simp only [travM] at h
    obtain ⟨⟨b, s1⟩, h1, h⟩ := (bind_eq_ok _ _ _).1 h
    obtain ⟨⟨bs', s2⟩, h2, h⟩ := (bind_eq_ok _ _ _).1 h
    simp only [Outcome.ok.injEq, Prod.mk.injEq] at h
    obtain ⟨hl, hget⟩ := travM_get step hstep s0 as s1 s2 bs' h2
    rw [← h.1]
    refine ⟨by simp [hl], ?_⟩
    intro i hi hi'
    cases i with
    | zero =>
      simp only [List.getElem_cons_zero]
      rw [hstep a s0 st, h1]; rfl
    | succ j =>
      simp only [List.getElem_cons_succ]
      exact hget j (by simpa using hi) (by simpa using hi')

/-- the whole result list of the loop, as text, does not depend on the state either -/
theorem travM_indep {α β σ} (step : α → σ → Outcome (β × σ))
    (hstep : ∀ a s s', txt (step a s) = txt (step a s')) :
    ∀ (as : List α) (st st' : σ), txt (travM step as st) = txt (travM step as st')
  | [], _, _ => rfl
  | a :: as, st, st' => by
    simp only [travM]
    refine txt_bind_congr (hstep a st st') ?_
    intro b s s'
    refine txt_bind_congr (travM_indep step hstep as s s') ?_
    intro bs t t'
    rfl

/-! ## TypeScript -/
namespace TS
open TsV.Lang.TypeScript

theorem special_indep (cfg : Cfg) (gens : List Str) (t : RustType) (k : CustomMap → Outcome (Str × CustomMap))
    (hk : ∀ st st', txt (k st) = txt (k st')) (st st' : CustomMap) :
    txt (special cfg gens t st k) = txt (special cfg gens t st' k) := by
  unfold special
  cases mapGet cfg.typeMappings t.display with
  | some m => rfl
  | none => exact hk st st'

mutual
  theorem formatType_indep (cfg : Cfg) (gens : List Str) : ∀ (t : RustType) (st st' : CustomMap),
      txt (formatType cfg gens t st) = txt (formatType cfg gens t st')
    | .simple id, st, st' => by simp only [formatType, txt_ok]
    | .generic id ps, st, st' => by
      simp only [formatType]
      cases mapGet cfg.typeMappings id with
      | some m => rfl
      | none =>
        simp only
        have ih := formatTypes_indep cfg gens ps st st'
        txt_cases ih : formatTypes cfg gens ps st , formatTypes cfg gens ps st'
    | .vec r, st, st' => by
      simp only [formatType]
      refine special_indep cfg gens _ _ ?_ st st'
      intro s s'
      exact txt_bind_congr (formatType_indep cfg gens r s s') (fun _ _ _ => rfl)
    | .slice r, st, st' => by
      simp only [formatType]
      refine special_indep cfg gens _ _ ?_ st st'
      intro s s'
      exact txt_bind_congr (formatType_indep cfg gens r s s') (fun _ _ _ => rfl)
    | .array r n, st, st' => by
      simp only [formatType]
      refine special_indep cfg gens _ _ ?_ st st'
      intro s s'
      exact txt_bind_congr (formatType_indep cfg gens r s s') (fun _ _ _ => rfl)
    | .option r, st, st' => by
      simp only [formatType]
      refine special_indep cfg gens _ _ ?_ st st'
      intro s s'
      exact formatType_indep cfg gens r s s'
    | .hashMap k v, st, st' => by
      simp only [formatType]
      refine special_indep cfg gens _ _ ?_ st st'
      intro s s'
      have key : txt ((formatType cfg gens k s).bind fun (ks, st) =>
            (formatType cfg gens v st).bind fun (vs, st) =>
              (.ok (s%"Record<" ++ ks ++ s%", " ++ vs ++ s%">", st) : Outcome (Str × CustomMap))) =
          txt ((formatType cfg gens k s').bind fun (ks, st) =>
            (formatType cfg gens v st).bind fun (vs, st) =>
              (.ok (s%"Record<" ++ ks ++ s%", " ++ vs ++ s%">", st) : Outcome (Str × CustomMap))) :=
        txt_bind_congr (formatType_indep cfg gens k s s') fun ks t t' =>
          txt_bind_congr (formatType_indep cfg gens v t t') (fun _ _ _ => rfl)
      split
      · split
        · rfl
        · exact key
      · exact key
    | .prim p, st, st' => by
      simp only [formatType]
      refine special_indep cfg gens _ _ ?_ st st'
      intro s s'
      cases p <;> rfl
  theorem formatTypes_indep (cfg : Cfg) (gens : List Str) : ∀ (ts : List RustType) (st st' : CustomMap),
      txt (formatTypes cfg gens ts st) = txt (formatTypes cfg gens ts st')
    | [], _, _ => rfl
    | t :: ts, st, st' => by
      simp only [formatTypes]
      exact txt_bind_congr (formatType_indep cfg gens t st st') fun a s s' =>
        txt_bind_congr (formatTypes_indep cfg gens ts s s') (fun _ _ _ => rfl)
end

theorem fieldFacts_indep (cfg : Cfg) (gens : List Str) (f : RustField) (st st' : CustomMap) :
    txt (fieldFacts cfg gens f st) = txt (fieldFacts cfg gens f st') := by
  unfold fieldFacts
  refine txt_bind_congr ?_ (fun _ _ _ => rfl)
  cases typeOverride f .typescript with
  | some t => rfl
  | none => exact formatType_indep cfg gens f.ty st st'

theorem fieldsFacts_eq_travM (cfg : Cfg) (gens : List Str) : ∀ (fs : List RustField) (st : CustomMap),
    C01.TypeScript.fieldsFacts cfg gens fs st = travM (fieldFacts cfg gens) fs st
  | [], _ => rfl
  | f :: fs, st => by
    simp only [C01.TypeScript.fieldsFacts, travM, fieldsFacts_eq_travM cfg gens fs]

/-- the items of a file are written one after the other, the state handed on -/
theorem writeItems_snoc (U : UnicodeOps) (cfg : Cfg) (it : RustItem) : ∀ (pre : List RustItem) (st : CustomMap),
    writeItems U cfg (pre ++ [it]) st =
      (writeItems U cfg pre st).bind fun (a, st) =>
      (writeItem U cfg it st).bind fun (b, st) => .ok (a ++ b, st)
  | [], st => by
    simp only [List.nil_append, writeItems, bind_ok]
    cases writeItem U cfg it st with
    | ok p => obtain ⟨b, s⟩ := p; simp [writeItems]
    | err e => rfl
    | panic e => rfl
  | x :: pre, st => by
    simp only [List.cons_append, writeItems]
    cases writeItem U cfg x st with
    | ok p =>
      obtain ⟨a, s⟩ := p
      simp only [bind_ok]
      rw [writeItems_snoc U cfg it pre s]
      cases writeItems U cfg pre s with
      | ok q =>
        obtain ⟨a2, s2⟩ := q
        simp only [bind_ok]
        cases writeItem U cfg it s2 with
        | ok r => obtain ⟨b, s3⟩ := r; simp [List.append_assoc]
        | err e => rfl
        | panic e => rfl
      | err e => rfl
      | panic e => rfl
    | err e => rfl
    | panic e => rfl

end TS

/-! ## Go -/
namespace Go
open TsV.Lang.Go

theorem special_indep (cfg : Cfg) (t : RustType) (k : Imports → Outcome (Str × Imports))
    (hk : ∀ st st', txt (k st) = txt (k st')) (st st' : Imports) :
    txt (special cfg t st k) = txt (special cfg t st' k) := by
  unfold special
  cases mapGet cfg.typeMappings t.display with
  | some m => rfl
  | none => exact hk st st'

mutual
  theorem formatType_indep (cfg : Cfg) : ∀ (t : RustType) (st st' : Imports),
      txt (formatType cfg t st) = txt (formatType cfg t st')
    | .simple id, st, st' => by simp only [formatType, txt_ok]
    | .generic id ps, st, st' => by
      simp only [formatType]
      cases mapGet cfg.typeMappings id with
      | some m => rfl
      | none => exact txt_bind_congr (formatTypes_indep cfg ps st st') (fun _ _ _ => rfl)
    | .vec r, st, st' => by
      simp only [formatType]
      refine special_indep cfg _ _ ?_ st st'
      intro s s'
      exact txt_bind_congr (formatType_indep cfg r s s') (fun _ _ _ => rfl)
    | .slice r, st, st' => by
      simp only [formatType]
      refine special_indep cfg _ _ ?_ st st'
      intro s s'
      exact txt_bind_congr (formatType_indep cfg r s s') (fun _ _ _ => rfl)
    | .array r n, st, st' => by
      simp only [formatType]
      refine special_indep cfg _ _ ?_ st st'
      intro s s'
      exact txt_bind_congr (formatType_indep cfg r s s') (fun _ _ _ => rfl)
    | .option r, st, st' => by
      simp only [formatType]
      refine special_indep cfg _ _ ?_ st st'
      intro s s'
      exact txt_bind_congr (formatType_indep cfg r s s') (fun _ _ _ => rfl)
    | .hashMap k v, st, st' => by
      simp only [formatType]
      refine special_indep cfg _ _ ?_ st st'
      intro s s'
      exact txt_bind_congr (formatType_indep cfg k s s') fun ks t t' =>
        txt_bind_congr (formatType_indep cfg v t t') (fun _ _ _ => rfl)
    | .prim p, st, st' => by
      simp only [formatType]
      refine special_indep cfg _ _ ?_ st st'
      intro s s'
      cases p <;> rfl
  theorem formatTypes_indep (cfg : Cfg) : ∀ (ts : List RustType) (st st' : Imports),
      txt (formatTypes cfg ts st) = txt (formatTypes cfg ts st')
    | [], _, _ => rfl
    | t :: ts, st, st' => by
      simp only [formatTypes]
      exact txt_bind_congr (formatType_indep cfg t st st') fun a s s' =>
        txt_bind_congr (formatTypes_indep cfg ts s s') (fun _ _ _ => rfl)
end

theorem fieldFacts_indep (U : UnicodeOps) (cfg : Cfg) (f : RustField) (st st' : Imports) :
    txt (fieldFacts U cfg f st) = txt (fieldFacts U cfg f st') := by
  unfold fieldFacts
  refine txt_bind_congr ?_ ?_
  · cases typeOverride f .go with
    | some t => rfl
    | none => exact formatType_indep cfg f.ty st st'
  · intro a s s'
    simp only
    cases acr U cfg a with
    | ok g =>
      simp only [bind_ok]
      cases fieldName U cfg f.id.original <;> rfl
    | err e => rfl
    | panic p => rfl

theorem fieldsFacts_eq_travM (U : UnicodeOps) (cfg : Cfg) : ∀ (fs : List RustField) (st : Imports),
    fieldsFacts U cfg fs st = travM (fieldFacts U cfg) fs st
  | [], _ => rfl
  | f :: fs, st => by
    simp only [fieldsFacts, travM, fieldsFacts_eq_travM U cfg fs]

end Go

/-! ## Python -/
namespace Py
open TsV.Lang.Python

theorem special_indep (cfg : Cfg) (t : RustType) (k : St → Outcome (Str × St))
    (hk : ∀ st st', txt (k st) = txt (k st')) (st st' : St) :
    txt (special cfg t st k) = txt (special cfg t st' k) := by
  unfold special
  cases mapGet cfg.typeMappings t.display with
  | some m => rfl
  | none => exact hk st st'

mutual
  theorem formatType_indep (cfg : Cfg) (gens : List Str) : ∀ (t : RustType) (st st' : St),
      txt (formatType cfg gens t st) = txt (formatType cfg gens t st')
    | .simple id, st, st' => by simp only [formatType, formatSimple, txt_ok]
    | .generic id ps, st, st' => by
      simp only [formatType]
      cases mapGet cfg.typeMappings id with
      | some m => rfl
      | none =>
        have ih := formatTypes_indep cfg gens ps (addImports st id) (addImports st' id)
        rcases h1 : formatTypes cfg gens ps (addImports st id) with ⟨a, s⟩ | e | p <;>
          rcases h2 : formatTypes cfg gens ps (addImports st' id) with ⟨a', s'⟩ | e' | p' <;>
          rw [h1, h2] at ih <;> simp only [txt_ok, txt_err, txt_panic] at ih <;>
          first
          | (cases ih; simp only [formatSimple, txt_ok])
          | (cases ih; rfl)
          | cases ih
    | .vec r, st, st' => by
      simp only [formatType]
      refine special_indep cfg _ _ ?_ st st'
      intro s s'
      exact txt_bind_congr (formatType_indep cfg gens r _ _) (fun _ _ _ => rfl)
    | .slice r, st, st' => by
      simp only [formatType]
      refine special_indep cfg _ _ ?_ st st'
      intro s s'
      exact txt_bind_congr (formatType_indep cfg gens r _ _) (fun _ _ _ => rfl)
    | .array r n, st, st' => by
      simp only [formatType]
      refine special_indep cfg _ _ ?_ st st'
      intro s s'
      exact txt_bind_congr (formatType_indep cfg gens r _ _) (fun _ _ _ => rfl)
    | .option r, st, st' => by
      simp only [formatType]
      refine special_indep cfg _ _ ?_ st st'
      intro s s'
      exact txt_bind_congr (formatType_indep cfg gens r _ _) (fun _ _ _ => rfl)
    | .hashMap k v, st, st' => by
      simp only [formatType]
      refine special_indep cfg _ _ ?_ st st'
      intro s s'
      have key : txt ((formatType cfg gens k (addImport s kTyping s%"Dict")).bind fun (ks, st) =>
            (formatType cfg gens v st).bind fun (vs, st) =>
              (.ok (s%"Dict[" ++ ks ++ s%", " ++ vs ++ s%"]", st) : Outcome (Str × St))) =
          txt ((formatType cfg gens k (addImport s' kTyping s%"Dict")).bind fun (ks, st) =>
            (formatType cfg gens v st).bind fun (vs, st) =>
              (.ok (s%"Dict[" ++ ks ++ s%", " ++ vs ++ s%"]", st) : Outcome (Str × St))) :=
        txt_bind_congr (formatType_indep cfg gens k _ _) fun ks t t' =>
          txt_bind_congr (formatType_indep cfg gens v t t') (fun _ _ _ => rfl)
      split
      · split
        · rfl
        · exact key
      · exact key
    | .prim p, st, st' => by
      simp only [formatType]
      refine special_indep cfg _ _ ?_ st st'
      intro s s'
      cases p <;> rfl
  theorem formatTypes_indep (cfg : Cfg) (gens : List Str) : ∀ (ts : List RustType) (st st' : St),
      txt (formatTypes cfg gens ts st) = txt (formatTypes cfg gens ts st')
    | [], _, _ => rfl
    | t :: ts, st, st' => by
      simp only [formatTypes]
      exact txt_bind_congr (formatType_indep cfg gens t st st') fun a s s' =>
        txt_bind_congr (formatTypes_indep cfg gens ts s s') (fun _ _ _ => rfl)
end

theorem fieldFacts_indep (E : Ext) (cfg : Cfg) (gens : List Str) (f : RustField) (st st' : St) :
    txt (fieldFacts E cfg gens f st) = txt (fieldFacts E cfg gens f st') := by
  unfold fieldFacts
  refine txt_bind_congr (formatType_indep cfg gens f.ty st st') ?_
  intro a s s'
  dsimp only
  cases jsonTranslation a <;> rfl

theorem fieldsFacts_eq_travM (E : Ext) (cfg : Cfg) (gens : List Str) : ∀ (fs : List RustField) (st : St),
    fieldsFacts E cfg gens fs st = travM (fieldFacts E cfg gens) fs st
  | [], _ => rfl
  | f :: fs, st => by
    simp only [fieldsFacts, travM, fieldsFacts_eq_travM E cfg gens fs]

end Py

/-! ## Swift -/
namespace Sw
open TsV.Lang.Swift

mutual
  theorem formatType_indep (cfg : Cfg) (gens : List Str) : ∀ (t : RustType) (st st' : St),
      txt (formatType cfg gens t st) = txt (formatType cfg gens t st')
    | .simple id, st, st' => by simp only [formatType, txt_ok]
    | .generic id ps, st, st' => by
      simp only [formatType]
      cases mapGet cfg.typeMappings id with
      | some m => rfl
      | none =>
        simp only
        have ih := formatTypes_indep cfg gens ps st st'
        txt_cases ih : formatTypes cfg gens ps st , formatTypes cfg gens ps st'
    | .vec r, st, st' => by
      simp only [formatType]
      exact txt_bind_congr (formatType_indep cfg gens r st st') (fun _ _ _ => rfl)
    | .slice r, st, st' => by
      simp only [formatType]
      exact txt_bind_congr (formatType_indep cfg gens r st st') (fun _ _ _ => rfl)
    | .array r n, st, st' => by
      simp only [formatType]
      exact txt_bind_congr (formatType_indep cfg gens r st st') (fun _ _ _ => rfl)
    | .option r, st, st' => by
      simp only [formatType]
      exact txt_bind_congr (formatType_indep cfg gens r st st') (fun _ _ _ => rfl)
    | .hashMap k v, st, st' => by
      simp only [formatType]
      exact txt_bind_congr (formatType_indep cfg gens k st st') fun ks t t' =>
        txt_bind_congr (formatType_indep cfg gens v t t') (fun _ _ _ => rfl)
    | .prim p, st, st' => by
      simp only [formatType]
      cases p <;> rfl
  theorem formatTypes_indep (cfg : Cfg) (gens : List Str) : ∀ (ts : List RustType) (st st' : St),
      txt (formatTypes cfg gens ts st) = txt (formatTypes cfg gens ts st')
    | [], _, _ => rfl
    | t :: ts, st, st' => by
      simp only [formatTypes]
      exact txt_bind_congr (formatType_indep cfg gens t st st') fun a s s' =>
        txt_bind_congr (formatTypes_indep cfg gens ts s s') (fun _ _ _ => rfl)
end

theorem fieldType_indep (cfg : Cfg) (gens : List Str) (f : RustField) (st st' : St) :
    txt (fieldType cfg gens f st) = txt (fieldType cfg gens f st') := by
  unfold fieldType
  cases typeOverride f .swift with
  | some t => rfl
  | none => exact formatType_indep cfg gens f.ty st st'

/-- one iteration of the first loop of `write_struct` -/
def propStep (cfg : Cfg) (gens : List Str) (f : RustField) (st : St) : Outcome (StoredProp × St) :=
  (fieldType cfg gens f st).bind fun (ty, st) =>
    .ok ({ comments := f.comments, name := memberName f, ty, optional := fieldOptional f }, st)

/-- one iteration of the second loop of `write_struct` -/
def paramStep (cfg : Cfg) (gens : List Str) (f : RustField) (st : St) : Outcome (InitParam × St) :=
  (fieldType cfg gens f st).bind fun (ty, st) =>
    .ok ({ label := removeDash f.id.renamed, ty, optional := fieldOptional f }, st)

theorem propStep_indep (cfg : Cfg) (gens : List Str) (f : RustField) (st st' : St) :
    txt (propStep cfg gens f st) = txt (propStep cfg gens f st') :=
  txt_bind_congr (fieldType_indep cfg gens f st st') (fun _ _ _ => rfl)

theorem paramStep_indep (cfg : Cfg) (gens : List Str) (f : RustField) (st st' : St) :
    txt (paramStep cfg gens f st) = txt (paramStep cfg gens f st') :=
  txt_bind_congr (fieldType_indep cfg gens f st st') (fun _ _ _ => rfl)

theorem storedProps_eq_travM (cfg : Cfg) (gens : List Str) : ∀ (fs : List RustField) (st : St),
    storedProps cfg gens fs st = travM (propStep cfg gens) fs st
  | [], _ => rfl
  | f :: fs, st => by
    simp only [storedProps, travM, propStep, ← storedProps_eq_travM cfg gens fs]
    cases fieldType cfg gens f st <;> rfl

theorem initParams_eq_travM (cfg : Cfg) (gens : List Str) : ∀ (fs : List RustField) (st : St),
    initParams cfg gens fs st = travM (paramStep cfg gens) fs st
  | [], _ => rfl
  | f :: fs, st => by
    simp only [initParams, travM, paramStep, ← initParams_eq_travM cfg gens fs]
    cases fieldType cfg gens f st <;> rfl

end Sw

end TsV.C05_StateIndependence
