import TsV.Lemmas.C05
/-!
# C05 — the six `formatType`s are `show L ∘ translate L` (text component)
-/
namespace TsV.C05L
open TsV TsV.Lang

/-! ## generic glue -/

/-- sequencing in a state-threading printer versus sequencing in the pure translation -/
theorem proj_bind {σ α β γ δ} (x : Outcome (α × σ)) (y : Outcome γ) (g : γ → α)
    (hx : omap Prod.fst x = omap g y)
    (k : α × σ → Outcome (β × σ)) (k' : γ → Outcome δ) (g' : δ → β)
    (hk : ∀ s c, omap Prod.fst (k (g c, s)) = omap g' (k' c)) :
    omap Prod.fst (x.bind k) = omap g' (y.bind k') := by
  cases x with
  | ok p =>
    obtain ⟨a, s⟩ := p
    cases y with
    | ok c => simp only [omap_ok, Outcome.ok.injEq] at hx; subst hx; exact hk s c
    | err e => simp [omap] at hx
    | panic e => simp [omap] at hx
  | err e => cases y <;> simp_all [omap, Outcome.bind]
  | panic e => cases y <;> simp_all [omap, Outcome.bind]

/-- the same for a pure printer -/
theorem pure_bind {α β γ δ} (y : Outcome γ) (g : γ → α) (k : α → Outcome β) (k' : γ → Outcome δ)
    (g' : δ → β) (hk : ∀ c, k (g c) = omap g' (k' c)) :
    (omap g y).bind k = omap g' (y.bind k') := by
  cases y with
  | ok c => exact hk c
  | err e => rfl
  | panic e => rfl

theorem proj_ok {σ α γ} {x : Outcome (α × σ)} {y : Outcome γ} {g : γ → α} {a : α} {s : σ}
    (h : omap Prod.fst x = omap g y) (hx : x = .ok (a, s)) : ∃ c, y = .ok c ∧ g c = a := by
  subst hx
  cases y with
  | ok c => exact ⟨c, rfl, by simpa using h.symm⟩
  | err e => simp [omap] at h
  | panic e => simp [omap] at h

theorem proj_err {σ α γ} {x : Outcome (α × σ)} {y : Outcome γ} {g : γ → α} {e}
    (h : omap Prod.fst x = omap g y) (hx : x = .err e) : y = .err e := by
  subst hx; cases y <;> simp_all [omap]

theorem proj_panic {σ α γ} {x : Outcome (α × σ)} {y : Outcome γ} {g : γ → α} {e}
    (h : omap Prod.fst x = omap g y) (hx : x = .panic e) : y = .panic e := by
  subst hx; cases y <;> simp_all [omap]

theorem showAll_isEmpty (L : TsV.Lang) (ts : List TTy) : (showAll L ts).isEmpty = ts.isEmpty := by
  cases ts <;> simp [showAll]

/-- the text of a user type applied to its arguments, as every back end writes it -/
theorem show_user (L : TsV.Lang) (n : Str) (args : List TTy) :
    «show» L (.user n args) =
      n ++ (if (showAll L args).isEmpty then []
            else brOpen L ++ Str.intercalate s%", " (showAll L args) ++ brClose L) := by
  simp [«show», showAll_isEmpty]

theorem isGenericKey_simple (gens : List Str) (id : Str) : isGenericKey gens (.simple id) = gens.contains id := rfl

/-! ## TypeScript -/

theorem ts_special (cfg : TypeScript.Cfg) (gens : List Str) (t : RustType) (st : TypeScript.CustomMap)
    (k : TypeScript.CustomMap → Outcome (Str × TypeScript.CustomMap)) (K : Outcome TTy)
    (hkey : lookupKey .typescript t = some t.display)
    (h : ∀ st, omap Prod.fst (k st) = omap («show» .typescript) K) :
    omap Prod.fst (TypeScript.special cfg gens t st k) =
      omap («show» .typescript) (withMap .typescript (tcfgTS cfg) t K) := by
  unfold TypeScript.special withMap lookup
  rw [hkey]
  simp only [tcfgTS]
  cases mapGet cfg.typeMappings t.display with
  | some m => simp [«show»]
  | none => exact h st

mutual
theorem ts_formatType (cfg : TypeScript.Cfg) (gens : List Str) :
    ∀ (t : RustType) (st : TypeScript.CustomMap),
    omap Prod.fst (TypeScript.formatType cfg gens t st) =
      omap («show» .typescript) (translate .typescript (tcfgTS cfg) gens t)
  | .simple id, st => by
    simp only [TypeScript.formatType, translate, withMap, lookup, lookupKey, tcfgTS]
    cases mapGet cfg.typeMappings id <;> simp [«show», userName, prefixes]
    split <;> simp [«show»]
  | .generic id ps, st => by
    simp only [TypeScript.formatType, translate, withMap, lookup, lookupKey, tcfgTS]
    cases hm : mapGet cfg.typeMappings id with
    | some m => simp [«show»]
    | none =>
      have ih := ts_formatTypes cfg gens ps st
      simp only [tcfgTS] at ih
      cases hf : TypeScript.formatTypes cfg gens ps st with
      | ok p =>
        obtain ⟨strs, st'⟩ := p
        obtain ⟨args, ha, hs⟩ := proj_ok ih hf
        simp only [ha, Outcome.bind_ok, omap_ok, show_user, hs, Option.getD_none, userName, prefixes,
          Bool.false_and, brOpen, brClose, angle]
        rfl
      | err e => simp [proj_err ih hf]
      | panic e => simp [proj_panic ih hf]
  | .vec r, st => by
    simp only [TypeScript.formatType, translate]
    apply ts_special _ _ _ _ _ _ (by simp [lookupKey, usesDisplay])
    intro st
    apply proj_bind _ _ _ (ts_formatType cfg gens r st)
    intro s c
    simp [«show»]
  | .slice r, st => by
    simp only [TypeScript.formatType, translate]
    apply ts_special _ _ _ _ _ _ (by simp [lookupKey, usesDisplay])
    intro st
    apply proj_bind _ _ _ (ts_formatType cfg gens r st)
    intro s c
    simp [«show»]
  | .array r n, st => by
    simp only [TypeScript.formatType, translate]
    apply ts_special _ _ _ _ _ _ (by simp [lookupKey, usesDisplay])
    intro st
    apply proj_bind _ _ _ (ts_formatType cfg gens r st)
    intro s c
    simp [«show», hasFixed]
  | .option r, st => by
    simp only [TypeScript.formatType, translate]
    apply ts_special _ _ _ _ _ _ (by simp [lookupKey, usesDisplay])
    intro st
    have ih := ts_formatType cfg gens r st
    cases ht : translate .typescript (tcfgTS cfg) gens r <;> simp_all [dropsOption]
  | .hashMap k v, st => by
    simp only [TypeScript.formatType, translate]
    apply ts_special _ _ _ _ _ _ (by simp [lookupKey, usesDisplay])
    intro st
    have body : ∀ st, omap Prod.fst
        ((TypeScript.formatType cfg gens k st).bind fun (ks, st) =>
          (TypeScript.formatType cfg gens v st).bind fun (vs, st) =>
            .ok (s%"Record<" ++ ks ++ s%", " ++ vs ++ s%">", st)) =
        omap («show» .typescript)
          ((translate .typescript (tcfgTS cfg) gens k).bind fun a =>
            (translate .typescript (tcfgTS cfg) gens v).bind fun b => .ok (.map a b)) := by
      intro st
      apply proj_bind _ _ _ (ts_formatType cfg gens k st)
      intro s c
      apply proj_bind _ _ _ (ts_formatType cfg gens v s)
      intro s' c'
      simp [«show»]
    cases k with
    | simple id =>
      simp only [genericKeyForbidden, isGenericKey_simple, Bool.true_and]
      split
      · simp
      · exact body st
    | _ => simpa [genericKeyForbidden, isGenericKey] using body st
  | .prim p, st => by
    simp only [TypeScript.formatType, translate]
    apply ts_special _ _ _ _ _ _ (by simp [lookupKey, usesDisplay])
    intro st
    cases p <;> simp [primTarget, «show»]
theorem ts_formatTypes (cfg : TypeScript.Cfg) (gens : List Str) :
    ∀ (ts : List RustType) (st : TypeScript.CustomMap),
    omap Prod.fst (TypeScript.formatTypes cfg gens ts st) =
      omap (showAll .typescript) (translateList .typescript (tcfgTS cfg) gens ts)
  | [], st => by simp [TypeScript.formatTypes, translateList, showAll]
  | t :: ts, st => by
    simp only [TypeScript.formatTypes, translateList]
    apply proj_bind _ _ _ (ts_formatType cfg gens t st)
    intro s c
    apply proj_bind _ _ _ (ts_formatTypes cfg gens ts s)
    intro s' c'
    simp [showAll]
end

/-! ## Kotlin (pure) -/

theorem kt_simple (cfg : Kotlin.Cfg) (gens : List Str) (id : Str) (h : mapGet cfg.typeMappings id = none) :
    Kotlin.formatSimple cfg gens id = userName .kotlin (tcfgKt cfg) gens id := by
  simp only [Kotlin.formatSimple, h, userName, prefixes, tcfgKt, Bool.true_and]
  cases gens.contains id <;> simp

mutual
theorem kt_formatType (cfg : Kotlin.Cfg) (gens : List Str) : ∀ (t : RustType),
    Kotlin.formatType cfg gens t = omap («show» .kotlin) (translate .kotlin (tcfgKt cfg) gens t)
  | .simple id => by
    simp only [Kotlin.formatType, translate, withMap, lookup, lookupKey]
    cases hm : mapGet cfg.typeMappings id with
    | some m => simp [Kotlin.formatSimple, tcfgKt, hm, «show»]
    | none =>
      have : mapGet (tcfgKt cfg).typeMappings id = none := hm
      simp only [this, kt_simple cfg gens id hm, omap_ok, userName, prefixes, Bool.true_and]
      cases gens.contains id <;> simp [«show»]
  | .generic id ps => by
    simp only [Kotlin.formatType, translate, withMap, lookup, lookupKey]
    cases hm : mapGet cfg.typeMappings id with
    | some m => simp [tcfgKt, hm, «show»]
    | none =>
      have : mapGet (tcfgKt cfg).typeMappings id = none := hm
      simp only [this, kt_formatTypes cfg gens ps, kt_simple cfg gens id hm]
      cases translateList .kotlin (tcfgKt cfg) gens ps with
      | ok args => simp only [omap_ok, Outcome.bind_ok, show_user, brOpen, brClose, angle]
      | err e => rfl
      | panic e => rfl
  | .vec r => by
    simp only [Kotlin.formatType, translate, withMap, lookup, lookupKey, usesDisplay, kt_formatType cfg gens r]
    cases translate .kotlin (tcfgKt cfg) gens r <;> simp [«show»]
  | .slice r => by
    simp only [Kotlin.formatType, translate, withMap, lookup, lookupKey, usesDisplay, kt_formatType cfg gens r]
    cases translate .kotlin (tcfgKt cfg) gens r <;> simp [«show»]
  | .array r n => by
    simp only [Kotlin.formatType, translate, withMap, lookup, lookupKey, usesDisplay, kt_formatType cfg gens r]
    cases translate .kotlin (tcfgKt cfg) gens r <;> simp [«show», hasFixed]
  | .option r => by
    simp only [Kotlin.formatType, translate, withMap, lookup, lookupKey, usesDisplay, kt_formatType cfg gens r]
    cases translate .kotlin (tcfgKt cfg) gens r <;> simp [«show», dropsOption]
  | .hashMap k v => by
    simp only [Kotlin.formatType, translate, withMap, lookup, lookupKey, usesDisplay, kt_formatType cfg gens k,
      kt_formatType cfg gens v, genericKeyForbidden]
    cases translate .kotlin (tcfgKt cfg) gens k <;>
      cases translate .kotlin (tcfgKt cfg) gens v <;> simp [«show»]
  | .prim p => by
    simp only [Kotlin.formatType, translate, withMap, lookup, lookupKey, usesDisplay, primTarget]
    cases Kotlin.formatPrim p <;> simp [«show»]
theorem kt_formatTypes (cfg : Kotlin.Cfg) (gens : List Str) : ∀ (ts : List RustType),
    Kotlin.formatTypes cfg gens ts = omap (showAll .kotlin) (translateList .kotlin (tcfgKt cfg) gens ts)
  | [] => by simp [Kotlin.formatTypes, translateList, showAll]
  | t :: ts => by
    simp only [Kotlin.formatTypes, translateList, kt_formatType cfg gens t, kt_formatTypes cfg gens ts]
    cases translate .kotlin (tcfgKt cfg) gens t <;>
      cases translateList .kotlin (tcfgKt cfg) gens ts <;> simp [showAll]
end

/-! ## Scala (pure) -/

mutual
theorem sc_formatType (cfg : Scala.Cfg) (gens : List Str) : ∀ (t : RustType),
    Scala.formatType cfg gens t = omap («show» .scala) (translate .scala (tcfgSc cfg) gens t)
  | .simple id => by
    simp only [Scala.formatType, translate, withMap, lookup, lookupKey, tcfgSc]
    cases mapGet cfg.typeMappings id <;> simp [«show», userName, prefixes]
    split <;> simp [«show»]
  | .generic id ps => by
    simp only [Scala.formatType, translate, withMap, lookup, lookupKey, tcfgSc]
    cases hm : mapGet cfg.typeMappings id with
    | some m => simp [«show»]
    | none =>
      have ih := sc_formatTypes cfg gens ps
      simp only [tcfgSc] at ih
      simp only [ih]
      cases translateList .scala { typeMappings := cfg.typeMappings } gens ps with
      | ok args =>
        simp only [omap_ok, Outcome.bind_ok, show_user, brOpen, brClose, Scala.bracket, userName, prefixes,
          Bool.false_and, Option.getD_none]
        rfl
      | err e => rfl
      | panic e => rfl
  | .vec r => by
    simp only [Scala.formatType, translate, withMap, lookup, lookupKey, usesDisplay, sc_formatType cfg gens r]
    cases translate .scala (tcfgSc cfg) gens r <;> simp [«show»]
  | .slice r => by
    simp only [Scala.formatType, translate, withMap, lookup, lookupKey, usesDisplay, sc_formatType cfg gens r]
    cases translate .scala (tcfgSc cfg) gens r <;> simp [«show»]
  | .array r n => by
    simp only [Scala.formatType, translate, withMap, lookup, lookupKey, usesDisplay, sc_formatType cfg gens r]
    cases translate .scala (tcfgSc cfg) gens r <;> simp [«show», hasFixed]
  | .option r => by
    simp only [Scala.formatType, translate, withMap, lookup, lookupKey, usesDisplay, sc_formatType cfg gens r]
    cases translate .scala (tcfgSc cfg) gens r <;> simp [«show», dropsOption]
  | .hashMap k v => by
    simp only [Scala.formatType, translate, withMap, lookup, lookupKey, usesDisplay, sc_formatType cfg gens k,
      sc_formatType cfg gens v, genericKeyForbidden]
    cases translate .scala (tcfgSc cfg) gens k <;>
      cases translate .scala (tcfgSc cfg) gens v <;> simp [«show»]
  | .prim p => by
    simp only [Scala.formatType, translate, withMap, lookup, lookupKey, usesDisplay]
    cases p <;> simp [primTarget, «show»]
theorem sc_formatTypes (cfg : Scala.Cfg) (gens : List Str) : ∀ (ts : List RustType),
    Scala.formatTypes cfg gens ts = omap (showAll .scala) (translateList .scala (tcfgSc cfg) gens ts)
  | [] => by simp [Scala.formatTypes, translateList, showAll]
  | t :: ts => by
    simp only [Scala.formatTypes, translateList, sc_formatType cfg gens t, sc_formatTypes cfg gens ts]
    cases translate .scala (tcfgSc cfg) gens t <;>
      cases translateList .scala (tcfgSc cfg) gens ts <;> simp [showAll]
end

/-! ## Swift (one bit of state) -/

theorem sw_simple (cfg : Swift.Cfg) (gens : List Str) (id : Str) (h : mapGet cfg.typeMappings id = none) :
    Swift.formatSimple cfg gens id = userName .swift (tcfgSw cfg) gens id := by
  simp only [Swift.formatSimple, h, userName, prefixes, tcfgSw, Bool.true_and]
  cases gens.contains id <;> simp

mutual
theorem sw_formatType (cfg : Swift.Cfg) (gens : List Str) : ∀ (t : RustType) (st : Swift.St),
    omap Prod.fst (Swift.formatType cfg gens t st) =
      omap («show» .swift) (translate .swift (tcfgSw cfg) gens t)
  | .simple id, st => by
    simp only [Swift.formatType, translate, withMap, lookup, lookupKey]
    cases hm : mapGet cfg.typeMappings id with
    | some m => simp [Swift.formatSimple, tcfgSw, hm, «show»]
    | none =>
      have : mapGet (tcfgSw cfg).typeMappings id = none := hm
      simp only [this, sw_simple cfg gens id hm, omap_ok, userName, prefixes, Bool.true_and]
      cases gens.contains id <;> simp [«show»]
  | .generic id ps, st => by
    simp only [Swift.formatType, translate, withMap, lookup, lookupKey]
    cases hm : mapGet cfg.typeMappings id with
    | some m => simp [tcfgSw, hm, «show»]
    | none =>
      have hm' : mapGet (tcfgSw cfg).typeMappings id = none := hm
      have ih := sw_formatTypes cfg gens ps st
      simp only [hm']
      cases hf : Swift.formatTypes cfg gens ps st with
      | ok p =>
        obtain ⟨strs, st'⟩ := p
        obtain ⟨args, ha, hs⟩ := proj_ok ih hf
        simp only [ha, Outcome.bind_ok, omap_ok, show_user, hs, sw_simple cfg gens id hm, brOpen, brClose, angle]
      | err e => simp [proj_err ih hf]
      | panic e => simp [proj_panic ih hf]
  | .vec r, st => by
    simp only [Swift.formatType, translate, withMap, lookup, lookupKey, usesDisplay]
    apply proj_bind _ _ _ (sw_formatType cfg gens r st)
    intro s c; simp [«show»]
  | .slice r, st => by
    simp only [Swift.formatType, translate, withMap, lookup, lookupKey, usesDisplay]
    apply proj_bind _ _ _ (sw_formatType cfg gens r st)
    intro s c; simp [«show»]
  | .array r n, st => by
    simp only [Swift.formatType, translate, withMap, lookup, lookupKey, usesDisplay]
    apply proj_bind _ _ _ (sw_formatType cfg gens r st)
    intro s c; simp [«show», hasFixed]
  | .option r, st => by
    simp only [Swift.formatType, translate, withMap, lookup, lookupKey, usesDisplay]
    apply proj_bind _ _ _ (sw_formatType cfg gens r st)
    intro s c; simp [«show», dropsOption]
  | .hashMap k v, st => by
    simp only [Swift.formatType, translate, withMap, lookup, lookupKey, usesDisplay, genericKeyForbidden,
      Bool.false_and, Bool.false_eq_true, if_false]
    apply proj_bind _ _ _ (sw_formatType cfg gens k st)
    intro s c
    apply proj_bind _ _ _ (sw_formatType cfg gens v s)
    intro s' c'
    simp [«show»]
  | .prim p, st => by
    simp only [Swift.formatType, translate, withMap, lookup, lookupKey, usesDisplay]
    cases p <;> simp [primTarget, «show»]
theorem sw_formatTypes (cfg : Swift.Cfg) (gens : List Str) : ∀ (ts : List RustType) (st : Swift.St),
    omap Prod.fst (Swift.formatTypes cfg gens ts st) =
      omap (showAll .swift) (translateList .swift (tcfgSw cfg) gens ts)
  | [], st => by simp [Swift.formatTypes, translateList, showAll]
  | t :: ts, st => by
    simp only [Swift.formatTypes, translateList]
    apply proj_bind _ _ _ (sw_formatType cfg gens t st)
    intro s c
    apply proj_bind _ _ _ (sw_formatTypes cfg gens ts s)
    intro s' c'
    simp [showAll]
end

/-! ## Go (import set threaded; the generic-parameter list is ignored by the printer) -/

theorem go_special (cfg : Go.Cfg) (t : RustType) (st : Go.Imports)
    (k : Go.Imports → Outcome (Str × Go.Imports)) (K : Outcome TTy)
    (hkey : lookupKey .go t = some t.display)
    (h : ∀ st, omap Prod.fst (k st) = omap («show» .go) K) :
    omap Prod.fst (Go.special cfg t st k) = omap («show» .go) (withMap .go (tcfgGo cfg) t K) := by
  unfold Go.special withMap lookup
  rw [hkey]
  simp only [tcfgGo]
  cases mapGet cfg.typeMappings t.display with
  | some m => simp [«show»]
  | none => exact h st

mutual
theorem go_formatType (cfg : Go.Cfg) (gens : List Str) : ∀ (t : RustType) (st : Go.Imports),
    omap Prod.fst (Go.formatType cfg t st) = omap («show» .go) (translate .go (tcfgGo cfg) gens t)
  | .simple id, st => by
    simp only [Go.formatType, translate, withMap, lookup, lookupKey, tcfgGo]
    cases mapGet cfg.typeMappings id <;> simp [«show», userName, prefixes]
    split <;> simp [«show»]
  | .generic id ps, st => by
    simp only [Go.formatType, translate, withMap, lookup, lookupKey, tcfgGo]
    cases hm : mapGet cfg.typeMappings id with
    | some m => simp [«show»]
    | none =>
      have ih := go_formatTypes cfg gens ps st
      simp only [tcfgGo] at ih
      apply proj_bind _ _ _ ih
      intro s args
      simp only [omap_ok, show_user, Option.getD_none, userName, prefixes, Bool.false_and, brOpen, brClose,
        Go.bracket]
      rfl
  | .vec r, st => by
    simp only [Go.formatType, translate]
    apply go_special _ _ _ _ _ (by simp [lookupKey, usesDisplay])
    intro st
    apply proj_bind _ _ _ (go_formatType cfg gens r st)
    intro s c; simp [«show»]
  | .slice r, st => by
    simp only [Go.formatType, translate]
    apply go_special _ _ _ _ _ (by simp [lookupKey, usesDisplay])
    intro st
    apply proj_bind _ _ _ (go_formatType cfg gens r st)
    intro s c; simp [«show»]
  | .array r n, st => by
    simp only [Go.formatType, translate]
    apply go_special _ _ _ _ _ (by simp [lookupKey, usesDisplay])
    intro st
    apply proj_bind _ _ _ (go_formatType cfg gens r st)
    intro s c; simp [«show», hasFixed]
  | .option r, st => by
    simp only [Go.formatType, translate]
    apply go_special _ _ _ _ _ (by simp [lookupKey, usesDisplay])
    intro st
    apply proj_bind _ _ _ (go_formatType cfg gens r st)
    intro s c
    simp only [dropsOption, tcfgGo]
    by_cases h : (r.isVec && cfg.noPointerSlice) = true <;> simp [h, «show»]
  | .hashMap k v, st => by
    simp only [Go.formatType, translate]
    apply go_special _ _ _ _ _ (by simp [lookupKey, usesDisplay])
    intro st
    simp only [genericKeyForbidden, Bool.false_and, Bool.false_eq_true, if_false]
    apply proj_bind _ _ _ (go_formatType cfg gens k st)
    intro s c
    apply proj_bind _ _ _ (go_formatType cfg gens v s)
    intro s' c'
    simp [«show»]
  | .prim p, st => by
    simp only [Go.formatType, translate]
    apply go_special _ _ _ _ _ (by simp [lookupKey, usesDisplay])
    intro st
    simp only [primTarget, Outcome.bind_ok, omap_ok, «show»]
    rcases h : Go.primType p with ⟨g, _ | imp⟩ <;> simp
theorem go_formatTypes (cfg : Go.Cfg) (gens : List Str) : ∀ (ts : List RustType) (st : Go.Imports),
    omap Prod.fst (Go.formatTypes cfg ts st) = omap (showAll .go) (translateList .go (tcfgGo cfg) gens ts)
  | [], st => by simp [Go.formatTypes, translateList, showAll]
  | t :: ts, st => by
    simp only [Go.formatTypes, translateList]
    apply proj_bind _ _ _ (go_formatType cfg gens t st)
    intro s c
    apply proj_bind _ _ _ (go_formatTypes cfg gens ts s)
    intro s' c'
    simp [showAll]
end

/-! ## Python (imports, type variables, custom-JSON set threaded) -/

theorem py_special (cfg : Python.Cfg) (t : RustType) (st : Python.St)
    (k : Python.St → Outcome (Str × Python.St)) (K : Outcome TTy)
    (hkey : lookupKey .python t = some t.display)
    (h : ∀ st, omap Prod.fst (k st) = omap («show» .python) K) :
    omap Prod.fst (Python.special cfg t st k) = omap («show» .python) (withMap .python (tcfgPy cfg) t K) := by
  unfold Python.special withMap lookup
  rw [hkey]
  simp only [tcfgPy]
  cases mapGet cfg.typeMappings t.display with
  | some m => simp [«show»]
  | none => exact h st

mutual
theorem py_formatType (cfg : Python.Cfg) (gens : List Str) : ∀ (t : RustType) (st : Python.St),
    omap Prod.fst (Python.formatType cfg gens t st) =
      omap («show» .python) (translate .python (tcfgPy cfg) gens t)
  | .simple id, st => by
    simp only [Python.formatType, Python.formatSimple, translate, withMap, lookup, lookupKey, tcfgPy]
    cases mapGet cfg.typeMappings id <;> simp [«show», userName, prefixes]
    split <;> simp [«show»]
  | .generic id ps, st => by
    simp only [Python.formatType, translate, withMap, lookup, lookupKey, tcfgPy]
    cases hm : mapGet cfg.typeMappings id with
    | some m => simp [«show»]
    | none =>
      have ih := py_formatTypes cfg gens ps (Python.addImports st id)
      simp only [tcfgPy] at ih
      cases hf : Python.formatTypes cfg gens ps (Python.addImports st id) with
      | ok p =>
        obtain ⟨strs, st'⟩ := p
        obtain ⟨args, ha, hs⟩ := proj_ok ih hf
        simp only [ha, Outcome.bind_ok, omap_ok, show_user, hs, Python.formatSimple, hm, Option.getD_none,
          userName, prefixes, Bool.false_and, brOpen, brClose, Python.bracketSuffix, Python.bracket]
        rfl
      | err e => simp [proj_err ih hf]
      | panic e => simp [proj_panic ih hf]
  | .vec r, st => by
    simp only [Python.formatType, translate]
    apply py_special _ _ _ _ _ (by simp [lookupKey, usesDisplay])
    intro st
    apply proj_bind _ _ _ (py_formatType cfg gens r _)
    intro s c; simp [«show»]
  | .slice r, st => by
    simp only [Python.formatType, translate]
    apply py_special _ _ _ _ _ (by simp [lookupKey, usesDisplay])
    intro st
    apply proj_bind _ _ _ (py_formatType cfg gens r _)
    intro s c; simp [«show»]
  | .array r n, st => by
    simp only [Python.formatType, translate]
    apply py_special _ _ _ _ _ (by simp [lookupKey, usesDisplay])
    intro st
    apply proj_bind _ _ _ (py_formatType cfg gens r _)
    intro s c; simp [«show», hasFixed]
  | .option r, st => by
    simp only [Python.formatType, translate]
    apply py_special _ _ _ _ _ (by simp [lookupKey, usesDisplay])
    intro st
    apply proj_bind _ _ _ (py_formatType cfg gens r _)
    intro s c; simp [«show», dropsOption]
  | .hashMap k v, st => by
    simp only [Python.formatType, translate]
    apply py_special _ _ _ _ _ (by simp [lookupKey, usesDisplay])
    intro st
    have body : ∀ st, omap Prod.fst
        ((Python.formatType cfg gens k st).bind fun (ks, st) =>
          (Python.formatType cfg gens v st).bind fun (vs, st) =>
            .ok (s%"Dict[" ++ ks ++ s%", " ++ vs ++ s%"]", st)) =
        omap («show» .python)
          ((translate .python (tcfgPy cfg) gens k).bind fun a =>
            (translate .python (tcfgPy cfg) gens v).bind fun b => .ok (.map a b)) := by
      intro st
      apply proj_bind _ _ _ (py_formatType cfg gens k st)
      intro s c
      apply proj_bind _ _ _ (py_formatType cfg gens v s)
      intro s' c'
      simp [«show»]
    cases k with
    | simple id =>
      simp only [genericKeyForbidden, isGenericKey_simple, Bool.true_and]
      split
      · simp
      · exact body _
    | _ => simpa [genericKeyForbidden, isGenericKey] using body _
  | .prim p, st => by
    simp only [Python.formatType, translate]
    apply py_special _ _ _ _ _ (by simp [lookupKey, usesDisplay])
    intro st
    cases p <;> simp [primTarget, «show»]
theorem py_formatTypes (cfg : Python.Cfg) (gens : List Str) : ∀ (ts : List RustType) (st : Python.St),
    omap Prod.fst (Python.formatTypes cfg gens ts st) =
      omap (showAll .python) (translateList .python (tcfgPy cfg) gens ts)
  | [], st => by simp [Python.formatTypes, translateList, showAll]
  | t :: ts, st => by
    simp only [Python.formatTypes, translateList]
    apply proj_bind _ _ _ (py_formatType cfg gens t st)
    intro s c
    apply proj_bind _ _ _ (py_formatTypes cfg gens ts s)
    intro s' c'
    simp [showAll]
end

end TsV.C05L
