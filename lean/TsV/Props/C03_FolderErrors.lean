import TsV.Lemmas.C03_FolderErrors
import TsV.Lemmas.Outcome
/-!
# C03_FolderErrors — an annotated item that cannot be generated is reported, whichever crate holds it

C03: an annotated item is generated or the run reports it.  `Props/C03_Emission.lean`
(`run_reports_errors`) states the error half for a single file.  This module states it for a **folder
run**: many files, many crates, any arrival order.

What is modelled (nothing had to be added): `Pipeline.addAssign` is `impl AddAssign for ParsedData`
(`errors := a.errors ++ b.errors`), `Pipeline.collect` the collector fold into the name-ordered crate
map, `Pipeline.allErrors` is `check_parse_errors` (every crate's list, in map order) and `Generate.run`
leaves through `.parseErrors errs` exactly when that list is not empty.

* `merge_appends_errors`, `crate_errors`: the merge appends; the entry of a crate holds its files'
  errors concatenated in arrival order;
* `no_error_lost`: the errors the run sees are, as a multiset (`List.Perm`), the errors of all per-file
  results — `arrival_order_irrelevant`: two arrival orders report the same multiset;
* `reconcile_keeps_errors`: `reconcile_aliases` does not touch them;
* `fails_iff_some_crate`, `position_irrelevant`, `clean_neighbours`, `map_order_irrelevant`: the exit
  depends on *whether some crate has an error*, not on where that crate stands in the map nor on the
  clean crates around it; with clean neighbours the report is exactly that crate's list;
* `run_fails_iff`: `Generate.run` returns `.parseErrors errs` iff some crate of the collected map (iff
  some arrived file) has a non-empty error list, and then `errs` is `allErrors` of the collected map;
  otherwise it never returns `.parseErrors`;
* `erroneous_file_arrives`, `arrivals_of_files`: a file whose visit recorded an error is not dropped by
  `parser::parse` (the "nothing annotated here" shortcut asks for an empty error list too), and the
  arrivals are exactly the non-dropped per-file results.
* `C03_FolderErrors : C03_FolderErrors_full`.  Nothing is false on the model.
-/
namespace TsV.C03_FolderErrors
open TsV TsV.Pipeline TsV.Collect TsV.C06M TsV.Generate

/-! ## 1. the merge -/

/-- **`AddAssign` appends the error lists** -/
theorem merge_appends_errors (a b : ParsedData) : (addAssign a b).errors = a.errors ++ b.errors := rfl

/-- **the entry of crate `c` in the collected map holds the errors of the files of `c`, concatenated in
arrival order** (and there is an entry for every crate with an arrival: `C06M.collect_key_iff`) -/
theorem crate_errors (a : List ParsedData) (c : Str) (v : ParsedData) (h : (c, v) ∈ collect a) :
    v.errors = (a.filter fun d => d.crateName == c).flatMap (·.errors) := entry_errors a h

/-- **no error is lost**: what `check_parse_errors` iterates over is a permutation of all the errors of
all the per-file results -/
theorem no_error_lost (a : List ParsedData) : (allErrors (collect a)).Perm (a.flatMap (·.errors)) :=
  allErrors_collect_perm a

/-- … so the arrival order of the files (the walker's threads) does not change the multiset reported -/
theorem arrival_order_irrelevant (a b : List ParsedData) (h : a.Perm b) :
    (allErrors (collect a)).Perm (allErrors (collect b)) :=
  (no_error_lost a).trans ((flatMap_perm_of_perm _ h).trans (no_error_lost b).symm)

/-- `reconcile_aliases` leaves every crate's error list as it is -/
theorem reconcile_keeps_errors (m : List (Str × ParsedData)) :
    allErrors (reconcile m) = allErrors m ∧
    (reconcile m).map (fun p => (p.1, p.2.errors)) = m.map fun p => (p.1, p.2.errors) :=
  ⟨allErrors_reconcile m, reconcile_errors m⟩

/-! ## 2. the exit test -/

/-- **the test fires iff some crate has an error** -/
theorem fails_iff_some_crate (m : List (Str × ParsedData)) : allErrors m ≠ [] ↔ ∃ p ∈ m, p.2.errors ≠ [] := by
  rw [Ne, allErrors_nil_iff]
  constructor
  · intro h
    exact Classical.byContradiction fun hn => h fun p hp => Classical.byContradiction fun he => hn ⟨p, hp, he⟩
  · rintro ⟨p, hp, he⟩ h
    exact he (h p hp)

/-- **wherever the crate stands**: first, last or between any crates -/
theorem position_irrelevant (pre post : List (Str × ParsedData)) (x : Str × ParsedData) (h : x.2.errors ≠ []) :
    allErrors (pre ++ x :: post) ≠ [] :=
  (fails_iff_some_crate _).2 ⟨x, by simp, h⟩

/-- **clean crates around it change nothing**: the report is that crate's list -/
theorem clean_neighbours (pre post : List (Str × ParsedData)) (x : Str × ParsedData)
    (hpre : ∀ p ∈ pre, p.2.errors = []) (hpost : ∀ p ∈ post, p.2.errors = []) :
    allErrors (pre ++ x :: post) = x.2.errors := by
  rw [allErrors_append, (allErrors_nil_iff pre).2 hpre]
  show allErrors ([x] ++ post) = _
  rw [allErrors_append, (allErrors_nil_iff post).2 hpost]
  simp [allErrors]

/-- the same crates in another order: the same verdict and the same multiset -/
theorem map_order_irrelevant (m m' : List (Str × ParsedData)) (h : m.Perm m') :
    (allErrors m).Perm (allErrors m') ∧ (allErrors m = [] ↔ allErrors m' = []) := by
  have hp : (allErrors m).Perm (allErrors m') := flatMap_perm_of_perm _ h
  exact ⟨hp, ⟨fun e => List.Perm.eq_nil (e ▸ hp.symm), fun e => List.Perm.eq_nil (e ▸ hp)⟩⟩

/-! ## 3. the run -/

theorem isEmpty_false {α} {l : List α} (h : l ≠ []) : l.isEmpty = false := by
  cases l with
  | nil => exact absurd rfl h
  | cons _ _ => rfl

/-- the run's two exits, given what the files parsed to -/
theorem run_exit (E : Ext) (lang : LangCfg) (multiFile : Bool) (targetOs : List Str)
    (pick : List ImportedType → Option ImportedType) (files : List SourceFile) (arrivals : List ParsedData)
    (h : parseAll E { ignoredTypes := ignoredTypes lang, multiFile, targetOs } pick files = .ok arrivals) :
    (allErrors (collect arrivals) ≠ [] →
      run E lang multiFile targetOs pick files = .ok (.parseErrors (allErrors (collect arrivals)))) ∧
    (allErrors (collect arrivals) = [] → ∀ errs, run E lang multiFile targetOs pick files ≠ .ok (.parseErrors errs)) := by
  unfold run
  simp only [h, Outcome.bind_ok, allErrors_reconcile]
  constructor
  · intro hne
    simp [isEmpty_false hne]
  · intro he errs
    simp only [he, List.isEmpty_nil, Bool.not_true, Bool.false_eq_true, if_false]
    intro hh
    obtain ⟨o, _, ho⟩ := (Outcome.bind_eq_ok _ _ _).1 hh
    cases ho

/-- **the run fails with the parse errors iff some crate's merged data has an error — iff some
arrived file has one**; the errors reported are those of the whole map -/
theorem run_fails_iff (E : Ext) (lang : LangCfg) (multiFile : Bool) (targetOs : List Str)
    (pick : List ImportedType → Option ImportedType) (files : List SourceFile) (arrivals : List ParsedData)
    (h : parseAll E { ignoredTypes := ignoredTypes lang, multiFile, targetOs } pick files = .ok arrivals) :
    ((∃ errs, run E lang multiFile targetOs pick files = .ok (.parseErrors errs)) ↔
      ∃ p ∈ collect arrivals, p.2.errors ≠ []) ∧
    ((∃ p ∈ collect arrivals, p.2.errors ≠ []) ↔ ∃ d ∈ arrivals, d.errors ≠ []) ∧
    (∀ errs, run E lang multiFile targetOs pick files = .ok (.parseErrors errs) →
      errs = allErrors (collect arrivals) ∧ errs.Perm (arrivals.flatMap (·.errors))) := by
  obtain ⟨h1, h2⟩ := run_exit E lang multiFile targetOs pick files arrivals h
  have key : ∀ errs, run E lang multiFile targetOs pick files = .ok (.parseErrors errs) →
      allErrors (collect arrivals) ≠ [] ∧ errs = allErrors (collect arrivals) := by
    intro errs hr
    by_cases he : allErrors (collect arrivals) = []
    · exact absurd hr (h2 he errs)
    · rw [h1 he] at hr
      cases hr
      exact ⟨he, rfl⟩
  refine ⟨⟨fun ⟨errs, hr⟩ => (fails_iff_some_crate _).1 (key errs hr).1,
    fun hp => ⟨_, h1 ((fails_iff_some_crate _).2 hp)⟩⟩, ?_, fun errs hr => ?_⟩
  · rw [← fails_iff_some_crate]
    constructor
    · intro hne
      have hne' : arrivals.flatMap (·.errors) ≠ [] := fun e => hne (List.Perm.eq_nil (e ▸ no_error_lost arrivals))
      exact Classical.byContradiction fun hn => hne' (List.flatMap_eq_nil_iff.2 fun d hd =>
        Classical.byContradiction fun he => hn ⟨d, hd, he⟩)
    · rintro ⟨d, hd, he⟩ hnil
      have : arrivals.flatMap (·.errors) = [] := List.Perm.eq_nil (hnil ▸ (no_error_lost arrivals).symm)
      exact he (List.flatMap_eq_nil_iff.1 this d hd)
  · obtain ⟨_, rfl⟩ := key errs hr
    exact ⟨rfl, no_error_lost arrivals⟩

/-! ## 4. from the files to the arrivals -/

/-- **a file whose visit recorded an error arrives**: `parser::parse` drops a result only when it has
no item *and no error*; in folder mode `reconcile_referenced_types` keeps the error list -/
theorem erroneous_file_arrives (E : Ext) (ctx : ParseContext) (pick : List ImportedType → Option ImportedType)
    (crateName fileName filePath : Str) (f : Syn.File) (d : ParsedData) (hm : f.marker = true)
    (hv : Visitor.visitFile E ctx crateName fileName filePath f = .ok d) (he : d.errors ≠ []) :
    ∃ d', Visitor.parseFile E ctx pick crateName fileName filePath f = .ok (some d') ∧ d'.errors = d.errors ∧
      d'.crateName = d.crateName := by
  have hne : Visitor.isEmpty d = false := by
    simp [Visitor.isEmpty, isEmpty_false he]
  unfold Visitor.parseFile
  simp only [hm, Bool.not_true, Bool.false_eq_true, if_false, hv, Outcome.bind_ok, hne]
  by_cases hmf : d.multiFile = true
  · exact ⟨Visitor.reconcileReferencedTypes E.U pick d, by simp only [hmf, if_true]; rfl, rfl, rfl⟩
  · exact ⟨d, by simp only [hmf]; rfl, rfl, rfl⟩

/-- **the arrivals are the per-file results that were not dropped**, in file order -/
theorem arrivals_of_files (E : Ext) (ctx : ParseContext) (pick : List ImportedType → Option ImportedType) :
    ∀ (files : List SourceFile) (arrivals : List ParsedData), parseAll E ctx pick files = .ok arrivals →
      ∀ d, d ∈ arrivals ↔
        ∃ f ∈ files, Visitor.parseFile E ctx pick f.crateName f.fileName f.path f.file = .ok (some d)
  | [], arrivals, h, d => by
    simp only [parseAll, Outcome.ok.injEq] at h
    subst h; simp
  | f :: fs, arrivals, h, d => by
    simp only [parseAll] at h
    obtain ⟨r, hr, h⟩ := (Outcome.bind_eq_ok _ _ _).1 h
    obtain ⟨rest, hrest, h⟩ := (Outcome.bind_eq_ok _ _ _).1 h
    have ih := arrivals_of_files E ctx pick fs rest hrest d
    simp only [Outcome.ok.injEq] at h
    subst h
    cases r with
    | none =>
      simp only [List.mem_cons, exists_eq_or_imp, hr, Outcome.ok.injEq, reduceCtorEq, false_or]
      exact ih
    | some d0 =>
      simp only [List.mem_cons, exists_eq_or_imp, hr, Outcome.ok.injEq, Option.some.injEq, ih]
      constructor
      · rintro (rfl | h)
        · exact .inl rfl
        · exact .inr h
      · rintro (rfl | h)
        · exact .inl rfl
        · exact .inr h

/-- **whichever crate holds it**: if any file of the run — of any crate — parses to a result with an
error, the run leaves through the error exit and the error is among those reported -/
theorem file_error_fails_run (E : Ext) (lang : LangCfg) (multiFile : Bool) (targetOs : List Str)
    (pick : List ImportedType → Option ImportedType) (files : List SourceFile) (arrivals : List ParsedData)
    (h : parseAll E { ignoredTypes := ignoredTypes lang, multiFile, targetOs } pick files = .ok arrivals)
    (f : SourceFile) (hf : f ∈ files) (d : ParsedData)
    (hp : Visitor.parseFile E { ignoredTypes := ignoredTypes lang, multiFile, targetOs } pick f.crateName f.fileName f.path
      f.file = .ok (some d)) (e : ErrKind × Str) (he : e ∈ d.errors) :
    ∃ errs, run E lang multiFile targetOs pick files = .ok (.parseErrors errs) ∧ e ∈ errs := by
  have hd : d ∈ arrivals := (arrivals_of_files E _ pick files arrivals h d).2 ⟨f, hf, hp⟩
  have hmem : e ∈ allErrors (collect arrivals) :=
    (no_error_lost arrivals).symm.subset (List.mem_flatMap.2 ⟨d, hd, he⟩)
  have hne : allErrors (collect arrivals) ≠ [] := fun h0 => by rw [h0] at hmem; cases hmem
  exact ⟨_, (run_exit E lang multiFile targetOs pick files arrivals h).1 hne, hmem⟩

/-! ## the statement at full strength -/

/-- **C03_FolderErrors**: for every language, mode, set of files and arrival order — (1) the merge
appends error lists and the collected map holds, per crate, its files' errors in arrival order, as a
multiset all errors of all files, independent of the arrival order; (2) the error exit is taken iff
some crate (iff some file) has an error, reporting the whole map's errors; position in the map and
clean neighbours play no role; (3) a file with an error is never dropped before the collector. -/
def C03_FolderErrors_full : Prop :=
  (∀ a b : ParsedData, (addAssign a b).errors = a.errors ++ b.errors) ∧
  (∀ (a : List ParsedData) (c : Str) (v : ParsedData), (c, v) ∈ collect a →
    v.errors = (a.filter fun d => d.crateName == c).flatMap (·.errors)) ∧
  (∀ a : List ParsedData, (allErrors (collect a)).Perm (a.flatMap (·.errors))) ∧
  (∀ a b : List ParsedData, a.Perm b → (allErrors (collect a)).Perm (allErrors (collect b))) ∧
  (∀ m : List (Str × ParsedData), allErrors (reconcile m) = allErrors m) ∧
  (∀ (pre post : List (Str × ParsedData)) (x : Str × ParsedData),
    (x.2.errors ≠ [] → allErrors (pre ++ x :: post) ≠ []) ∧
    ((∀ p ∈ pre, p.2.errors = []) → (∀ p ∈ post, p.2.errors = []) → allErrors (pre ++ x :: post) = x.2.errors)) ∧
  (∀ m m' : List (Str × ParsedData), m.Perm m' → (allErrors m = [] ↔ allErrors m' = [])) ∧
  (∀ (E : Ext) (lang : LangCfg) (multiFile : Bool) (targetOs : List Str) (pick : List ImportedType → Option ImportedType)
    (files : List SourceFile) (arrivals : List ParsedData),
    parseAll E { ignoredTypes := ignoredTypes lang, multiFile, targetOs } pick files = .ok arrivals →
    ((∃ errs, run E lang multiFile targetOs pick files = .ok (.parseErrors errs)) ↔
      ∃ p ∈ collect arrivals, p.2.errors ≠ []) ∧
    ((∃ p ∈ collect arrivals, p.2.errors ≠ []) ↔ ∃ d ∈ arrivals, d.errors ≠ []) ∧
    (∀ errs, run E lang multiFile targetOs pick files = .ok (.parseErrors errs) →
      errs = allErrors (collect arrivals) ∧ errs.Perm (arrivals.flatMap (·.errors))) ∧
    (∀ d, d ∈ arrivals ↔ ∃ f ∈ files,
      Visitor.parseFile E { ignoredTypes := ignoredTypes lang, multiFile, targetOs } pick f.crateName f.fileName f.path f.file =
        .ok (some d))) ∧
  (∀ (E : Ext) (ctx : ParseContext) (pick : List ImportedType → Option ImportedType) (crateName fileName filePath : Str)
    (f : Syn.File) (d : ParsedData), f.marker = true → Visitor.visitFile E ctx crateName fileName filePath f = .ok d →
    d.errors ≠ [] →
    ∃ d', Visitor.parseFile E ctx pick crateName fileName filePath f = .ok (some d') ∧ d'.errors = d.errors ∧
      d'.crateName = d.crateName)

theorem C03_FolderErrors : C03_FolderErrors_full :=
  ⟨merge_appends_errors, crate_errors, no_error_lost, arrival_order_irrelevant, allErrors_reconcile,
   fun pre post x => ⟨position_irrelevant pre post x, clean_neighbours pre post x⟩,
   fun m m' h => (map_order_irrelevant m m' h).2,
   fun E lang mf os pick files arrivals h =>
     ⟨(run_fails_iff E lang mf os pick files arrivals h).1, (run_fails_iff E lang mf os pick files arrivals h).2.1,
      (run_fails_iff E lang mf os pick files arrivals h).2.2, arrivals_of_files E _ pick files arrivals h⟩,
   fun E ctx pick c fn p f d hm hv he => erroneous_file_arrives E ctx pick c fn p f d hm hv he⟩

/-! ## non-vacuity: three crates `alpha`, `beta`, `gamma`; two files of `beta`; one error each in a
file of the first / middle / last crate -/

def fileOf (crate file : Str) (errs : List (ErrKind × Str)) : ParsedData :=
  { crateName := crate, fileName := crate ++ s%".ts", multiFile := true, errors := errs,
    typeNames := [file] }

def eA : ErrKind × Str := (.unsupportedType, s%"alpha/src/lib.rs")
def eB : ErrKind × Str := (.unsupportedItem, s%"beta/src/x.rs")
def eB' : ErrKind × Str := (.serdeTagRequired, s%"beta/src/lib.rs")
def eC : ErrKind × Str := (.rustConstExprInvalid, s%"gamma/src/lib.rs")

/-- the error is reported from the first, the middle and the last crate of the map, whatever the
arrival order; two files of one crate: both errors, in arrival order -/
theorem position_example :
    allErrors (collect [fileOf s%"gamma" s%"G" [], fileOf s%"alpha" s%"A" [eA], fileOf s%"beta" s%"B" []]) = [eA] ∧
    allErrors (collect [fileOf s%"gamma" s%"G" [], fileOf s%"beta" s%"B" [eB], fileOf s%"alpha" s%"A" [],
      fileOf s%"beta" s%"B2" []]) = [eB] ∧
    allErrors (collect [fileOf s%"gamma" s%"G" [eC], fileOf s%"beta" s%"B" [], fileOf s%"alpha" s%"A" []]) = [eC] ∧
    allErrors (collect [fileOf s%"gamma" s%"G" [eC], fileOf s%"beta" s%"B" [eB], fileOf s%"alpha" s%"A" [eA],
      fileOf s%"beta" s%"B2" [eB']]) = [eA, eB, eB', eC] ∧
    allErrors (collect [fileOf s%"beta" s%"B2" [eB'], fileOf s%"alpha" s%"A" [eA], fileOf s%"beta" s%"B" [eB],
      fileOf s%"gamma" s%"G" [eC]]) = [eA, eB', eB, eC] ∧
    (collect [fileOf s%"gamma" s%"G" [], fileOf s%"alpha" s%"A" [eA], fileOf s%"beta" s%"B" []]).map (·.1) =
      [s%"alpha", s%"beta", s%"gamma"] := by
  decide +kernel

/-- the hypotheses of `clean_neighbours` / `position_irrelevant` on the witness -/
example : (∀ p ∈ [(s%"alpha", fileOf s%"alpha" s%"A" [])], p.2.errors = []) ∧
    (s%"beta", fileOf s%"beta" s%"B" [eB]).2.errors ≠ [] := by
  refine ⟨?_, by decide⟩
  intro p hp
  simp only [List.mem_cons, List.not_mem_nil, or_false] at hp
  subst hp; rfl

end TsV.C03_FolderErrors
