import TsV.Lemmas.C11_Modules
import TsV.Props.C11_Coverage
import TsV.Props.C03_Emission
/-!
# C11, folder output — the module of a crate holds exactly that crate's items, each once

`Generate.run … (multiFile := true)` parses the files (`arrivals`), folds them per crate
(`collect`), reconciles (`reconcile`) and hands one job per crate to the back end.

* `C11_Modules` (`C11_Modules_full`), all six back ends: a run that produces output writes one
  module per crate of the run — the crates are the crate names of the arrivals, each once, in map
  order — followed only by Swift's `post_generation` file.  The module of crate `c` is the back
  end's `generate_types` of the job of `c` alone (`ModuleOf`; with the printer state the earlier
  crates left, for the back ends that have one).  It consists of one block per item
  (`BlockOf`: what `write_item` prints for it), the items written being — up to order — exactly the
  reconciled items of the arrivals of crate `c` (`recItemI`; same kinds and identifiers,
  `itemKey`), each once.  Nothing here mentions the other crates: names may coincide across crates.
* `C11_Modules_independent`: kinds, identifiers and pre-`topsort` order of a module's items are
  the same in any two runs in which crate `c` has the same arrivals, whatever the other crates
  define (the types inside the items may differ through the shared rename table).
* `C11_Modules_order`: the back ends that sort (`TypeScript`, `Kotlin`, `Swift`, `Go`, `Python`)
  write the module in `topsort` order of the module's own items, so `C11.C11_order` applies module
  by module; Scala writes `ParsedData` order.
-/
namespace TsV.C11_Modules
open TsV TsV.Lang TsV.Generate TsV.Pipeline TsV.Collect TsV.C06M TsV.C11M TsV.C12L TsV.C03E

/-- `b` is what the back end's `write_item` prints for `it` (in some printer state) -/
def BlockOf (E : Ext) : LangCfg → RustItem → Str → Prop
  | .typescript cfg, it, b => ∃ st st', TypeScript.writeItem E.U cfg it st = .ok (b, st')
  | .kotlin cfg, it, b => Kt.writeItem cfg it = .ok b
  | .swift cfg, it, b => ∃ st st', Swift.writeItem E.U cfg it st = .ok (b, st')
  | .scala cfg, it, b => Sc.writeItem cfg it = .ok b
  | .go cfg, it, b => ∃ cs st st', Go.writeItem E.U cfg cs it st = .ok (b, st')
  | .python cfg, it, b => ∃ st st', Python.writeItem E cfg it st = .ok (b, st')

/-- does the back end order a module with `topsort`? -/
def sorts : LangCfg → Bool
  | .scala _ => false
  | _ => true

/-- a module text made of one block per item of `items`, in that order, between header, (Scala:
package scaffolding in the middle) and footer -/
def MadeOf (E : Ext) (lang : LangCfg) (items : List RustItem) (text : Str) : Prop :=
  ∃ blocks : List Str, Paired (BlockOf E lang) items blocks ∧
    ∃ (pre mid post : Str) (n : Nat),
      text = pre ++ (blocks.take n).flatten ++ mid ++ (blocks.drop n).flatten ++ post

theorem paired_imp {α β} {R S : α → β → Prop} (h : ∀ a b, R a b → S a b) : ∀ {l1 : List α} {l2 : List β},
    Paired R l1 l2 → Paired S l1 l2
  | _, _, .nil => .nil
  | _, _, .cons hr t => .cons (h _ _ hr) (paired_imp h t)

/-- **one module**: the items written are a permutation of the job's items (`topsort` order for the
sorting back ends, `ParsedData` order for Scala), one block each -/
theorem module_blocks (E : Ext) (lang : LangCfg) (j : Job) (text : Str) (h : ModuleOf E lang j text) :
    ∃ items, items.Perm (itemsOf j.2.1) ∧
      (if sorts lang then generateOrder j.2.1 = some items else items = itemsOf j.2.1) ∧
      MadeOf E lang items text := by
  cases lang with
  | typescript cfg =>
    obtain ⟨st, st', hg⟩ := h
    obtain ⟨items, blocks, ho, ht, _, htext⟩ := C03_Emission.blocks_typescript E.U cfg j.2.1 j.2.2 st text st' hg
    refine ⟨items, generateOrder_perm _ _ ho, ho, blocks, paired_imp (fun it b hb => hb) ht.forall₂,
      TS.header cfg j.2.2, [], TypeScript.endFile st', 0, ?_⟩
    simp [htext]
  | kotlin cfg =>
    obtain ⟨items, blocks, ho, hp, _, htext⟩ := C03_Emission.blocks_kotlin cfg j.2.1 j.2.2 text h
    refine ⟨items, generateOrder_perm _ _ ho, ho, blocks, hp, Kt.header cfg j.2.1 j.2.2, [], [], 0, ?_⟩
    simp [htext]
  | swift cfg =>
    obtain ⟨st, st', hg⟩ := h
    obtain ⟨items, blocks, ho, ht, _, htext⟩ := C03_Emission.blocks_swift E.U cfg true j.2.1 st text st' hg
    refine ⟨items, generateOrder_perm _ _ ho, ho, blocks, paired_imp (fun it b hb => hb) ht.forall₂,
      Swift.beginFile cfg, [], Swift.endFile cfg true st', 0, ?_⟩
    simp [htext]
  | scala cfg =>
    obtain ⟨blocks, hp, _, _, htext⟩ := C03_Emission.blocks_scala cfg j.2.1 text h
    exact ⟨itemsOf j.2.1, List.Perm.refl _, rfl, blocks, hp, Sc.pre cfg j.2.1, Sc.mid cfg j.2.1, Sc.post j.2.1,
      j.2.1.aliases.length, htext⟩
  | go cfg =>
    obtain ⟨st, st', hg⟩ := h
    obtain ⟨items, blocks, ho, ht, _, htext⟩ := C03_Emission.blocks_go E.U cfg j.2.1 st text st' hg
    refine ⟨items, generateOrder_perm _ _ ho, ho, blocks,
      paired_imp (fun it b ⟨s, s', hb⟩ => ⟨_, s, s', hb⟩) ht.forall₂,
      Go.beginFile cfg ++ Go.renderImports st', [], [], 0, ?_⟩
    simp [htext]
  | python cfg =>
    obtain ⟨st, st', hg⟩ := h
    obtain ⟨items, blocks, st1, ho, ht, _, _, htext⟩ := C03_Emission.blocks_python E cfg j.2.1 st text st' hg
    refine ⟨items, generateOrder_perm _ _ ho, ho, blocks, paired_imp (fun it b hb => hb) ht.forall₂,
      Python.beginFile cfg ++ Python.writeAllImports st' ++ Python.writeCustomFns st', [], [], 0, ?_⟩
    simp [htext]

/-! ## the run -/

/-- a folder run that produces output: the arrivals, no parse error, one module per job, then the
post-generation files -/
theorem run_modules (E : Ext) (lang : LangCfg) (targetOs : List Str)
    (pick : List ImportedType → Option ImportedType) (files : List SourceFile) (outs : List (Str × Str))
    (h : Generate.run E lang true targetOs pick files = .ok (.outputs outs)) :
    ∃ arrivals mods post,
      parseAll E { ignoredTypes := ignoredTypes lang, multiFile := true, targetOs } pick files = .ok arrivals ∧
      allErrors (reconcile (collect arrivals)) = [] ∧
      outs = mods ++ post ∧ Mods (ModuleOf E lang) (jobsWith id (collect arrivals)) mods ∧
      postOf lang (jobsWith id (collect arrivals)) post := by
  rw [run_multi_eq] at h
  obtain ⟨arrivals, ha, h⟩ := C11M.bindOk h
  simp only at h
  split at h
  · simp at h
  · rename_i he
    obtain ⟨o, ho, h⟩ := C11M.bindOk h
    simp only [Outcome.ok.injEq, RunResult.outputs.injEq] at h
    subst h
    obtain ⟨mods, post, hsplit, hm, hp⟩ := generateAll_mods E lang _ o ho
    refine ⟨arrivals, mods, post, ha, ?_, hsplit, hm, hp⟩
    simpa using he

/-- the reconciled items of crate `c` in a run with arrivals `a` -/
def crateItems (a : List ParsedData) (c : Str) : List RustItem :=
  ((arr a c).flatMap itemsOf).map
    (recItemI c (collectSerdeRenames (collect a)) (merged {} (arr a c)).importTypes)

theorem crateItems_keys (a : List ParsedData) (c : Str) :
    (crateItems a c).map itemKey = ((arr a c).flatMap itemsOf).map itemKey := by
  unfold crateItems
  rw [List.map_map]
  apply List.map_congr_left
  intro it _
  exact itemKey_rec _ _ _ it

/-- the items of the job of crate `c` are the reconciled items of the arrivals of `c`, each once -/
theorem job_items (a : List ParsedData) (j : Job) (h : j ∈ jobsWith id (collect a)) :
    (itemsOf j.2.1).Perm (crateItems a j.1) := by
  obtain ⟨v, hv, hd⟩ := job_entry (collect a) j h
  rw [hd]
  refine (reconcileOne_items_perm _ _ _).trans ?_
  have hve := (collect_entry a hv).1
  unfold crateItems
  rw [← hve]
  exact (entry_items_perm a hv).map _

/-- **C11_Modules at full strength**: every back end, every run in folder mode -/
def C11_Modules_full : Prop :=
  ∀ (E : Ext) (lang : LangCfg) (targetOs : List Str) (pick : List ImportedType → Option ImportedType)
    (files : List SourceFile) (outs : List (Str × Str)),
    Generate.run E lang true targetOs pick files = .ok (.outputs outs) →
    ∃ arrivals mods post,
      parseAll E { ignoredTypes := ignoredTypes lang, multiFile := true, targetOs } pick files = .ok arrivals ∧
      outs = mods ++ post ∧ postOf lang (jobsWith id (collect arrivals)) post ∧
      -- one module per crate of the run, each crate once, in map order
      mods.map (·.1) = (collect arrivals).map (·.1) ∧ (mods.map (·.1)).Nodup ∧
      (∀ c, c ∈ mods.map (·.1) ↔ ∃ d ∈ arrivals, d.crateName = c) ∧
      -- the module of a crate: that crate's items, each once, one block per item
      ∀ p ∈ mods, ∃ j items, j ∈ jobsWith id (collect arrivals) ∧ j.1 = p.1 ∧ ModuleOf E lang j p.2 ∧
        items.Perm (crateItems arrivals p.1) ∧
        (items.map itemKey).Perm (((arr arrivals p.1).flatMap itemsOf).map itemKey) ∧
        (if sorts lang then generateOrder j.2.1 = some items else items = itemsOf j.2.1) ∧
        MadeOf E lang items p.2

/-- **C11_Modules.**  The model satisfies the statement. -/
theorem C11_Modules : C11_Modules_full := by
  intro E lang targetOs pick files outs h
  obtain ⟨arrivals, mods, post, ha, _, hsplit, hm, hp⟩ := run_modules E lang targetOs pick files outs h
  have hnames : mods.map (·.1) = (collect arrivals).map (·.1) := by rw [hm.names, jobsWith_names]
  refine ⟨arrivals, mods, post, ha, hsplit, hp, hnames, ?_, ?_, ?_⟩
  · rw [hnames]; exact (sorted_keys (collect_sorted arrivals)).nodup
  · intro c; rw [hnames]; exact collect_key_iff arrivals c
  · intro p hpm
    obtain ⟨j, hj, hj1, hmod⟩ := hm.mem_out p hpm
    obtain ⟨items, hperm, hord, hmade⟩ := module_blocks E lang j p.2 hmod
    have hji := job_items arrivals j hj
    rw [hj1] at hji
    refine ⟨j, items, hj, hj1, hmod, hperm.trans hji, ?_, hord, hmade⟩
    rw [← crateItems_keys]
    exact (hperm.trans hji).map _

/-! ## independence of the other crates -/

/-- **whatever the other crates define**: if crate `c` has the same arrivals in two runs, its jobs
have items of the same kinds and identifiers in the same pre-`topsort` order -/
theorem C11_Modules_independent (a a' : List ParsedData) (c : Str) (hc : arr a c = arr a' c)
    (j j' : Job) (hj : j ∈ jobsWith id (collect a)) (hj' : j' ∈ jobsWith id (collect a'))
    (h1 : j.1 = c) (h1' : j'.1 = c) :
    (itemsOf j.2.1).map itemKey = (itemsOf j'.2.1).map itemKey := by
  obtain ⟨v, hv, hd⟩ := job_entry (collect a) j hj
  obtain ⟨v', hv', hd'⟩ := job_entry (collect a') j' hj'
  have e1 := (collect_entry a hv).1
  have e2 := (collect_entry a' hv').1
  rw [h1] at e1
  rw [h1', ← hc] at e2
  rw [hd, hd', h1, h1', e1, e2]
  exact reconcile_keys_indep _ _ c _

/-- the crate exists in the second run exactly when it has an arrival there -/
theorem crate_has_job (a : List ParsedData) (c : Str) :
    (∃ j ∈ jobsWith id (collect a), j.1 = c) ↔ arr a c ≠ [] := by
  rw [arr_ne_nil_iff, ← collect_key_iff, ← jobsWith_names]
  simp [List.mem_map]

/-! ## order inside a module -/

/-- `generate_types` sorts the items of the module itself: `topsort` of `itemsOf d` -/
theorem generateOrder_eq (d : ParsedData) : generateOrder d = Deps.topsort (itemsOf d) := rfl

/-- **C11 module by module**: under C11's hypotheses on the items of the module, the sorting back
ends write every definition of the module after the definitions of the module it refers to -/
theorem C11_Modules_order (E : Ext) (lang : LangCfg) (hs : sorts lang = true) (j : Job) (text : Str)
    (h : ModuleOf E lang j text)
    (hd : Deps.NamesDistinct (itemsOf j.2.1)) (hdepth : C11.DepthOk (itemsOf j.2.1))
    (hgu : C11.GenericsUsed (itemsOf j.2.1)) (hac : C11.AcyclicRefs (itemsOf j.2.1)) :
    ∃ items, generateOrder j.2.1 = some items ∧ items.Perm (itemsOf j.2.1) ∧ MadeOf E lang items text ∧
      ∀ (pa pb : Nat) (x y : RustItem), items[pa]? = some x → items[pb]? = some y →
        y.originalName ∈ C11.refsItem x → pb < pa := by
  obtain ⟨items, hperm, hord, hmade⟩ := module_blocks E lang j text h
  rw [hs] at hord
  simp only [if_true] at hord
  obtain ⟨out, htop, _, hbefore⟩ := C11.C11_order (itemsOf j.2.1) hd hdepth hgu hac
  rw [generateOrder_eq, htop] at hord
  simp only [Option.some.injEq] at hord
  subst hord
  exact ⟨out, by rw [generateOrder_eq, htop], hperm, hmade, hbefore⟩

/-! ## non-vacuity: two crates that define a struct of the same name -/

def mkField (name : Str) (ty : RustType) : RustField :=
  { id := ⟨name, name, false⟩, ty, comments := [], hasDefault := false, decorators := [] }
def mkStruct (name : Str) (fields : List RustField) : RustStruct :=
  { id := ⟨name, name, false⟩, genericTypes := [], fields, comments := [], decorators := {}, isRedacted := false }

/-- crate `a`: `struct X { n: u8 }` and (a second file) `struct Y { x: X }`; crate `b`: `struct X { s: String }` -/
def fileA1 : ParsedData := { structs := [mkStruct s%"X" [mkField s%"n" (.prim .u8)]], crateName := s%"a", multiFile := true }
def fileA2 : ParsedData := { structs := [mkStruct s%"Y" [mkField s%"x" (.simple s%"X")]], crateName := s%"a", multiFile := true }
def fileB : ParsedData := { structs := [mkStruct s%"X" [mkField s%"s" (.prim .string)]], crateName := s%"b", multiFile := true }

def exArrivals : List ParsedData := [fileB, fileA1, fileA2]
/-- the same run with another crate `b` (it defines `Y`, `Z` instead) -/
def fileB' : ParsedData :=
  { structs := [mkStruct s%"Y" [], mkStruct s%"Z" []], crateName := s%"b", multiFile := true }
def exArrivals' : List ParsedData := [fileA1, fileB', fileA2]

example : (collect exArrivals).map (·.1) = [s%"a", s%"b"] := by decide +kernel
example : ((arr exArrivals s%"a").flatMap itemsOf).map itemKey =
    [(.struct, ⟨s%"X", s%"X", false⟩), (.struct, ⟨s%"Y", s%"Y", false⟩)] := by decide +kernel
example : ((arr exArrivals s%"b").flatMap itemsOf).map itemKey = [(.struct, ⟨s%"X", s%"X", false⟩)] := by
  decide +kernel
/-- the hypothesis of `C11_Modules_independent` for crate `a` -/
example : (arr exArrivals s%"a").map (·.structs.map (·.id.original)) =
    (arr exArrivals' s%"a").map (·.structs.map (·.id.original)) := by decide +kernel
example : arr exArrivals s%"a" = arr exArrivals' s%"a" := by
  simp [arr, exArrivals, exArrivals', fileA1, fileA2, fileB, fileB']
example : arr exArrivals s%"a" ≠ [] := by simp [arr, exArrivals, fileA1, fileA2, fileB]

end TsV.C11_Modules
