import TsV.Lemmas.C14_Imports_Run
import TsV.Lemmas.C12_Common
/-!
# The import clause in the text the TypeScript and Kotlin back ends write

`write_imports` prints the scoped imports of a job; every entry of the scoped map therefore occurs in the
output file of the job's crate.
-/
namespace TsV.C14I
open TsV TsV.Pipeline TsV.C06M

theorem infix_flatMap_of_mem {α β} (f : α → List β) : ∀ (l : List α) (x : α), x ∈ l → f x <:+: l.flatMap f
  | [], _, h => by simp at h
  | y :: t, x, h => by
    simp only [List.mem_cons] at h
    simp only [List.flatMap_cons]
    rcases h with rfl | h
    · exact (List.prefix_append _ _).isInfix
    · exact (infix_flatMap_of_mem f t x h).trans (List.suffix_append _ _).isInfix

/-! ### Kotlin -/

/-- the line `write_imports` (kotlin.rs) prints for one imported type: the type is named with the
configured prefix, as the other module defines it (`fix:` commit 8dc01bf) -/
def ktImportLine (cfg : Lang.Kotlin.Cfg) (crate ty : Str) : Str :=
  s%"import " ++ cfg.package ++ s%"." ++ crate ++ s%"." ++ cfg.pfx ++ ty ++ Lang.nl

theorem kt_writeImports_line (cfg : Lang.Kotlin.Cfg) (imps : ScopedCrateTypes) (c t : Str) (tys : List Str)
    (h : (c, tys) ∈ imps) (ht : t ∈ tys) : ktImportLine cfg c t <:+: Lang.Kotlin.writeImports cfg imps := by
  unfold Lang.Kotlin.writeImports
  refine List.IsInfix.trans ?_ (List.prefix_append _ _).isInfix
  refine List.IsInfix.trans ?_ (infix_flatMap_of_mem _ imps (c, tys) h)
  exact infix_flatMap_of_mem (fun t => s%"import " ++ cfg.package ++ s%"." ++ c ++ s%"." ++ cfg.pfx ++ t ++ Lang.nl) tys t ht

theorem kt_generate_line (cfg : Lang.Kotlin.Cfg) (d : ParsedData) (imps : ScopedCrateTypes) (text : Str)
    (hmf : d.multiFile = true) (h : Lang.Kotlin.generate cfg d (some imps) = .ok text) (c t : Str)
    (tys : List Str) (hm : (c, tys) ∈ imps) (ht : t ∈ tys) : ktImportLine cfg c t <:+: text := by
  unfold Lang.Kotlin.generate at h
  split at h
  · simp at h
  · obtain ⟨decls, _, h2⟩ := (Outcome.bind_eq_ok _ _ _).1 h
    simp only [hmf, if_true, Option.getD_some, Outcome.ok.injEq] at h2
    subst h2
    refine (kt_writeImports_line cfg imps c t tys hm ht).trans ?_
    rw [List.append_assoc]
    exact List.infix_append' _ _ _

theorem kt_generateFrom_mem (cfg : Lang.Kotlin.Cfg) : ∀ (jobs : List Job) (outs : List (Str × Str)),
    Lang.Kotlin.generateFrom cfg jobs = .ok outs →
    ∀ j ∈ jobs, ∃ text, (j.1, text) ∈ outs ∧ Lang.Kotlin.generate cfg j.2.1 j.2.2 = .ok text
  | [], _, _, j, hj => by simp at hj
  | (c, d, imps) :: rest, outs, h, j, hj => by
    simp only [Lang.Kotlin.generateFrom] at h
    obtain ⟨text, h1, h2⟩ := (Outcome.bind_eq_ok _ _ _).1 h
    obtain ⟨outs', h3, h4⟩ := (Outcome.bind_eq_ok _ _ _).1 h2
    simp only [Outcome.ok.injEq] at h4
    subst h4
    simp only [List.mem_cons] at hj
    rcases hj with rfl | hj
    · exact ⟨text, by simp, h1⟩
    · obtain ⟨t', ht', hg⟩ := kt_generateFrom_mem cfg rest outs' h3 j hj
      exact ⟨t', by simp [ht'], hg⟩

/-! ### TypeScript -/

/-- the line `write_imports` (typescript.rs) prints for one crate -/
def tsImportLine (crate : Str) (tys : List Str) : Str :=
  s%"import { " ++ Str.intercalate s%", " tys ++ s%" } from \"./" ++ crate ++ s%"\";\n"

theorem ts_writeImports_line (imps : ScopedCrateTypes) (c : Str) (tys : List Str) (h : (c, tys) ∈ imps) :
    tsImportLine c tys <:+: Lang.TypeScript.writeImports imps := by
  unfold Lang.TypeScript.writeImports
  refine List.IsInfix.trans ?_ (List.prefix_append _ _).isInfix
  exact infix_flatMap_of_mem (fun p : Str × List Str =>
    s%"import { " ++ Str.intercalate s%", " p.2 ++ s%" } from \"./" ++ p.1 ++ s%"\";\n") imps (c, tys) h

theorem ts_generate_line (U : UnicodeOps) (cfg : Lang.TypeScript.Cfg) (d : ParsedData) (imps : ScopedCrateTypes)
    (st0 st1 : Lang.TypeScript.CustomMap) (text : Str)
    (h : Lang.TypeScript.generate U cfg d (some imps) st0 = .ok (text, st1)) (c : Str) (tys : List Str)
    (hm : (c, tys) ∈ imps) : tsImportLine c tys <:+: text := by
  unfold Lang.TypeScript.generate at h
  split at h
  · simp at h
  · obtain ⟨⟨body, st⟩, _, h2⟩ := (Outcome.bind_eq_ok _ _ _).1 h
    simp only [Outcome.ok.injEq, Prod.mk.injEq] at h2
    obtain ⟨h2, _⟩ := h2
    subst h2
    refine (ts_writeImports_line imps c tys hm).trans ?_
    rw [List.append_assoc, List.append_assoc]
    exact List.infix_append' _ _ _

theorem ts_generateFrom_mem (U : UnicodeOps) (cfg : Lang.TypeScript.Cfg) :
    ∀ (jobs : List Job) (st : Lang.TypeScript.CustomMap) (outs : List (Str × Str)),
    Lang.TypeScript.generateFrom U cfg jobs st = .ok outs →
    ∀ j ∈ jobs, ∃ text st0 st1, (j.1, text) ∈ outs ∧
      Lang.TypeScript.generate U cfg j.2.1 j.2.2 st0 = .ok (text, st1)
  | [], _, _, _, j, hj => by simp at hj
  | (c, d, imps) :: rest, st, outs, h, j, hj => by
    simp only [Lang.TypeScript.generateFrom] at h
    obtain ⟨⟨text, st'⟩, h1, h2⟩ := (Outcome.bind_eq_ok _ _ _).1 h
    obtain ⟨outs', h3, h4⟩ := (Outcome.bind_eq_ok _ _ _).1 h2
    simp only [Outcome.ok.injEq] at h4
    subst h4
    simp only [List.mem_cons] at hj
    rcases hj with rfl | hj
    · exact ⟨text, st, st', by simp, h1⟩
    · obtain ⟨t', s0, s1, ht', hg⟩ := ts_generateFrom_mem U cfg rest st' outs' h3 j hj
      exact ⟨t', s0, s1, by simp [ht'], hg⟩

/-! ### the data of a job is in multi-file mode when the arrivals are -/

theorem job_multiFile (arrivals : List ParsedData) (hall : ∀ d ∈ arrivals, d.multiFile = true) (j : Job)
    (hj : j ∈ jobsWith id (collect arrivals)) : j.2.1.multiFile = true := by
  unfold jobsWith at hj
  simp only [allTypes_reconcile, id] at hj
  rw [reconcile_eq, List.map_map] at hj
  obtain ⟨p, hp, rfl⟩ := List.mem_map.1 hj
  obtain ⟨c, v⟩ := p
  have he := collect_entry arrivals hp
  obtain ⟨x, hx, _, _, hx3⟩ := merged_last (arr arrivals c) {} he.2
  simp only [arr, List.mem_filter] at hx
  show (reconcileOne _ c v).multiFile = true
  rw [he.1]
  exact hx3.trans (hall x hx.1)

theorem arrivals_multiFile (E : Ext) (ctx : ParseContext) (hmf : ctx.multiFile = true)
    (pick : List ImportedType → Option ImportedType) (files : List Generate.SourceFile)
    (arrivals : List ParsedData) (h : Generate.parseAll E ctx pick files = .ok arrivals) :
    ∀ d ∈ arrivals, d.multiFile = true := by
  intro d hd
  obtain ⟨f, _, hp⟩ := parseAll_mem_inv E ctx pick files arrivals h d hd
  obtain ⟨dv, hv, _, _, rfl⟩ := visit_of_parseFile E ctx hmf pick _ _ _ _ d hp
  exact (visitFile_meta E ctx _ _ _ _ dv hv).2.2.trans hmf

/-! ### a run that produces output ran the back end on the job list -/

theorem run_outputs_kotlin (E : Ext) (cfg : Lang.Kotlin.Cfg) (targetOs : List Str)
    (pick : List ImportedType → Option ImportedType) (files : List Generate.SourceFile)
    (arrivals : List ParsedData) (outs : List (Str × Str))
    (hparse : Generate.parseAll E { ignoredTypes := Generate.ignoredTypes (.kotlin cfg), multiFile := true, targetOs }
      pick files = .ok arrivals)
    (h : Generate.run E (.kotlin cfg) true targetOs pick files = .ok (.outputs outs)) :
    Lang.Kotlin.generateFrom cfg (jobsWith id (collect arrivals)) = .ok outs := by
  rw [run_multi_eq, hparse] at h
  simp only [Outcome.bind] at h
  split at h
  · simp at h
  · obtain ⟨o, h1, h2⟩ := (Outcome.bind_eq_ok _ _ _).1 h
    simp only [Outcome.ok.injEq, Generate.RunResult.outputs.injEq] at h2
    subst h2
    exact h1

theorem run_outputs_typescript (E : Ext) (cfg : Lang.TypeScript.Cfg) (targetOs : List Str)
    (pick : List ImportedType → Option ImportedType) (files : List Generate.SourceFile)
    (arrivals : List ParsedData) (outs : List (Str × Str))
    (hparse : Generate.parseAll E
      { ignoredTypes := Generate.ignoredTypes (.typescript cfg), multiFile := true, targetOs } pick files = .ok arrivals)
    (h : Generate.run E (.typescript cfg) true targetOs pick files = .ok (.outputs outs)) :
    Lang.TypeScript.generateFrom E.U cfg (jobsWith id (collect arrivals)) [] = .ok outs := by
  rw [run_multi_eq, hparse] at h
  simp only [Outcome.bind] at h
  split at h
  · simp at h
  · obtain ⟨o, h1, h2⟩ := (Outcome.bind_eq_ok _ _ _).1 h
    simp only [Outcome.ok.injEq, Generate.RunResult.outputs.injEq] at h2
    subst h2
    exact h1

/-! ### helpers for evaluating concrete runs (`toposort_impl::inner` is defined by well-founded recursion, so the
kernel cannot evaluate `generateOrder`; for one-item files `C12L.topsort_single` gives its value) -/

theorem generateOrder_single (d : ParsedData) (it : RustItem) (hi : C12L.itemsOf d = [it])
    (hg : Deps.graph [it] = some [[]]) : Pipeline.generateOrder d = some [it] := by
  have : Pipeline.generateOrder d = Deps.topsort (C12L.itemsOf d) := rfl
  rw [this, hi]
  exact C12L.topsort_single it hg

theorem list_len1 {α} (l : List α) (x : α) (h : l.length = 1) : l = [l.headD x] := by
  match l, h with
  | [a], _ => rfl

theorem list_len2 {α} (l : List α) (x : α) (h : l.length = 2) : l = [l.headD x, l.tail.headD x] := by
  match l, h with
  | [a, b], _ => rfl

theorem kt_generateFrom_cons (cfg : Lang.Kotlin.Cfg) (j : Job) (rest : List Job) :
    Lang.Kotlin.generateFrom cfg (j :: rest) =
      (Lang.Kotlin.generate cfg j.2.1 j.2.2).bind fun text =>
        (Lang.Kotlin.generateFrom cfg rest).bind fun outs => .ok ((j.1, text) :: outs) := by
  obtain ⟨c, d, i⟩ := j; rfl

theorem ts_generateFrom_cons (U : UnicodeOps) (cfg : Lang.TypeScript.Cfg) (j : Job) (rest : List Job)
    (st : Lang.TypeScript.CustomMap) :
    Lang.TypeScript.generateFrom U cfg (j :: rest) st =
      (Lang.TypeScript.generate U cfg j.2.1 j.2.2 st).bind fun p =>
        (Lang.TypeScript.generateFrom U cfg rest p.2).bind fun outs => .ok ((j.1, p.1) :: outs) := by
  obtain ⟨c, d, i⟩ := j; rfl

end TsV.C14I
