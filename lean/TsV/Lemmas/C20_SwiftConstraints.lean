import TsV.Lemmas.C12_Swift
/-!
# C20, Swift's file-only settings — lemmas

`default_generic_constraints`, `default_decorators` and `codablevoid_constraints` exist only in
`typeshare.toml`.  This file follows them through `Swift::generic_constraints`,
`get_default_decorators` / `determine_decorators` and `get_codable_contents` in the model.
-/
namespace TsV.C20S
open TsV TsV.Lang TsV.Lang.Swift TsV.Outcome

theorem bindPair {α β γ} {x : Outcome (α × β)} {f : α × β → Outcome γ} {r}
    (h : x.bind f = .ok r) : ∃ a b, x = .ok (a, b) ∧ f (a, b) = .ok r := by
  cases x with
  | ok p => exact ⟨p.1, p.2, rfl, h⟩
  | err e => cases h
  | panic s => cases h

/-! ## `BTreeSet` membership -/

theorem mem_foldl_insert (x : Str) : ∀ (l acc : List Str),
    x ∈ l.foldl (fun acc y => Parser.insertSorted Str.lt y acc) acc ↔ x ∈ acc ∨ x ∈ l
  | [], acc => by simp
  | y :: l, acc => by
    rw [List.foldl_cons, mem_foldl_insert x l, C12L.mem_insertSorted_iff]
    simp only [List.mem_cons]
    constructor
    · rintro ((h | h) | h)
      · exact Or.inr (Or.inl h)
      · exact Or.inl h
      · exact Or.inr (Or.inr h)
    · rintro (h | h | h)
      · exact Or.inl (Or.inr h)
      · exact Or.inl (Or.inl h)
      · exact Or.inr h

theorem mem_toSet (x : Str) (l : List Str) : x ∈ Parser.toSet Str.lt l ↔ x ∈ l := by
  unfold Parser.toSet
  rw [mem_foldl_insert]
  simp

/-! ## the configured constraints -/

/-- the constraints the configuration asks for: every entry of `default_generic_constraints`, split at
`&` and trimmed (`GenericConstraints::from_config`) -/
def configured (U : UnicodeOps) (cfg : Cfg) : List Str := cfg.defaultGenericConstraints.flatMap (splitConstraints U)

theorem mem_defaultConstraints (U : UnicodeOps) (cfg : Cfg) (c : Str) :
    c ∈ defaultConstraints U cfg ↔ c = codable ∨ c ∈ configured U cfg := by
  unfold defaultConstraints configured
  rw [mem_toSet]
  simp

/-! ## `generic_constraints` -/

theorem genericParams_names (U : UnicodeOps) (cfg : Cfg) (dm : DecoratorMap) (gens : List Str) :
    (genericParams U cfg dm gens).map (·.name) = gens := by
  unfold genericParams
  simp only [List.map_map]
  conv => rhs; rw [← List.map_id gens]
  apply List.map_congr_left
  intro g _
  simp only [Function.comp, id]
  split <;> rfl

/-- the own constraints a `swiftGenericConstraints = "T: A & B"` entry gives -/
def ownConstraints (U : UnicodeOps) (cs : Str) : List Str := (splitChar '&' cs).map U.trim

theorem mem_annotated {U : UnicodeOps} {defaults : List Str} {dm : DecoratorMap} {n : Str} {cs : List Str}
    (h : (n, cs) ∈ annotatedConstraints U defaults dm) :
    ∃ own, cs = Parser.toSet Str.lt (ownConstraints U own ++ defaults) := by
  unfold annotatedConstraints at h
  split at h
  · simp at h
  · obtain ⟨gc, _, hgc⟩ := List.mem_filterMap.1 h
    split at hgc
    · rename_i name own rest _
      simp only [Option.some.injEq, Prod.mk.injEq] at hgc
      exact ⟨own, hgc.2.symm⟩
    · simp at hgc

/-- every printed constraint list is the defaults, or the item's own constraints for that
parameter merged with the defaults -/
theorem genericParams_cases (U : UnicodeOps) (cfg : Cfg) (dm : DecoratorMap) (gens : List Str) :
    ∀ p ∈ genericParams U cfg dm gens, p.name ∈ gens ∧
      (p.constraints = defaultConstraints U cfg ∨
       ∃ own, p.constraints = Parser.toSet Str.lt (ownConstraints U own ++ defaultConstraints U cfg)) := by
  intro p hp
  unfold genericParams at hp
  obtain ⟨g, hg, rfl⟩ := List.mem_map.1 hp
  split
  · rename_i n cs hf
    refine ⟨hg, Or.inr ?_⟩
    have hm := List.mem_of_find?_eq_some hf
    exact mem_annotated (List.mem_reverse.1 hm)
  · exact ⟨hg, Or.inl rfl⟩

/-- **every parameter gets every default constraint**, annotated or not -/
theorem genericParams_defaults (U : UnicodeOps) (cfg : Cfg) (dm : DecoratorMap) (gens : List Str) :
    ∀ p ∈ genericParams U cfg dm gens, ∀ c ∈ defaultConstraints U cfg, c ∈ p.constraints := by
  intro p hp c hc
  rcases (genericParams_cases U cfg dm gens p hp).2 with h | ⟨own, h⟩
  · rw [h]; exact hc
  · rw [h, mem_toSet]; exact List.mem_append_right _ hc

/-- nothing else is printed: a constraint is a default or one of the item's own -/
theorem genericParams_only (U : UnicodeOps) (cfg : Cfg) (dm : DecoratorMap) (gens : List Str) :
    ∀ p ∈ genericParams U cfg dm gens, ∀ c ∈ p.constraints,
      c ∈ defaultConstraints U cfg ∨ ∃ gcs gc, dm.swiftGenericConstraints = some gcs ∧ gc ∈ gcs ∧
        ∃ name own rest, splitChar ':' gc = name :: own :: rest ∧ c ∈ ownConstraints U own := by
  intro p hp c hc
  unfold genericParams at hp
  obtain ⟨g, hg, rfl⟩ := List.mem_map.1 hp
  split at hc
  · rename_i n cs hf
    have hm := List.mem_reverse.1 (List.mem_of_find?_eq_some hf)
    unfold annotatedConstraints at hm
    split at hm
    · simp at hm
    · rename_i gcs hgcs
      obtain ⟨gc, hgc, he⟩ := List.mem_filterMap.1 hm
      split at he
      · rename_i name own rest hs
        simp only [Option.some.injEq, Prod.mk.injEq] at he
        simp only at hc
        rw [← he.2, mem_toSet, List.mem_append] at hc
        rcases hc with hc | hc
        · exact Or.inr ⟨gcs, gc, hgcs, hgc, name, own, rest, hs, hc⟩
        · exact Or.inl hc
      · simp at he
  · exact Or.inl hc

/-! ## what a generic clause says (binding semantics) and its text -/

/-- a generic clause gives every parameter of `gens`, in order, constraint lists that contain
`Codable` and every configured constraint -/
def Reaches (U : UnicodeOps) (cfg : Cfg) (gs : List GenericParam) (gens : List Str) : Prop :=
  gs.map (·.name) = gens ∧ ∀ p ∈ gs, codable ∈ p.constraints ∧ ∀ c ∈ configured U cfg, c ∈ p.constraints

theorem genericParams_reaches (U : UnicodeOps) (cfg : Cfg) (dm : DecoratorMap) (gens : List Str) :
    Reaches U cfg (genericParams U cfg dm gens) gens := by
  refine ⟨genericParams_names U cfg dm gens, fun p hp => ⟨?_, fun c hc => ?_⟩⟩
  · exact genericParams_defaults U cfg dm gens p hp _ ((mem_defaultConstraints U cfg _).2 (Or.inl rfl))
  · exact genericParams_defaults U cfg dm gens p hp _ ((mem_defaultConstraints U cfg _).2 (Or.inr hc))

/-- the text of one parameter: `name: C1 & C2` -/
def renderParam (p : GenericParam) : Str := p.name ++ s%": " ++ Str.intercalate s%" & " p.constraints

theorem renderGenericParams_eq (ps : List GenericParam) :
    renderGenericParams ps = Str.intercalate s%", " (ps.map renderParam) := rfl

/-- every constraint of a parameter occurs in the printed clause -/
theorem constraint_printed {ps : List GenericParam} {p : GenericParam} {c : Str} (hp : p ∈ ps) (hc : c ∈ p.constraints) :
    c <:+: renderGenericClause ps := by
  unfold renderGenericClause
  have hne : ps.isEmpty = false := by cases ps with | nil => simp at hp | cons a b => rfl
  simp only [hne, Bool.false_eq_true, if_false]
  have h1 : c <:+: renderParam p := by
    unfold renderParam
    have := C12L.infix_intercalate (a := c) s%" & " p.constraints ⟨c, hc, List.infix_refl c⟩
    exact C12L.infix_mid (p.name ++ s%": ") [] this |> fun h => by simpa using h
  have h2 : c <:+: renderGenericParams ps :=
    C12L.infix_intercalate s%", " (ps.map renderParam) ⟨renderParam p, List.mem_map_of_mem hp, h1⟩
  exact C12L.infix_mid s%"<" s%">" h2

/-! ## decorators -/

/-- a conformance list carries `Codable` and every configured default decorator -/
def DecoratorsReach (cfg : Cfg) (confs : List Str) : Prop :=
  codable ∈ confs ∧ ∀ d ∈ cfg.defaultDecorators, d ∈ confs

theorem structConformances_prefix (cfg : Cfg) (dm : DecoratorMap) :
    defaultDecorators cfg <+: structConformances cfg dm := by
  unfold structConformances
  split
  · exact List.prefix_append _ _
  · exact List.prefix_refl _

theorem structConformances_reach (cfg : Cfg) (dm : DecoratorMap) : DecoratorsReach cfg (structConformances cfg dm) := by
  have hp := (structConformances_prefix cfg dm).subset
  exact ⟨hp (by simp [defaultDecorators]), fun d hd => hp (by simp [defaultDecorators, hd])⟩

theorem enumConformances_shape (cfg : Cfg) (e : RustEnum) :
    ∃ extra, enumConformances cfg e =
      (match e.keys with | none => [s%"String"] | some _ => []) ++ defaultDecorators cfg ++ extra := by
  unfold enumConformances
  cases e.keys with
  | none => exact ⟨_, rfl⟩
  | some kc => exact ⟨_, rfl⟩

theorem enumConformances_reach (cfg : Cfg) (e : RustEnum) : DecoratorsReach cfg (enumConformances cfg e) := by
  obtain ⟨extra, h⟩ := enumConformances_shape cfg e
  rw [h]
  exact ⟨by simp [defaultDecorators], fun d hd => by simp [defaultDecorators, hd]⟩

/-- the conformance list of `CodableVoid` (`get_codable_contents`) -/
def codableVoidConformances (cfg : Cfg) : List Str :=
  let decs := defaultDecorators cfg ++ cfg.codablevoidConstraints
  if decs.contains codable then decs else decs ++ [codable]

theorem writeCodable_eq (cfg : Cfg) :
    writeCodable cfg =
      s%"\n/// () isn't codable, so we use this instead to represent Rust's unit type\npublic struct CodableVoid: " ++
        Str.intercalate s%", " (codableVoidConformances cfg) ++ s%" {}" ++ nl := rfl

theorem codableVoid_reach (cfg : Cfg) :
    DecoratorsReach cfg (codableVoidConformances cfg) ∧ ∀ d ∈ cfg.codablevoidConstraints, d ∈ codableVoidConformances cfg := by
  have hsub : ∀ d, d ∈ defaultDecorators cfg ++ cfg.codablevoidConstraints → d ∈ codableVoidConformances cfg := by
    intro d hd
    unfold codableVoidConformances
    simp only
    split
    · exact hd
    · exact List.mem_append_left _ hd
  exact ⟨⟨hsub _ (by simp [defaultDecorators]), fun d hd => hsub _ (by simp [defaultDecorators, hd])⟩,
    fun d hd => hsub _ (by simp [hd])⟩

/-! ## the declarations -/

theorem structFacts_clauses (U : UnicodeOps) (cfg : Cfg) (rs : RustStruct) (st st' : St) (s : SwiftStruct)
    (h : structFacts U cfg rs st = .ok (s, st')) :
    s.generics = genericParams U cfg rs.decorators rs.genericTypes ∧
    s.conformances = structConformances cfg rs.decorators := by
  unfold structFacts at h
  obtain ⟨props, st1, _, h⟩ := bindPair h
  obtain ⟨params, st2, _, h⟩ := bindPair h
  simp only [Outcome.ok.injEq, Prod.mk.injEq] at h
  rw [← h.1]
  exact ⟨rfl, rfl⟩

/-- the helper structs of the struct variants: the enum's decorators (hence its own constraints)
and the parameters the variant's fields mention -/
theorem anonymousStructs_clauses (U : UnicodeOps) (cfg : Cfg) (e : RustEnum) :
    ∀ (l : List (Id × List RustField)) (st st' : St) (ss : List SwiftStruct),
      anonymousStructs U cfg e l st = .ok (ss, st') →
      ss.map (fun s => (s.generics, s.conformances)) = l.map fun p =>
        (genericParams U cfg e.decorators
            (anonymousStruct e (anonymousStructName e p.1.original) p.1.original p.2).genericTypes,
         structConformances cfg e.decorators)
  | [], st, st', ss, h => by
    simp only [anonymousStructs, Outcome.ok.injEq, Prod.mk.injEq] at h
    rw [← h.1]; rfl
  | (id, fields) :: rest, st, st', ss, h => by
    simp only [anonymousStructs] at h
    obtain ⟨s, st1, h1, h⟩ := bindPair h
    obtain ⟨ss', st2, h2, h⟩ := bindPair h
    simp only [Outcome.ok.injEq, Prod.mk.injEq] at h
    rw [← h.1]
    obtain ⟨hg, hc⟩ := structFacts_clauses U cfg _ st st1 s h1
    simp only [List.map_cons, anonymousStructs_clauses U cfg e rest st1 st2 ss' h2, hg, hc]
    rfl

theorem enumFacts_clauses (U : UnicodeOps) (cfg : Cfg) (e : RustEnum) (st st' : St) (ss : List SwiftStruct)
    (se : SwiftEnum) (h : enumFacts U cfg e st = .ok (ss, se, st')) :
    se.generics = genericParams U cfg e.decorators e.genericTypes ∧
    se.conformances = enumConformances cfg e ∧
    ss.map (fun s => (s.generics, s.conformances)) = (structVariants e).map fun p =>
        (genericParams U cfg e.decorators
            (anonymousStruct e (anonymousStructName e p.1.original) p.1.original p.2).genericTypes,
         structConformances cfg e.decorators) := by
  unfold enumFacts at h
  obtain ⟨structs, st1, h1, h⟩ := bindPair h
  obtain ⟨cases, st2, _, h⟩ := bindPair h
  simp only [Outcome.ok.injEq, Prod.mk.injEq] at h
  obtain ⟨rfl, hse, _⟩ := h
  rw [← hse]
  exact ⟨rfl, rfl, anonymousStructs_clauses U cfg e _ st st1 structs h1⟩

end TsV.C20S
