import TsV.Lemmas.C03_Emission_Common
/-!
# C03, emission clause — TypeScript
-/
namespace TsV.C03E.TS
open TsV TsV.Lang TsV.Lang.TypeScript TsV.C03E

/-- `write_items` writes one block per item, in order, threading the custom-translation map -/
theorem writeItems_threaded (U : UnicodeOps) (cfg : Cfg) : ∀ (its : List RustItem) (st : CustomMap) (body : Str)
    (st' : CustomMap), writeItems U cfg its st = .ok (body, st') →
    ∃ blocks, Threaded (writeItem U cfg) its st blocks st' ∧ body = blocks.flatten
  | [], st, body, st', h => by
    simp [writeItems] at h
    obtain ⟨rfl, rfl⟩ := h
    exact ⟨[], .nil _, rfl⟩
  | it :: its, st, body, st', h => by
    simp only [writeItems] at h
    obtain ⟨⟨a, st1⟩, ha, h⟩ := bindOk h
    obtain ⟨⟨b, st2⟩, hb, h⟩ := bindOk h
    cases h
    obtain ⟨bs, hbs, rfl⟩ := writeItems_threaded U cfg its st1 b st2 hb
    exact ⟨a :: bs, .cons ha hbs, by simp⟩

/-- the text before the blocks: version header and (multi-file mode) the import lines -/
def header (cfg : Cfg) (imports : Option Pipeline.ScopedCrateTypes) : Str :=
  beginFile cfg ++ (match imports with | some i => writeImports i | none => [])

theorem generate_blocks (U : UnicodeOps) (cfg : Cfg) (d : ParsedData) (imports : Option Pipeline.ScopedCrateTypes)
    (st0 : CustomMap) (text : Str) (st : CustomMap) (h : generate U cfg d imports st0 = .ok (text, st)) :
    ∃ items blocks, Pipeline.generateOrder d = some items ∧ Threaded (writeItem U cfg) items st0 blocks st ∧
      text = header cfg imports ++ blocks.flatten ++ endFile st := by
  unfold generate at h
  cases ho : Pipeline.generateOrder d with
  | none => simp [ho] at h
  | some items =>
    simp only [ho] at h
    obtain ⟨⟨body, st1⟩, hb, h⟩ := bindOk h
    cases h
    obtain ⟨blocks, hth, rfl⟩ := writeItems_threaded U cfg items st0 body st1 hb
    exact ⟨items, blocks, rfl, hth, by cases imports <;> simp [header, List.append_assoc]⟩

theorem comments_lineStart (n : Nat) (cs : List Str) : LineStart (comments n cs) := by
  unfold comments
  split
  · exact lineStart_nil
  · exact lineStart_append_right _ (by simp [nl])
  · exact lineStart_append_right _ (by simp [nl])

/-- **the block of an item defines the item, and is one declaration** -/
theorem block_defines (U : UnicodeOps) (cfg : Cfg) (it : RustItem) (st : CustomMap) (b : Str) (st' : CustomMap)
    (h : writeItem U cfg it st = .ok (b, st')) : SplitsInto (tsDefs U it) b := by
  cases it with
  | struct s =>
    simp only [writeItem, writeStruct] at h
    obtain ⟨⟨body, st1⟩, _, h⟩ := bindOk h
    cases h
    exact splitsInto_single (definesHead_mk (comments 0 s.comments)
      (genericSuffix s.genericTypes ++ (s%" {\n" ++ body ++ s%"}\n\n")) (by simp [List.append_assoc])
      (comments_lineStart _ _) (nameEnd_genericSuffix _ (nameEnd_cons _ (by simp [delims]))))
  | alias a =>
    simp only [writeItem, writeAlias] at h
    obtain ⟨⟨ty, st1⟩, _, h⟩ := bindOk h
    cases h
    exact splitsInto_single (definesHead_mk (comments 0 a.comments)
      (genericSuffix a.genericTypes ++ (s%" = " ++ ty ++ (if a.ty.isOptional then s%" | undefined" else []) ++ s%";\n\n"))
      (by simp [List.append_assoc])
      (comments_lineStart _ _) (nameEnd_genericSuffix _ (nameEnd_cons _ (by simp [delims]))))
  | const c =>
    simp only [writeItem, writeConst] at h
    obtain ⟨⟨ty, st1⟩, _, h⟩ := bindOk h
    cases h
    exact splitsInto_single (definesHead_mk [] (s%": " ++ ty ++ s%" = " ++ Str.natToStr c.expr ++ s%";\n")
      (by simp [List.append_assoc]) lineStart_nil (nameEnd_cons _ (by simp [delims])))
  | «enum» e =>
    simp only [writeItem, writeEnum] at h
    cases hk : e.keys with
    | none =>
      simp only [hk] at h
      cases h
      simp only [tsDefs, hk, Option.isNone_none, if_true]
      exact splitsInto_single (definesHead_mk (comments 0 e.comments)
        (genericSuffix e.genericTypes ++ (s%" {" ++ (e.variants.flatMap fun v =>
          nl ++ comments 1 v.comments ++ s%"\t" ++ v.id.original ++ s%" = " ++ debugStr v.id.renamed ++ s%",") ++
          s%"\n}\n\n"))
        (by simp [List.append_assoc])
        (comments_lineStart _ _) (nameEnd_genericSuffix _ (nameEnd_cons _ (by simp [delims]))))
    | some kc =>
      obtain ⟨tag, content⟩ := kc
      simp only [hk] at h
      obtain ⟨⟨body, st1⟩, _, h⟩ := bindOk h
      cases h
      simp only [tsDefs, hk, Option.isNone_some, Bool.false_eq_true, if_false]
      exact splitsInto_single (definesHead_mk (comments 0 e.comments)
        (genericSuffix e.genericTypes ++ (s%" = " ++ body ++ s%";\n\n"))
        (by simp [List.append_assoc])
        (comments_lineStart _ _) (nameEnd_genericSuffix _ (nameEnd_cons _ (by simp [delims]))))

/-- a single job of a single-file run -/
theorem generateAll_single (E : Ext) (cfg : Cfg) (mf : Bool) (c : Str) (d : ParsedData)
    (imps : Option Pipeline.ScopedCrateTypes) :
    generateAll E cfg mf [(c, d, imps)] =
      (generate E.U cfg d imps []).bind fun r => .ok [(c, r.1)] := by
  simp only [generateAll, generateFrom]
  cases generate E.U cfg d imps [] <;> rfl

theorem generateAll_nil (E : Ext) (cfg : Cfg) (mf : Bool) : generateAll E cfg mf [] = .ok [] := rfl

end TsV.C03E.TS
