import TsV.Model.TargetOs
/-! helper lemmas for C13: the stack walk yields the structurally specified leaves -/
namespace TsV.TargetOs
open TsV.Syn

def specOf (stack : List (Scope × Meta)) : List (Scope × Str) :=
  stack.flatMap fun p => collect p.1 p.2

def stackWF (stack : List (Scope × Meta)) : Bool := stack.all fun p => WF p.2

def stackSize : List (Scope × Meta) → Nat
  | [] => 0
  | p :: rest => metaSize p.2 + stackSize rest

theorem collectList_eq (sc : Scope) (args : List Meta) :
    collectList sc args = (args.map fun a => (sc, a)).flatMap fun p => collect p.1 p.2 := by
  induction args with
  | nil => simp [collectList]
  | cons a t ih => simp [collectList, ih]

theorem wfList_all (args : List Meta) : wfList args = args.all WF := by
  induction args with
  | nil => simp [wfList]
  | cons a t ih => simp [wfList, ih]

theorem scopeOf_list (sc : Scope) (segs : List Str) (p q : Bool) (a b : List Meta) :
    scopeOf sc (.list segs p a) = scopeOf sc (.list segs q b) := by
  simp [scopeOf, Meta.isIdent, Meta.segs]

theorem stackSize_append (a b : List (Scope × Meta)) :
    stackSize (a ++ b) = stackSize a + stackSize b := by
  induction a with
  | nil => simp [stackSize]
  | cons x t ih => simp [stackSize, ih]; omega

theorem stackSize_reverse (a : List (Scope × Meta)) : stackSize a.reverse = stackSize a := by
  induction a with
  | nil => simp [stackSize]
  | cons x t ih => simp [stackSize_append, stackSize, ih]; omega

theorem stackSize_map (sc : Scope) (args : List Meta) :
    stackSize (args.map fun a => (sc, a)) = sizeList args := by
  induction args with
  | nil => simp [stackSize, sizeList]
  | cons a t ih => simp [stackSize, sizeList, ih]

theorem metaSize_pos (m : Meta) : 0 < metaSize m := by
  cases m <;> simp [metaSize] <;> omega

/-- fuel sufficiency: the stack walk terminates within the size of its stack -/
theorem drain_isSome : ∀ fuel stack acc, stackSize stack ≤ fuel → (drain fuel stack acc).isSome := by
  intro fuel
  induction fuel with
  | zero =>
    intro stack acc h
    cases stack with
    | nil => simp [drain]
    | cons p t =>
      have := metaSize_pos p.2
      simp [stackSize] at h; omega
  | succ fuel ih =>
    intro stack acc h
    cases stack with
    | nil => simp [drain]
    | cons p rest =>
      obtain ⟨sc, m⟩ := p
      cases m with
      | path s =>
        simp only [drain]
        apply ih; simp [stackSize, metaSize] at h; omega
      | nameValue s v =>
        simp only [drain]
        apply ih; simp [stackSize, metaSize] at h; omega
      | list s parsed args =>
        simp only [drain]
        split
        · apply ih
          rw [stackSize_append, stackSize_reverse, stackSize_map]
          simp [stackSize, metaSize] at h; omega
        · simp

/-- on well-formed stacks the walk yields exactly (a permutation of) the specified leaves -/
theorem drain_perm : ∀ fuel stack acc r, stackWF stack = true → drain fuel stack acc = some r →
    r.Perm (acc ++ specOf stack) := by
  intro fuel
  induction fuel with
  | zero =>
    intro stack acc r _ h
    cases stack with
    | nil => simp [drain] at h; subst h; simp [specOf]
    | cons p t => simp [drain] at h
  | succ fuel ih =>
    intro stack acc r hwf h
    cases stack with
    | nil => simp [drain] at h; subst h; simp [specOf]
    | cons p rest =>
      obtain ⟨sc, m⟩ := p
      have hwfr : stackWF rest = true := by
        simp [stackWF] at hwf ⊢; exact hwf.2
      cases m with
      | path n =>
        simp only [drain] at h
        have := ih rest acc r hwfr h
        simpa [specOf, collect] using this
      | nameValue n v =>
        simp only [drain] at h
        have := ih rest _ r hwfr h
        simpa [specOf, collect, List.append_assoc] using this
      | list n parsed args =>
        have hp : parsed = true ∧ wfList args = true := by
          simp [stackWF, WF] at hwf; exact hwf.1
        simp only [drain, hp.1, if_true] at h
        have hwf' : stackWF ((args.map fun a => (scopeOf sc (.list n true args), a)).reverse ++ rest) = true := by
          have := hp.2
          rw [wfList_all] at this
          simp only [stackWF, List.all_append, List.all_reverse, List.all_map, Bool.and_eq_true]
          refine ⟨?_, by simpa [stackWF] using hwfr⟩
          simpa [List.all_eq_true] using this
        have := ih _ acc r hwf' h
        refine this.trans ?_
        apply List.Perm.append_left
        simp only [specOf, List.flatMap_append, List.flatMap_cons, collect, collectList_eq]
        apply List.Perm.append_right
        exact (List.reverse_perm _).flatMap_right _

end TsV.TargetOs

namespace TsV.TargetOs
open TsV.Syn

theorem drainTop_isSome (m : Meta) : (drainTop m).isSome := by
  unfold drainTop
  apply drain_isSome; simp [stackSize]

theorem yielded_isSome (attrs : List Attr) : (yielded attrs).isSome := by
  unfold yielded
  have : ∀ (items : List Meta) acc, (items.foldl yieldStep (some acc)).isSome := by
    intro items
    induction items with
    | nil => intro acc; simp
    | cons m ms ih =>
      intro acc
      obtain ⟨r, hr⟩ := Option.isSome_iff_exists.mp (drainTop_isSome m)
      simp only [List.foldl_cons, yieldStep, hr]
      exact ih _
  exact this _ _

/-- the stack walk never runs out of fuel: `accept_target_os` always answers -/
theorem accept_isSome (attrs : List Attr) (T : List Str) : (accept attrs T).isSome := by
  unfold accept
  split
  · rfl
  · obtain ⟨ys, hys⟩ := Option.isSome_iff_exists.mp (yielded_isSome attrs)
    simp [hys]

end TsV.TargetOs
