import TsV.Lemmas.C06_Multi_Parse
/-!
# C06 in multi-file mode — several crates, imports, hash orders

"Output is a deterministic function of the inputs, not of scheduling or hashing."  In multi-file mode the
schedule / hash dependent ingredients of a run are

1. the order in which the parallel walker delivers the per-file results to the collector (`arrivals`),
2. the iteration order of every `HashSet<ImportedType>` (`import_types`: in each file, in the merged per-crate
   data where `resolve_renamed` and `used_imports` iterate over it) and `HashSet<String>` (`type_names`),
3. the iteration order of the `HashMap` `all_types` (only the re-export fallback of `used_imports` depends on
   it: `Generate.firstOther`),
4. the element `HashSet::find` returns in `reconcile_referenced_types` (`pick`).

The theorems below show that the job list handed to the back ends — and hence the output of all six back
ends — does not depend on 1–4, provided
* `WFm`: per crate one output file name / mode, type names and const names unique within each crate
  (as in single-file `C06_arrival_order`).
Nothing is assumed about the imports.  Until the `fix:` commit "resolve a type name imported from several crates the
same way in every run" the three look-ups `find_type` (4), `resolve_renamed` (2) and the re-export fallback of
`used_imports` (3) took the *first* match in hash order, and the theorems needed decidable hypotheses
(`Unambiguous`, `FilesPickOK`: no type name reachable from two crates) which a kernel-checked counter-example
showed to be necessary; that class was flagged `ambiguous` by the driver and not compared.  Each look-up now takes
the candidate whose crate name is smallest (`Pipeline.minByKey`, `Visitor.minCrate`), the hypotheses are gone, the
former counter-examples are regression examples below (both hash orders give the same jobs), and what remains of
`C06_multi_not_full` is the other class: two types of the same name in one crate keep their arrival order.

Hash orders are modelled by quantifying over *representatives*: `MapEq m m'` says that `m'` is the collected map
`m` with every item vector and every hash set in another order; every theorem holds for all representatives.
-/
namespace TsV.C06
open TsV TsV.Pipeline TsV.Collect TsV.C06M

/-! ## hypotheses on the arrivals -/

def typeKeys (l : List ParsedData) : List Str :=
  (l.flatMap (·.structs)).map (·.id.original) ++ (l.flatMap (·.enums)).map (·.id.original) ++
    (l.flatMap (·.aliases)).map (·.id.original)

def constKeys (l : List ParsedData) : List Str := (l.flatMap (·.consts)).map (·.id.original)

/-- per crate: one file name and mode; no two types share an original name; no two consts do -/
structure WFm (a : List ParsedData) : Prop where
  uniform : UniformPerCrate a
  types : ∀ d ∈ a, (typeKeys (arr a d.crateName)).Nodup
  consts : ∀ d ∈ a, (constKeys (arr a d.crateName)).Nodup

theorem mapWF_collect {a : List ParsedData} (h : WFm a) : MapWF (collect a) := by
  refine ⟨(sorted_keys (collect_sorted a)).nodup, ?_, ?_⟩
  · intro p hp
    obtain ⟨hv, hne⟩ := collect_entry a (c := p.1) (v := p.2) hp
    obtain ⟨d, hd, hc⟩ := (arr_ne_nil_iff a p.1).1 hne
    have := h.types d hd
    rw [hc] at this
    rw [hv, merged_structs, merged_enums, merged_aliases]
    simpa [typeKeys] using this
  · intro p hp
    obtain ⟨hv, hne⟩ := collect_entry a (c := p.1) (v := p.2) hp
    obtain ⟨d, hd, hc⟩ := (arr_ne_nil_iff a p.1).1 hne
    have := h.consts d hd
    rw [hc] at this
    rw [hv, merged_consts]
    simpa [constKeys] using this

/-! ## 1. arrival order, several crates -/

/-- **the collector**: permuted arrivals give the same crates in the same (sorted) order and, per crate,
permutation-equal item lists, equal hash sets and equal meta data -/
theorem C06_multi_collect (a b : List ParsedData) (hp : a.Perm b) (hu : UniformPerCrate a) :
    MapEq (collect a) (collect b) :=
  collect_mapEq_of a b (partRel_of_perm a b hp hu)

/-- the same for the hash order *inside* every arrival (`import_types`, `type_names` of a file) -/
theorem C06_multi_collect_file_hash_order (a a' : List ParsedData) (h : Rel₂ FileEq a a')
    (hu : UniformPerCrate a) : MapEq (collect a) (collect a') :=
  collect_mapEq_of a a' (partRel_of_fileEq a a' h hu)

/-- **C06, arrival order, several crates.**  For permuted arrivals the reconciled crates agree on everything
`generate_types` reads (`view`: crate key, sorted structs / enums / aliases / consts, file name, mode), on the
crate name, on `import_types` and `type_names` *as sets*, and on the recorded errors up to order. -/
theorem C06_multi_arrival_order (a b : List ParsedData) (hp : a.Perm b) (hw : WFm a) :
    (reconcile (collect a)).map view = (reconcile (collect b)).map view ∧
    Rel₂ (fun p q : Str × ParsedData => p.2.crateName = q.2.crateName ∧
        (∀ i, i ∈ p.2.importTypes ↔ i ∈ q.2.importTypes) ∧ (∀ t, t ∈ p.2.typeNames ↔ t ∈ q.2.typeNames) ∧
        p.2.errors.Perm q.2.errors)
      (reconcile (collect a)) (reconcile (collect b)) := by
  have h := reconcile_mapEq (C06_multi_collect a b hp hw.uniform) (mapWF_collect hw)
  refine ⟨Rel₂.map_eq h fun p q _ _ hr => ?_,
    Rel₂.imp h fun _ _ _ _ hr => ⟨hr.crateName, hr.imports, hr.typeNames, hr.errors⟩⟩
  simp only [view]
  rw [hr.key, hr.structs, hr.enums, hr.aliases, hr.consts, hr.fileName, hr.multiFile]

/-- **hash order of `import_types` in `resolve_renamed`**: every permutation of the import list resolves every
identifier alike (whatever is imported: the renaming crate with the smallest name decides) -/
theorem C06_resolve_import_order (crate : Str) (r : Renames) (imports₁ imports₂ : List ImportedType)
    (hp : imports₁.Perm imports₂) (id : Str) :
    resolveRenamed crate r imports₁ id = resolveRenamed crate r imports₂ id :=
  resolve_perm crate r imports₁ imports₂ id hp

/-- what it resolves to: if some import of `id` comes from a crate that renames it, the new name given by the
smallest such crate (by `Str.le`, Rust's `String: Ord`) -/
theorem C06_resolve_smallest_crate (crate : Str) (r : Renames) (imports : List ImportedType) (id n : Str)
    (h : resolveRenamed crate r imports id = some n) :
    (∃ c, (⟨c, id⟩ : ImportedType) ∈ imports ∧ renameOf r id c = some n ∧
      ∀ c' n', (⟨c', id⟩ : ImportedType) ∈ imports → renameOf r id c' = some n' → Str.le c c' = true) ∨
    ((∀ c' n', (⟨c', id⟩ : ImportedType) ∈ imports → renameOf r id c' ≠ some n') ∧ renameOf r id crate = some n) := by
  rw [MinByKey.resolveRenamed_eq] at h
  split at h
  · exact absurd h (by simp)
  · cases hm : minByKey (MinByKey.renCands r imports id) with
    | some m =>
      rw [hm] at h
      simp only [Option.some.injEq] at h
      have h1 := MinByKey.mem_renCands.1 (MinByKey.minByKey_mem hm)
      refine Or.inl ⟨m.1, h1.1, h ▸ h1.2, fun c' n' hc hr => ?_⟩
      exact MinByKey.minByKey_le hm (c', n') (MinByKey.mem_renCands.2 ⟨hc, hr⟩ : (c', n') ∈ _)
    | none =>
      rw [hm] at h
      refine Or.inr ⟨fun c' n' hc hr => ?_, h⟩
      have : (c', n') ∈ MinByKey.renCands r imports id := MinByKey.mem_renCands.2 ⟨hc, hr⟩
      rw [MinByKey.minByKey_eq_none.1 hm] at this
      simp at this

/-- the same for the whole of `reconcile`: any representative `m'` of the collected map (item vectors and hash
sets in any order) reconciles to the same views -/
theorem C06_multi_reconcile_hash_order (a : List ParsedData) (hw : WFm a)
    (m' : List (Str × ParsedData)) (h : MapEq (collect a) m') :
    (reconcile (collect a)).map view = (reconcile m').map view := by
  refine Rel₂.map_eq (reconcile_mapEq h (mapWF_collect hw)) fun p q _ _ hr => ?_
  simp only [view]
  rw [hr.key, hr.structs, hr.enums, hr.aliases, hr.consts, hr.fileName, hr.multiFile]

/-! ## 2. hash order of the import fold in `used_imports` -/

/-- **`used_imports` does not depend on the iteration order of `import_types`** (no hypothesis needed: the
result is a sorted map of sorted sets and the fold computes a union) -/
theorem C06_usedImports_import_order (d : ParsedData) (all : List (Str × List Str))
    (imports₁ imports₂ : List ImportedType) (fo : Str → Option Str) (hp : imports₁.Perm imports₂) :
    usedImports d all imports₁ fo = usedImports d all imports₂ fo :=
  usedImports_perm d all imports₁ imports₂ fo hp

theorem C06_usedImports_sorted (d : ParsedData) (all : List (Str × List Str)) (imports : List ImportedType)
    (fo : Str → Option Str) : WFS (usedImports d all imports fo) := usedImports_wfs d all imports fo

/-- … nor on the fallback choice `firstOther` when no import takes the fallback, nor on the order of the
name sets in `all_types` -/
theorem C06_usedImports_firstOther (d : ParsedData) (all all' : List (Str × List Str))
    (imports : List ImportedType) (fo fo' : Str → Option Str) (ha : AllRel all all')
    (hnf : ∀ i ∈ imports, i.baseCrate ≠ d.crateName → takesFallback all i = true →
      fo i.typeName = fo' i.typeName) :
    usedImports d all imports fo = usedImports d all' imports fo' :=
  usedImports_congr d d rfl all all' imports imports fo fo' (fun _ => Iff.rfl)
    fun i hi hne => contrib_congr all all' fo fo' i ha (hnf i hi hne)

/-- **hash order of `all_types`**: the fallback finds the same crate in every iteration order, however many
crates define the name -/
theorem C06_firstOther_hash_order (all all' : List (Str × List Str)) (cur name : Str) (hp : all.Perm all') :
    Generate.firstOther all cur name = Generate.firstOther all' cur name :=
  firstOther_perm all all' cur name hp

/-- which one: a crate other than the current one that defines the name, and the smallest such crate -/
theorem C06_firstOther_smallest_crate (all : List (Str × List Str)) (cur name c : Str)
    (h : Generate.firstOther all cur name = some c) :
    (∃ ns, (c, ns) ∈ all ∧ c ≠ cur ∧ name ∈ ns) ∧
      ∀ c' ns, (c', ns) ∈ all → c' ≠ cur → name ∈ ns → Str.le c c' = true :=
  MinByKey.firstOther_spec h

/-- hence `used_imports` as a whole: any two iteration orders of `import_types`, and of `all_types` where it is
iterated (the fallback; `all_types.get(crate)` is a keyed look-up) -/
theorem C06_usedImports_hash_order (d : ParsedData) (all all' : List (Str × List Str))
    (imports₁ imports₂ : List ImportedType) (hi : imports₁.Perm imports₂) (hp : all.Perm all') :
    usedImports d all imports₁ (Generate.firstOther all d.crateName) =
      usedImports d all imports₂ (Generate.firstOther all' d.crateName) := by
  rw [usedImports_perm d all imports₁ imports₂ _ hi]
  have : Generate.firstOther all d.crateName = Generate.firstOther all' d.crateName :=
    funext fun n => firstOther_perm all all' d.crateName n hp
  rw [this]

/-! ## 3. the job list of a multi-file run -/

/-- **C06, multi-file mode.**  The jobs `(crate, data, scoped imports)` that `Generate.run` hands to the back
ends (`run_multi_eq`: it uses `jobsWith id (collect arrivals)`) are, as far as any back end can see
(`jobView`), the same for
* every permutation `b` of the arrivals `a`,
* every representative `m₁` / `m₂` of the collected maps — i.e. every iteration order of every `import_types`
  and `type_names` set (and every order of the item vectors),
* every iteration order `σ₁` / `σ₂` of the `all_types` hash map. -/
theorem C06_multi (a b : List ParsedData) (hp : a.Perm b) (hw : WFm a)
    (m₁ m₂ : List (Str × ParsedData)) (h₁ : MapEq (collect a) m₁) (h₂ : MapEq (collect b) m₂)
    (σ₁ σ₂ : List (Str × List Str) → List (Str × List Str))
    (hσ₁ : ∀ l, (σ₁ l).Perm l) (hσ₂ : ∀ l, (σ₂ l).Perm l) :
    (jobsWith σ₁ m₁).map jobView = (jobsWith σ₂ m₂).map jobView := by
  have wf := mapWF_collect hw
  have e1 := jobs_congr h₁ wf id σ₁ (fun _ => .refl _) hσ₁
  have e2 := jobs_congr ((C06_multi_collect a b hp hw.uniform).trans h₂) wf id σ₂ (fun _ => .refl _) hσ₂
  exact e1.symm.trans e2

/-- arrivals that differ by the arrival order *and* by the hash order inside every file -/
def ArrEq (a b : List ParsedData) : Prop := ∃ a', Rel₂ FileEq a a' ∧ a'.Perm b

theorem uniform_of_fileEq {a a' : List ParsedData} (h : Rel₂ FileEq a a') (hu : UniformPerCrate a) :
    UniformPerCrate a' := by
  intro d hd d' hd' hc
  obtain ⟨x, hx, hxd⟩ := Rel₂.exists_left h d hd
  obtain ⟨y, hy, hyd⟩ := Rel₂.exists_left h d' hd'
  have := hu x hx y hy (hxd.crateName.trans (hc.trans hyd.crateName.symm))
  exact ⟨hxd.fileName.symm.trans (this.1.trans hyd.fileName), hxd.multiFile.symm.trans (this.2.trans hyd.multiFile)⟩

theorem C06_multi_collect_arrEq (a b : List ParsedData) (h : ArrEq a b) (hu : UniformPerCrate a) :
    MapEq (collect a) (collect b) := by
  obtain ⟨a', h1, h2⟩ := h
  exact (C06_multi_collect_file_hash_order a a' h1 hu).trans
    (C06_multi_collect a' b h2 (uniform_of_fileEq h1 hu))

/-- `C06_multi` for arrivals that also differ in every file's own hash orders -/
theorem C06_multi' (a b : List ParsedData) (hp : ArrEq a b) (hw : WFm a)
    (m₁ m₂ : List (Str × ParsedData)) (h₁ : MapEq (collect a) m₁) (h₂ : MapEq (collect b) m₂)
    (σ₁ σ₂ : List (Str × List Str) → List (Str × List Str))
    (hσ₁ : ∀ l, (σ₁ l).Perm l) (hσ₂ : ∀ l, (σ₂ l).Perm l) :
    (jobsWith σ₁ m₁).map jobView = (jobsWith σ₂ m₂).map jobView := by
  have wf := mapWF_collect hw
  have e1 := jobs_congr h₁ wf id σ₁ (fun _ => .refl _) hσ₁
  have e2 := jobs_congr ((C06_multi_collect_arrEq a b hp hw.uniform).trans h₂) wf id σ₂ (fun _ => .refl _) hσ₂
  exact e1.symm.trans e2

/-! ## 4. through `Generate.run`: walk order, `find` choice, all six back ends -/

/-- `Generate.run` in multi-file mode, spelled with `jobsWith` and `genAll` -/
theorem run_multi (E : Ext) (lang : Generate.LangCfg) (targetOs : List Str)
    (pick : List ImportedType → Option ImportedType) (files : List Generate.SourceFile) :
    Generate.run E lang true targetOs pick files =
      (Generate.parseAll E { ignoredTypes := Generate.ignoredTypes lang, multiFile := true, targetOs } pick files).bind
        fun arrivals =>
          if !(allErrors (reconcile (collect arrivals))).isEmpty then
            .ok (.parseErrors (allErrors (reconcile (collect arrivals))))
          else (genAll E lang true (jobsWith id (collect arrivals))).bind fun o => .ok (.outputs o) := by
  rw [run_multi_eq]
  cases lang <;> rfl

/-- two results of a run: equal, or both aborted by `check_parse_errors` with the same errors in another order -/
def RunSim : Outcome Generate.RunResult → Outcome Generate.RunResult → Prop
  | .ok (.parseErrors e), .ok (.parseErrors e') => e.Perm e'
  | x, y => x = y

theorem RunSim.of_eq {x y : Outcome Generate.RunResult} (h : x = y) : RunSim x y := by
  subst h
  cases x with
  | ok r =>
    cases r with
    | outputs o => rfl
    | parseErrors e => exact List.Perm.refl e
  | err e => rfl
  | panic s => rfl

/-- **C06, multi-file mode, whole run.**  If the files parse, then for every order in which the walker visits
the files and every choice `min_by_key` makes among equally minimal candidates in `find_type` (`pick`) the run
produces the same output files with the same
contents, for each of the six back ends (or aborts with the same parse errors, listed in another order). -/
theorem C06_multi_run (E : Ext) (lang : Generate.LangCfg) (targetOs : List Str)
    (pick pick' : List ImportedType → Option ImportedType) (files files' : List Generate.SourceFile)
    (hf : files.Perm files') (hpk : ValidPick pick) (hpk' : ValidPick pick')
    (a : List ParsedData)
    (ha : Generate.parseAll E { ignoredTypes := Generate.ignoredTypes lang, multiFile := true, targetOs } pick files
      = .ok a)
    (hw : WFm a) :
    RunSim (Generate.run E lang true targetOs pick files) (Generate.run E lang true targetOs pick' files') := by
  have ha' := ha
  rw [parseAll_pick E _ hpk hpk' files] at ha'
  obtain ⟨b, hb, hab⟩ := parseAll_perm E _ pick' hf a ha'
  have hme := C06_multi_collect a b hab hw.uniform
  have wf := mapWF_collect hw
  rw [run_multi, run_multi, ha, hb]
  simp only [Outcome.bind]
  rw [← allErrors_isEmpty_congr hme wf]
  by_cases he : (allErrors (reconcile (collect a))).isEmpty = true
  · simp only [he, Bool.not_true, Bool.false_eq_true, if_false]
    apply RunSim.of_eq
    rw [genAll_congr E lang true (jobs_congr hme wf id id (fun _ => .refl _) (fun _ => .refl _))]
  · simp only [he, Bool.not_false, if_true]
    show List.Perm _ _
    unfold allErrors
    exact Rel₂.flatMap_perm (jobs_sets hme wf) fun _ _ _ _ hr => hr.2.2

/-- without recorded parse errors: literally the same result -/
theorem C06_multi_run_eq (E : Ext) (lang : Generate.LangCfg) (targetOs : List Str)
    (pick pick' : List ImportedType → Option ImportedType) (files files' : List Generate.SourceFile)
    (hf : files.Perm files') (hpk : ValidPick pick) (hpk' : ValidPick pick')
    (a : List ParsedData)
    (ha : Generate.parseAll E { ignoredTypes := Generate.ignoredTypes lang, multiFile := true, targetOs } pick files
      = .ok a)
    (hw : WFm a) (hne : allErrors (reconcile (collect a)) = []) :
    Generate.run E lang true targetOs pick files = Generate.run E lang true targetOs pick' files' := by
  have ha' := ha
  rw [parseAll_pick E _ hpk hpk' files] at ha'
  obtain ⟨b, hb, hab⟩ := parseAll_perm E _ pick' hf a ha'
  have hme := C06_multi_collect a b hab hw.uniform
  have wf := mapWF_collect hw
  have he : (allErrors (reconcile (collect a))).isEmpty = true := by rw [hne]; rfl
  rw [run_multi, run_multi, ha, hb]
  simp only [Outcome.bind]
  rw [← allErrors_isEmpty_congr hme wf]
  simp only [he, Bool.not_true, Bool.false_eq_true, if_false]
  rw [genAll_congr E lang true (jobs_congr hme wf id id (fun _ => .refl _) (fun _ => .refl _))]

/-! ## the statement at full strength, and the one class on which it still fails -/

/-- C06 for multi-file mode without any hypothesis on names or imports (`UniformPerCrate` is an invariant of real
arrivals: the crate determines the output file name and the mode) -/
def C06_multi_full : Prop :=
  ∀ (a b : List ParsedData) (m₁ m₂ : List (Str × ParsedData))
    (σ₁ σ₂ : List (Str × List Str) → List (Str × List Str)),
    a.Perm b → UniformPerCrate a → MapEq (collect a) m₁ → MapEq (collect b) m₂ →
    (∀ l, (σ₁ l).Perm l) → (∀ l, (σ₂ l).Perm l) →
    (jobsWith σ₁ m₁).map jobView = (jobsWith σ₂ m₂).map jobView

/-- the one class of inputs on which it fails: a crate with two types, or two consts, of the same name
(decidable).  The class `Known_ambiguous_imports` (a type name reachable from two crates) that stood next to it is
gone: see `C06_multi_imports_full`. -/
def Known_duplicate_names (a : List ParsedData) : Prop :=
  ¬ ((∀ d ∈ a, (typeKeys (arr a d.crateName)).Nodup) ∧ (∀ d ∈ a, (constKeys (arr a d.crateName)).Nodup))

instance (a : List ParsedData) : Decidable (Known_duplicate_names a) := by
  unfold Known_duplicate_names; infer_instance

/-- **C06 in multi-file mode, every import pattern.**  The statement at full strength restricted only by "no two
types / consts of one crate share a name": whatever is imported from wherever — the same type name from two or
three crates, renamed by none, some or all of them, through `use`, qualified paths, `self::` / `crate::` paths or a
re-exporting crate that is not part of the run — the jobs do not depend on the arrival order nor on any hash
iteration order.  (Before the repair this needed `¬ Known_ambiguous_imports a` and was false without it.) -/
def C06_multi_imports_full : Prop :=
  ∀ (a b : List ParsedData) (m₁ m₂ : List (Str × ParsedData))
    (σ₁ σ₂ : List (Str × List Str) → List (Str × List Str)),
    a.Perm b → UniformPerCrate a → MapEq (collect a) m₁ → MapEq (collect b) m₂ →
    (∀ l, (σ₁ l).Perm l) → (∀ l, (σ₂ l).Perm l) → ¬ Known_duplicate_names a →
    (jobsWith σ₁ m₁).map jobView = (jobsWith σ₂ m₂).map jobView

theorem C06_multi_partial (a b : List ParsedData) (m₁ m₂ : List (Str × ParsedData))
    (σ₁ σ₂ : List (Str × List Str) → List (Str × List Str))
    (hp : a.Perm b) (hun : UniformPerCrate a) (h₁ : MapEq (collect a) m₁) (h₂ : MapEq (collect b) m₂)
    (hσ₁ : ∀ l, (σ₁ l).Perm l) (hσ₂ : ∀ l, (σ₂ l).Perm l)
    (k1 : ¬ Known_duplicate_names a) :
    (jobsWith σ₁ m₁).map jobView = (jobsWith σ₂ m₂).map jobView := by
  have hd := Classical.not_not.1 k1
  exact C06_multi a b hp ⟨hun, hd.1, hd.2⟩ m₁ m₂ h₁ h₂ σ₁ σ₂ hσ₁ hσ₂

theorem C06_multi_imports : C06_multi_imports_full :=
  fun a b m₁ m₂ σ₁ σ₂ hp hun h₁ h₂ hσ₁ hσ₂ k1 => C06_multi_partial a b m₁ m₂ σ₁ σ₂ hp hun h₁ h₂ hσ₁ hσ₂ k1

/-! ## non-vacuity, regression examples and the remaining counter-example -/

def mkS (orig ren : Str) (sr : Bool) (fields : List (Str × RustType)) : RustStruct :=
  { id := ⟨orig, ren, sr⟩, genericTypes := [],
    fields := fields.map fun p => ⟨⟨p.1, p.1, false⟩, p.2, [], false, []⟩,
    comments := [], decorators := {}, isRedacted := false }

def tyName : RustType → Str
  | .simple id => id
  | _ => []

/-- the field types of the structs of a job -/
def fieldTypes (v : Str × List RustStruct × List RustEnum × List RustTypeAlias × List RustConst ×
    Str × Str × Bool × Option ScopedCrateTypes) : List (List Str) :=
  v.2.1.map fun s => s.fields.map fun f => tyName f.ty

/-! ### a two-crate run with a cross-crate import

crate `a` (two files): `#[serde(rename = "FooR")] struct Foo`, `struct Qux`;
crate `b`: `use a::{Foo, Qux}; struct Bar { f: Foo, g: Qux }`. -/

def fA1 : ParsedData :=
  { structs := [mkS s%"Foo" s%"FooR" true []], typeNames := [s%"FooR"], crateName := s%"a", fileName := s%"a",
    multiFile := true }
def fA2 : ParsedData :=
  { structs := [mkS s%"Qux" s%"Qux" false []], typeNames := [s%"Qux"], crateName := s%"a", fileName := s%"a",
    multiFile := true }
def fB : ParsedData :=
  { structs := [mkS s%"Bar" s%"Bar" false [(s%"f", .simple s%"Foo"), (s%"g", .simple s%"Qux")]],
    importTypes := [⟨s%"a", s%"Foo"⟩, ⟨s%"a", s%"Qux"⟩], typeNames := [s%"Bar"], crateName := s%"b",
    fileName := s%"b", multiFile := true }
def exArr : List ParsedData := [fB, fA1, fA2]

theorem exArr_wf : WFm exArr := by
  refine ⟨?_, ?_, ?_⟩
  · unfold UniformPerCrate; decide
  · decide
  · decide

/-- the hypotheses of `C06_multi` are met, and the result is not trivial: the reference to `Foo` in crate `b`
is rewritten to crate `a`'s serde name, crate `b` imports `Qux` from `a` -/
example : ((jobsWith id (collect exArr)).map jobView).map (fun v => (v.1, fieldTypes v, v.2.2.2.2.2.2.2.2)) =
    [(s%"a", [[], []], some []), (s%"b", [[s%"FooR", s%"Qux"]], some [(s%"a", [s%"Qux"])])] := by
  simp [jobsWith, jobView, fieldTypes, tyName, reconcile, collect, upsert, addAssign, exArr, fA1, fA2, fB, mkS,
    reconcileOne, sortBy, List.mergeSort, collectSerdeRenames, checkField, checkType, resolveRenamed, minByKey,
    hasRename, renameOf, Str.le, Str.lt, Visitor.insertSet, usedImports, allTypes, scopedInsert, Generate.firstOther]

/-- `C06_multi` applied: the other arrival orders, the import set of `b` iterated backwards, and the
`all_types` map iterated backwards give the same jobs -/
example : (jobsWith List.reverse (collect [fA2, fB, fA1])).map jobView = (jobsWith id (collect exArr)).map jobView :=
  (C06_multi exArr [fA2, fB, fA1] (List.perm_append_comm (l₁ := [fB, fA1]) (l₂ := [fA2])) exArr_wf _ _ (MapEq.refl _) (MapEq.refl _) id
    List.reverse (fun _ => .refl _) (fun l => List.reverse_perm l)).symm

/-! ### regression 1 (the former counter-example to `C06_multi_full`): `resolve_renamed`

crates `a` and `b` both export a `Foo` with different serde names; crate `c` imports both and refers to `Foo`.
Before the repair the first import in hash order won (`Bar.f : FooA` for the order a, b and `Bar.f : FooB` for
b, a); now crate `a` wins in both. -/

def gA : ParsedData :=
  { structs := [mkS s%"Foo" s%"FooA" true []], typeNames := [s%"FooA"], crateName := s%"a", fileName := s%"a",
    multiFile := true }
def gB : ParsedData :=
  { structs := [mkS s%"Foo" s%"FooB" true []], typeNames := [s%"FooB"], crateName := s%"b", fileName := s%"b",
    multiFile := true }
def gC (imps : List ImportedType) : ParsedData :=
  { structs := [mkS s%"Bar" s%"Bar" false [(s%"f", .simple s%"Foo")]],
    importTypes := imps, typeNames := [s%"Bar"], crateName := s%"c", fileName := s%"c", multiFile := true }
def impAB : List ImportedType := [⟨s%"a", s%"Foo"⟩, ⟨s%"b", s%"Foo"⟩]
def impBA : List ImportedType := [⟨s%"b", s%"Foo"⟩, ⟨s%"a", s%"Foo"⟩]

theorem cx_ab : ((jobsWith id (collect [gA, gB, gC impAB])).map jobView).map fieldTypes =
    [[[]], [[]], [[s%"FooA"]]] := by decide +kernel

theorem cx_ba : ((jobsWith id (collect [gA, gB, gC impBA])).map jobView).map fieldTypes =
    [[[]], [[]], [[s%"FooA"]]] := by decide +kernel

/-- the two files `gC impAB` / `gC impBA` are the same file with its import set in two hash orders -/
theorem gC_fileEq : FileEq (gC impAB) (gC impBA) :=
  ⟨rfl, rfl, rfl, rfl, rfl, fun i => by simp [gC, impAB, impBA, or_comm], fun _ => Iff.rfl, rfl, rfl, rfl⟩

theorem gABC_wf : WFm [gA, gB, gC impAB] := by
  refine ⟨?_, ?_, ?_⟩
  · unfold UniformPerCrate; decide
  · decide
  · decide

/-- **both hash orders of the import set of crate `c` give the same jobs** (by the theorem, and above by
evaluation: `Bar.f : FooA` in both) -/
theorem regression_resolve_renamed :
    (jobsWith id (collect [gA, gB, gC impAB])).map jobView = (jobsWith id (collect [gA, gB, gC impBA])).map jobView :=
  have hrel : Rel₂ FileEq [gA, gB, gC impAB] [gA, gB, gC impBA] :=
    ⟨⟨rfl, rfl, rfl, rfl, rfl, fun _ => Iff.rfl, fun _ => Iff.rfl, rfl, rfl, rfl⟩,
     ⟨rfl, rfl, rfl, rfl, rfl, fun _ => Iff.rfl, fun _ => Iff.rfl, rfl, rfl, rfl⟩, gC_fileEq, trivial⟩
  C06_multi' [gA, gB, gC impAB] [gA, gB, gC impBA] ⟨_, hrel, .refl _⟩
    gABC_wf _ _ (MapEq.refl _) (MapEq.refl _) id id (fun _ => .refl _) (fun _ => .refl _)

/-! ### regression 2: the re-export fallback of `used_imports`

crates `a` and `b` both define `T`; crate `c` imports `T` through a crate `x` that is not part of the run
(a re-export).  Before the repair `used_imports` attributed it to the first crate in `all_types` hash order that
has a `T` (`a` for the order a, b, c and `b` for the reverse); now to `a` in both. -/

def hT (c : Str) : ParsedData :=
  { structs := [mkS s%"T" s%"T" false []], typeNames := [s%"T"], crateName := c, fileName := c, multiFile := true }
def hC : ParsedData :=
  { structs := [mkS s%"Bar" s%"Bar" false [(s%"f", .simple s%"T")]],
    importTypes := [⟨s%"x", s%"T"⟩], typeNames := [s%"Bar"], crateName := s%"c", fileName := s%"c",
    multiFile := true }

theorem regression_fallback :
    ((jobsWith id (collect [hT s%"a", hT s%"b", hC])).map jobView).map (·.2.2.2.2.2.2.2.2) =
      [some [], some [], some [(s%"a", [s%"T"])]] ∧
    ((jobsWith List.reverse (collect [hT s%"a", hT s%"b", hC])).map jobView).map (·.2.2.2.2.2.2.2.2) =
      [some [], some [], some [(s%"a", [s%"T"])]] := by
  constructor <;> decide +kernel

/-- the crate names decide, not the order of arrival: with the crates called `b` and `a` (in that order of
arrival) it is still `a` -/
example : ((jobsWith List.reverse (collect [hT s%"b", hC, hT s%"a"])).map jobView).map (·.2.2.2.2.2.2.2.2) =
      [some [], some [], some [(s%"a", [s%"T"])]] := by decide +kernel

/-! ### regression 3: `find_type` — a file that imports `Foo` from two crates and refers to it

`reconcile_referenced_types` keeps the import from the crate with the smallest name, whichever of the candidates
`min_by_key` is offered first. -/

example : (Visitor.reconcileReferencedTypes UnicodeOps.ascii (fun l => l.head?) (gC impAB)).importTypes = [⟨s%"a", s%"Foo"⟩] ∧
    (Visitor.reconcileReferencedTypes UnicodeOps.ascii (fun l => l.getLast?) (gC impBA)).importTypes = [⟨s%"a", s%"Foo"⟩] := by
  constructor <;> decide +kernel

example : Visitor.reconcileReferencedTypes UnicodeOps.ascii (fun l => l.head?) (gC impAB) =
    Visitor.reconcileReferencedTypes UnicodeOps.ascii (fun l => l.getLast?) (gC impAB) :=
  reconcileReferencedTypes_pick _ validPick_head validPick_getLast _

/-! ### the remaining class: two types of one name in one crate

crate `a`, file 1: `struct X { p: u8 }`; file 2: `mod inner { struct X { q: u8 } }` (typeshare flattens modules).
`Vec::sort` is stable and both have the key `X`: they stay in arrival order.  Replayed on the real binary with
the collector hook (`TYPESHARE_VERIF_ORDER=0,1` / `1,0`): the two `X` change places in `a.ts`
(open finding `duplicate-type-names-arrival-order`). -/

def dX (f : Str) : ParsedData :=
  { structs := [mkS s%"X" s%"X" false [(f, .prim .u8)]], typeNames := [s%"X"], crateName := s%"a", fileName := s%"a",
    multiFile := true }

example : Known_duplicate_names [dX s%"p", dX s%"q"] := by
  unfold Known_duplicate_names; decide +kernel

/-- the field names of the structs of a job -/
def fieldNames (v : Str × List RustStruct × List RustEnum × List RustTypeAlias × List RustConst ×
    Str × Str × Bool × Option ScopedCrateTypes) : List (List Str) :=
  v.2.1.map fun s => s.fields.map fun f => f.id.original

theorem dup_pq : ((jobsWith id (collect [dX s%"p", dX s%"q"])).map jobView).map fieldNames = [[[s%"p"], [s%"q"]]] := by
  simp [jobsWith, jobView, fieldNames, reconcile, collect, upsert, addAssign, dX, mkS,
    reconcileOne, sortBy, List.mergeSort, collectSerdeRenames, checkField, checkType,
    Str.le, Str.lt, Visitor.insertSet]

theorem dup_qp : ((jobsWith id (collect [dX s%"q", dX s%"p"])).map jobView).map fieldNames = [[[s%"q"], [s%"p"]]] := by
  simp [jobsWith, jobView, fieldNames, reconcile, collect, upsert, addAssign, dX, mkS,
    reconcileOne, sortBy, List.mergeSort, collectSerdeRenames, checkField, checkType,
    Str.le, Str.lt, Visitor.insertSet]

/-- **the unconditional statement is still false** (kernel-checked witness: the same two files in the two arrival
orders ⇒ `X {p}, X {q}` vs `X {q}, X {p}`); by `C06_multi_partial` every counter-example is in
`Known_duplicate_names` -/
theorem C06_multi_not_full : ¬ C06_multi_full := by
  intro h
  have hu : UniformPerCrate [dX s%"p", dX s%"q"] := by unfold UniformPerCrate; decide
  have e := h [dX s%"p", dX s%"q"] [dX s%"q", dX s%"p"] (collect [dX s%"p", dX s%"q"]) (collect [dX s%"q", dX s%"p"])
    id id (List.Perm.swap _ _ _) hu (MapEq.refl _) (MapEq.refl _) (fun _ => .refl _) (fun _ => .refl _)
  have e' := congrArg (List.map fieldNames) e
  rw [dup_pq, dup_qp] at e'
  exact absurd e' (by decide)

/-! ### a concrete run that meets the hypotheses of `C06_multi_run`

crate `a`: `#[typeshare] struct Foo { x: u8 }`; crate `b`: `use a::Foo; #[typeshare] struct Bar { f: Foo }` -/

open TsV.Syn in
def E0 : Ext := { U := UnicodeOps.ascii, parseType := fun _ => none }
open TsV.Syn in
def tsAttr : Attr := ⟨.path [s%"typeshare"]⟩
open TsV.Syn in
def fld (n t : Str) : Field := ⟨[], some n, .path [] t []⟩
def srcA : Generate.SourceFile :=
  { crateName := s%"a", fileName := s%"a", path := s%"a/src/lib.rs",
    file := { attrs := [], marker := true,
              items := [.struct [tsAttr] s%"Foo" [] (.named [fld s%"x" s%"u8"])] } }
def srcB : Generate.SourceFile :=
  { crateName := s%"b", fileName := s%"b", path := s%"b/src/lib.rs",
    file := { attrs := [], marker := true,
              items := [.use (.path s%"a" (.name s%"Foo")),
                        .struct [tsAttr] s%"Bar" [] (.named [fld s%"f" s%"Foo"])] } }
def ctx0 : ParseContext := { ignoredTypes := [], multiFile := true, targetOs := [] }
def exRun : List ParsedData := getOk (Generate.parseAll E0 ctx0 (fun l => l.head?) [srcA, srcB])

theorem exRun_ok : Generate.parseAll E0 ctx0 (fun l => l.head?) [srcA, srcB] = .ok exRun :=
  eq_ok_getOk (by decide +kernel)
theorem exRun_wf : WFm exRun := by
  refine ⟨?_, ?_, ?_⟩
  · unfold UniformPerCrate; decide +kernel
  · decide +kernel
  · decide +kernel
theorem exRun_noErrors : allErrors (reconcile (collect exRun)) = [] := by
  have : (allErrors (collect exRun)).isEmpty = true := by decide +kernel
  have h2 : allErrors (reconcile (collect exRun)) = allErrors (collect exRun) := by
    unfold allErrors; rw [reconcile_eq, List.flatMap_map]; rfl
  rw [h2]; exact List.isEmpty_iff.1 this
/-- the run really has two crates and a cross-crate import -/
example : exRun.map (fun d => (d.crateName, d.importTypes)) = [(s%"a", []), (s%"b", [⟨s%"a", s%"Foo"⟩])] := by
  decide +kernel

/-- for every Go configuration: the other walk order and the other choice give the same result -/
example (cfg : Lang.Go.Cfg) :
    Generate.run E0 (.go cfg) true [] (fun l => l.head?) [srcA, srcB] =
      Generate.run E0 (.go cfg) true [] (fun l => l.getLast?) [srcB, srcA] :=
  C06_multi_run_eq E0 (.go cfg) [] _ _ [srcA, srcB] [srcB, srcA] (List.Perm.swap _ _ _) validPick_head
    validPick_getLast exRun exRun_ok exRun_wf exRun_noErrors

/-! ### a concrete *ambiguous* run (the witness of the repaired defect) through `C06_multi_run`

crates `ledger` and `directory` both define `Account` (renamed `LedgerAccount` / `DirectoryAccount`); crate `app`
imports one in `billing.rs` and the other in `audit.rs`.  On the unrepaired code 24 runs of the real binary gave two
different `app.ts`; here: every walk order and every choice give the same run. -/

open TsV.Syn in
def renAttr (n : Str) : Attr := ⟨.list [s%"serde"] true [.nameValue [s%"rename"] (some (.str n))]⟩
def srcLedger : Generate.SourceFile :=
  { crateName := s%"ledger", fileName := s%"ledger", path := s%"ledger/src/lib.rs",
    file := { attrs := [], marker := true,
              items := [.struct [tsAttr, renAttr s%"LedgerAccount"] s%"Account" [] (.named [fld s%"x" s%"u8"])] } }
def srcDirectory : Generate.SourceFile :=
  { crateName := s%"directory", fileName := s%"directory", path := s%"directory/src/lib.rs",
    file := { attrs := [], marker := true,
              items := [.struct [tsAttr, renAttr s%"DirectoryAccount"] s%"Account" [] (.named [fld s%"y" s%"u8"])] } }
def srcBilling : Generate.SourceFile :=
  { crateName := s%"app", fileName := s%"app", path := s%"app/src/billing.rs",
    file := { attrs := [], marker := true,
              items := [.use (.path s%"ledger" (.name s%"Account")),
                        .struct [tsAttr] s%"Invoice" [] (.named [fld s%"f" s%"Account"])] } }
def srcAudit : Generate.SourceFile :=
  { crateName := s%"app", fileName := s%"app", path := s%"app/src/audit.rs",
    file := { attrs := [], marker := true,
              items := [.use (.path s%"directory" (.name s%"Account")),
                        .alias [tsAttr] s%"Trail" [] (.path [] s%"Account" [])] } }
def ambFiles : List Generate.SourceFile := [srcLedger, srcDirectory, srcBilling, srcAudit]
def ambRun : List ParsedData := getOk (Generate.parseAll E0 ctx0 (fun l => l.head?) ambFiles)

theorem ambRun_ok : Generate.parseAll E0 ctx0 (fun l => l.head?) ambFiles = .ok ambRun :=
  eq_ok_getOk (by decide +kernel)
theorem ambRun_wf : WFm ambRun := by
  refine ⟨?_, ?_, ?_⟩
  · unfold UniformPerCrate; decide +kernel
  · decide +kernel
  · decide +kernel
theorem ambRun_noErrors : allErrors (reconcile (collect ambRun)) = [] := by
  have : (allErrors (collect ambRun)).isEmpty = true := by decide +kernel
  have h2 : allErrors (reconcile (collect ambRun)) = allErrors (collect ambRun) := by
    unfold allErrors; rw [reconcile_eq, List.flatMap_map]; rfl
  rw [h2]; exact List.isEmpty_iff.1 this

/-- crate `app` really imports `Account` from two crates that rename it differently, and both references (the
field of `Invoice` in `billing.rs`, the alias `Trail` in `audit.rs`) resolve to the name given by `directory` (the
smaller crate name), not to the one of the crate imported first or in the same file -/
example : ((jobsWith id (collect ambRun)).map jobView).map (fun v => (v.1, fieldTypes v, v.2.2.2.1.map fun a => tyName a.ty)) =
      [(s%"app", [[s%"DirectoryAccount"]], [s%"DirectoryAccount"]), (s%"directory", [[[]]], []), (s%"ledger", [[[]]], [])] ∧
    (ambRun.filter (·.crateName == s%"app")).map (·.importTypes) =
      [[⟨s%"ledger", s%"Account"⟩], [⟨s%"directory", s%"Account"⟩]] := by
  constructor <;> decide +kernel

/-- every Go configuration, and TypeScript (which prints the import clause): the reverse walk order and the other
choice give the same result -/
example (cfg : Lang.Go.Cfg) :
    Generate.run E0 (.go cfg) true [] (fun l => l.head?) ambFiles =
      Generate.run E0 (.go cfg) true [] (fun l => l.getLast?) ambFiles.reverse :=
  C06_multi_run_eq E0 (.go cfg) [] (fun l => l.head?) (fun l => l.getLast?) ambFiles ambFiles.reverse
    (List.reverse_perm _).symm validPick_head validPick_getLast ambRun ambRun_ok ambRun_wf ambRun_noErrors

example : Generate.run E0 (.typescript {}) true [] (fun l => l.head?) ambFiles =
      Generate.run E0 (.typescript {}) true [] (fun l => l.getLast?) ambFiles.reverse :=
  C06_multi_run_eq E0 (.typescript {}) [] (fun l => l.head?) (fun l => l.getLast?) ambFiles ambFiles.reverse
    (List.reverse_perm _).symm validPick_head validPick_getLast ambRun ambRun_ok ambRun_wf ambRun_noErrors

end TsV.C06
