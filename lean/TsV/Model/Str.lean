/-!
# Text

Model text is `List Char` (code points), not `String`: structural recursion and the core `List`
lemmas apply directly.  Rust's `String` ordering (bytewise on UTF-8) coincides with code-point
lexicographic order, which is what `strLt` below gives.
-/
namespace TsV

abbrev Str := List Char

/-- `s%"abc"` elaborates to the literal list `['a','b','c']`, which kernel-reduces under `decide`. -/
syntax:max "s%" str : term
macro_rules
  | `(s% $s:str) => do
    let cs := s.getString.toList
    let elems : Array (Lean.TSyntax `term) := (cs.map fun c => (Lean.quote c : Lean.TSyntax `term)).toArray
    `(([$elems,*] : List Char))

namespace Str

/-- ASCII predicates / maps (Rust `char::is_ascii_*`, `to_ascii_*`), written as explicit finite
matches so that facts about them are closed by case analysis instead of code-point arithmetic. -/
def isAsciiUpper : Char → Bool
  | 'A' => true
  | 'B' => true
  | 'C' => true
  | 'D' => true
  | 'E' => true
  | 'F' => true
  | 'G' => true
  | 'H' => true
  | 'I' => true
  | 'J' => true
  | 'K' => true
  | 'L' => true
  | 'M' => true
  | 'N' => true
  | 'O' => true
  | 'P' => true
  | 'Q' => true
  | 'R' => true
  | 'S' => true
  | 'T' => true
  | 'U' => true
  | 'V' => true
  | 'W' => true
  | 'X' => true
  | 'Y' => true
  | 'Z' => true
  | _ => false

def isAsciiLower : Char → Bool
  | 'a' => true
  | 'b' => true
  | 'c' => true
  | 'd' => true
  | 'e' => true
  | 'f' => true
  | 'g' => true
  | 'h' => true
  | 'i' => true
  | 'j' => true
  | 'k' => true
  | 'l' => true
  | 'm' => true
  | 'n' => true
  | 'o' => true
  | 'p' => true
  | 'q' => true
  | 'r' => true
  | 's' => true
  | 't' => true
  | 'u' => true
  | 'v' => true
  | 'w' => true
  | 'x' => true
  | 'y' => true
  | 'z' => true
  | _ => false

def isAsciiDigit : Char → Bool
  | '0' => true
  | '1' => true
  | '2' => true
  | '3' => true
  | '4' => true
  | '5' => true
  | '6' => true
  | '7' => true
  | '8' => true
  | '9' => true
  | _ => false

def isAscii (c : Char) : Bool := c.toNat < 128

def asciiUpper : Char → Char
  | 'a' => 'A'
  | 'b' => 'B'
  | 'c' => 'C'
  | 'd' => 'D'
  | 'e' => 'E'
  | 'f' => 'F'
  | 'g' => 'G'
  | 'h' => 'H'
  | 'i' => 'I'
  | 'j' => 'J'
  | 'k' => 'K'
  | 'l' => 'L'
  | 'm' => 'M'
  | 'n' => 'N'
  | 'o' => 'O'
  | 'p' => 'P'
  | 'q' => 'Q'
  | 'r' => 'R'
  | 's' => 'S'
  | 't' => 'T'
  | 'u' => 'U'
  | 'v' => 'V'
  | 'w' => 'W'
  | 'x' => 'X'
  | 'y' => 'Y'
  | 'z' => 'Z'
  | c => c

def asciiLower : Char → Char
  | 'A' => 'a'
  | 'B' => 'b'
  | 'C' => 'c'
  | 'D' => 'd'
  | 'E' => 'e'
  | 'F' => 'f'
  | 'G' => 'g'
  | 'H' => 'h'
  | 'I' => 'i'
  | 'J' => 'j'
  | 'K' => 'k'
  | 'L' => 'l'
  | 'M' => 'm'
  | 'N' => 'n'
  | 'O' => 'o'
  | 'P' => 'p'
  | 'Q' => 'q'
  | 'R' => 'r'
  | 'S' => 's'
  | 'T' => 't'
  | 'U' => 'u'
  | 'V' => 'v'
  | 'W' => 'w'
  | 'X' => 'x'
  | 'Y' => 'y'
  | 'Z' => 'z'
  | c => c

def toAsciiUpper (s : Str) : Str := s.map asciiUpper
def toAsciiLower (s : Str) : Str := s.map asciiLower

/-- `str::replace(from: char, to: &str)` -/
def replaceChar (s : Str) (c : Char) (r : Str) : Str :=
  s.flatMap fun x => if x = c then r else [x]

/-- is `p` a prefix of `s` -/
def startsWith : Str → Str → Bool
  | _, [] => true
  | [], _ :: _ => false
  | a :: s, b :: p => a == b && startsWith s p

/-- `str::contains(&str)` -/
def containsSub : Str → Str → Bool
  | [], p => p.isEmpty
  | s@(_ :: t), p => startsWith s p || containsSub t p

/-- `str::replace(&str, &str)`: non-overlapping, left to right (pattern non-empty). -/
def replaceSub (s pat rep : Str) : Str :=
  if pat.isEmpty then s else go s.length s
where
  go : Nat → Str → Str
    | 0, s => s
    | _, [] => []
    | fuel+1, s@(c :: t) =>
      if startsWith s pat then rep ++ go fuel (s.drop pat.length) else c :: go fuel t

/-- code-point lexicographic `<` (= Rust `String` `Ord`) -/
def lt : Str → Str → Bool
  | [], [] => false
  | [], _ :: _ => true
  | _ :: _, [] => false
  | a :: s, b :: t => a.toNat < b.toNat || (a == b && lt s t)

def le (a b : Str) : Bool := !(lt b a)

def intercalate (sep : Str) : List Str → Str
  | [] => []
  | [x] => x
  | x :: xs => x ++ sep ++ intercalate sep xs

def natToStr (n : Nat) : Str := (toString n).toList
def intToStr (n : Int) : Str := (toString n).toList

end Str
end TsV
