"""C11 — definitions are emitted exactly once each and after the definitions they use (topsort.rs)."""
import itertools
from common import *


def all_graphs(n):
    """every digraph on n nodes (self loops included), adjacency lists in ascending order"""
    pairs = [(i, j) for i in range(n) for j in range(n)]
    for mask in range(1 << len(pairs)):
        g = [[] for _ in range(n)]
        for b, (i, j) in enumerate(pairs):
            if mask >> b & 1:
                g[i].append(j)
        yield g


def acyclic(g):
    n = len(g)
    state = [0] * n

    def dfs(u):
        state[u] = 1
        for v in g[u]:
            if state[v] == 1 or (state[v] == 0 and not dfs(v)):
                return False
        state[u] = 2
        return True
    return all(state[u] == 2 or dfs(u) for u in range(n))


def rand_graph(rng, n, dag):
    g = [[] for _ in range(n)]
    order = list(range(n))
    rng.shuffle(order)
    pos = {v: i for i, v in enumerate(order)}
    p = rng.choice([0.1, 0.2, 0.4])
    for i in range(n):
        for j in range(n):
            if rng.random() < p and (not dag or pos[j] < pos[i]):
                g[i].append(j)
        rng.shuffle(g[i])
        if rng.random() < 0.2 and g[i]:
            g[i].append(rng.choice(g[i]))       # duplicate edge
    return g


def multi_crate_part(check):
    """folder output: one back-end value writes the modules of all crates one after the other.  Two or three crates define items
    with the *same* names (plus their own); every module must hold each of its crate's items exactly once, in dependency order"""
    rng = check.rng
    ts = [m_path("typeshare")]
    g = Gen(rng)
    mreqs, rreqs, meta, names = [], [], [], set()
    for k in range(18 if check.thorough else 6):
        crates = rng.sample(["alpha", "beta", "gamma_x", "zeta"], rng.randint(2, 3))
        shared = rng.sample(["Settings", "Error", "Item", "Config"], 2)
        jobs, expect = [], {}
        for c in crates:
            own = "Own%s%d" % (c.title().replace("_", ""), k)
            items = [{"kind": "alias", "attrs": list(ts), "ident": shared[0] + "List", "generics": [], "ty": t_path("Vec", [t_path(shared[0])])},
                     {"kind": "struct", "attrs": list(ts), "ident": shared[0], "generics": [], "fields": ("named", [field([], "inner", t_path(shared[1]))])},
                     {"kind": "enum", "attrs": list(ts), "ident": shared[1], "generics": [],
                      "variants": [{"attrs": [], "ident": "A", "fields": ("unit",)}, {"attrs": [], "ident": "B", "fields": ("unit",)}]},
                     {"kind": "struct", "attrs": list(ts), "ident": own, "generics": [("ty", "T")],
                      "fields": ("named", [field([], "all", t_path(shared[0] + "List")), field([], "t", t_path("T"))])}]
            rng.shuffle(items)
            f = {"attrs": [], "items": items}
            jobs.append({"crate": c, "file_name": c + ".out", "path": "%s/src/lib.rs" % c, "file": f})
            expect[c] = [shared[0] + "List", shared[0], shared[1], own]
            names |= l2.names_of(f)
        for lang in ORDER_LANGS:
            cfg = {"package": "proto" if lang == "go" else "com.example", "type_mappings": {}}
            m, r, texts = l2.requests(lang, cfg, jobs, g, multi_file=True)
            mreqs.append(m); rreqs.append(r); meta.append((lang, expect, texts))
    mans = [l2.norm(a) for a in model(mreqs, names=names)]
    rans = [l2.norm(a) for a in runner(rreqs)]
    mismatch = None
    for (lang, expect, texts), ma, ra in zip(meta, mans, rans):
        check.saw(("multi-crate", lang, json.dumps(expect, sort_keys=True)), nontrivial=True)
        check.count("multi-crate-" + lang)
        if "ok" in ra:
            for c, want in expect.items():
                text = ra["ok"].get(c, "")
                defs = [next(x for x in (m.groups() if m.groups() else (m.group(0),)) if x) for m in re.finditer(DEF_RX[lang], text, re.M)]
                for w in want:
                    if defs.count(w) != 1:
                        check.violation("%s folder output: the module of crate `%s` defines `%s` %d time(s) (its crate has exactly one; other "
                                        "crates of the run define items of the same name)" % (lang, c, w, defs.count(w)),
                                        case={"lang": lang, "sources": texts}, impl=ra, model=ma, failing_input=True)
                        return
                pos = {d: i for i, d in enumerate(defs)}
                if not (pos[want[2]] < pos[want[1]] < pos[want[0]] < pos[want[3]]):
                    check.violation("%s folder output: the module of crate `%s` does not write its definitions after the ones they use: %s"
                                    % (lang, c, defs), case={"lang": lang, "sources": texts}, impl=ra, model=ma, failing_input=True)
                    return
        if ma != ra and mismatch is None:
            mismatch = (lang, texts, ma, ra)
    if mismatch:
        lang, texts, ma, ra = mismatch
        check.violation("%s folder output differs from the model on crates that define items of the same names" % lang,
                        case={"lang": lang, "sources": texts}, impl=ra, model=ma, failing_input=False,
                        broken="correspondence L2 generate (multi-file; theorems TsV.C11.*)")


def run(check):
    rng = check.rng
    nmax = 4 if check.thorough else 3
    graphs = [g for n in range(0, nmax + 1) for g in all_graphs(n)]
    n_ex = len(graphs)
    if not check.thorough:
        allg4 = list(itertools.islice(all_graphs(4), 0, None, 13))   # every 13th 4-node graph
        graphs += allg4
    for _ in range(20000 if check.thorough else 3000):
        graphs.append(rand_graph(rng, rng.randint(2, 12), dag=rng.random() < 0.5))
    perms = []
    for n in range(0, 7 if check.thorough else 6):
        perms += [list(p) for p in itertools.permutations(range(n))]
    for _ in range(5000 if check.thorough else 1000):
        n = rng.randint(7, 14)
        p = list(range(n))
        rng.shuffle(p)
        perms.append(p)
    check.rule = ("toposort_impl on every digraph with <= %d nodes (self loops, cycles; %d graphs)%s and random graphs "
                  "(DAGs and cyclic, duplicate edges, shuffled adjacency) to 12 nodes; sort_by_indices on every "
                  "permutation of <= %d elements and random ones to 14; non-trivial = the graph has an edge / the "
                  "permutation is not the identity" % (nmax, n_ex, "" if check.thorough else " plus every 13th 4-node graph", 6 if check.thorough else 5))
    mreq = [[S("toposort"), g] for g in graphs] + [[S("sortidx"), [100 + i for i in range(len(p))], p] for p in perms]
    rreq = [{"op": "toposort", "graph": g} for g in graphs] + \
           [{"op": "sortidx", "data": [100 + i for i in range(len(p))], "idx": p} for p in perms]
    mans, rans = model(mreq, with_unicode=False), runner(rreq)
    for i, (ma, ra, rq) in enumerate(zip(mans, rans, rreq)):
        if rq["op"] == "toposort":
            g = rq["graph"]
            check.saw(("g", json.dumps(g)), nontrivial=any(g))
            check.count("graph n=%d %s" % (len(g), "dag" if acyclic(g) else "cyclic"))
            if ma != ra:
                res = ra.get("ok")
                failing = None
                if res is None or sorted(res) != list(range(len(g))):
                    failing = "result is not a permutation of the nodes"
                elif acyclic(g):
                    posn = {v: k for k, v in enumerate(res)}
                    if any(posn[j] > posn[i] for i in range(len(g)) for j in g[i]):
                        failing = "a definition precedes one it depends on"
                check.violation("toposort_impl differs from the model" + (": " + failing if failing else ""),
                                case=rq, impl=ra, model=ma, failing_input=bool(failing),
                                broken=None if failing else "correspondence toposort_impl (theorems TsV.C11.toposort_*)")
        else:
            p, data = rq["idx"], rq["data"]
            check.saw(("p", tuple(p)), nontrivial=p != sorted(p))
            check.count("perm n=%d" % len(p))
            if ma != ra:
                want = [data[k] for k in p]
                failing = ra.get("ok") != want
                check.violation("sort_by_indices differs from the model", case=rq, impl=ra, model=ma,
                                failing_input=failing,
                                broken=None if failing else "correspondence sort_by_indices (theorems TsV.C11.sortByIndices_*)")
        if rng.random() < 0.0005:
            check.sample({"request": rq, "model": ma, "impl": ra})
    if not check.samples:
        check.sample({"request": rreq[5], "model": mans[5], "impl": rans[5]})
    check.exhaustive = True
    check.extra["exhaustive_scope"] = "digraphs with <= %d nodes; permutations of <= %d elements" % (nmax, 6 if check.thorough else 5)


# ----------------------------------------------------------------------------- definition order end to end (L2)

import re
from syn_gen import *
import l2
from gen import Gen

POSITIONS = ["field", "vec", "option", "hashmap-value", "array", "slice", "generic-arg", "nested-generic", "box",
             "tuple-variant", "struct-variant-field", "alias-target", "alias-vec", "unknown-generic", "same-head-nested", "pair-with-own-param",
             "hashmap-key", "hashmap-key-nested", "pair-first", "option-vec-map", "alias-generic"]
# positions `get_dependencies` does not look into (open known finding `uncovered-reference-positions`)
ORDER_LANGS = ["typescript", "python", "kotlin", "swift", "go"]


def ref_type(pos, target):
    t = t_path(target)
    if pos in ("field", "tuple-variant", "struct-variant-field", "alias-target"):
        return t
    if pos in ("vec", "alias-vec"):
        return t_path("Vec", [t])
    if pos == "alias-generic":
        return t_path("Wrap", [t])                       # an alias whose target is an instantiation of a user-defined generic type
    if pos == "option":
        return t_path("Option", [t])
    if pos == "hashmap-value":
        return t_path("HashMap", [t_path("String"), t])
    if pos == "array":
        return ("array", t, 2)
    if pos == "slice":
        return ("ref", ("slice", t), False)
    if pos == "generic-arg":
        return t_path("Wrap", [t])
    if pos == "nested-generic":
        return t_path("Wrap", [t_path("Vec", [t])])
    if pos == "unknown-generic":
        return t_path("Ext", [t])                       # `Ext` is not a typeshared item of the file
    if pos == "same-head-nested":
        return t_path("Wrap", [t_path("Wrap", [t])])
    if pos == "pair-with-own-param":
        return t_path("Pair", [t_path("T"), t])          # the referring struct is generic over T
    if pos == "box":
        return t_path("Box", [t])
    if pos == "hashmap-key":
        return t_path("HashMap", [t, t_path("u32")])     # the only mention is the key type
    if pos == "hashmap-key-nested":
        return t_path("Option", [t_path("HashMap", [t_path("String"), t_path("HashMap", [t, t_path("bool")])])])
    if pos == "pair-first":
        return t_path("Pair", [t, t_path("u8")])          # the first of two generic arguments
    if pos == "option-vec-map":
        return t_path("Option", [t_path("Vec", [t_path("HashMap", [t_path("String"), t_path("Vec", [t])])])])
    raise ValueError(pos)


def build_program(rng, n, edges, renamed=(), const_alias=False):
    """n items T0..T{n-1}; edges: (i, j, position) = Ti refers to Tj at that position; plus a generic `Wrap<T>`"""
    # type names: the conventional `T3`, and legitimate unconventional spellings (lower-case, leading underscore, all capitals)
    scheme = rng.choice(["T%d"] * 3 + ["mixed", "mixed", "item_%d", "_Meta%d"])
    names = [(rng.choice(["T%d", "item_%d", "_Meta%d", "t%d", "ALLCAPS%d", "camelCase%d"]) if scheme == "mixed" else scheme) % i for i in range(n)]
    kinds = []
    for i in range(n):
        mine = [e for e in edges if e[0] == i]
        if any(p in ("tuple-variant", "struct-variant-field") for _, _, p in mine):
            kinds.append("enum")
        elif mine and all(p in ("alias-target", "alias-vec", "alias-generic") for _, _, p in mine):
            kinds.append("alias")
        elif not mine and rng.random() < 0.4:
            kinds.append("alias-leaf")      # an alias of a primitive: referred to, refers to nothing
        else:
            kinds.append("struct")
    items = []
    ts = [m_path("typeshare")]
    for i in range(n):
        mine = [e for e in edges if e[0] == i]
        attrs = list(ts)
        if i in renamed:
            attrs.append(m_list("serde", [m_nv("rename", lit_s("R%d" % i))]))
        if kinds[i] == "alias-leaf":
            items.append({"kind": "alias", "attrs": attrs, "ident": names[i], "generics": [], "ty": t_path(rng.choice(["String", "u32"]))})
        elif kinds[i] == "alias":
            for extra in mine[1:]:
                edges.remove(extra)          # an alias has one target: drop the other drawn edges
            _, j, p = mine[0]
            items.append({"kind": "alias", "attrs": attrs, "ident": names[i], "generics": [], "ty": ref_type(p, names[j])})
        elif kinds[i] == "enum":
            variants = []
            for k, (_, j, p) in enumerate(mine):
                if p == "struct-variant-field":
                    variants.append({"attrs": [], "ident": "V%d" % k, "fields": ("named", [field([], "x", ref_type(p, names[j]))])})
                else:
                    variants.append({"attrs": [], "ident": "V%d" % k, "fields": ("unnamed", [field([], None, ref_type(p if p == "tuple-variant" else p, names[j]))])})
            variants.append({"attrs": [], "ident": "Unit", "fields": ("unit",)})
            attrs.append(m_list("serde", [m_nv("tag", lit_s("t")), m_nv("content", lit_s("c"))]))
            items.append({"kind": "enum", "attrs": attrs, "ident": names[i], "generics": [], "variants": variants})
        else:
            fs = [field([], "f%d" % k, ref_type(p, names[j])) for k, (_, j, p) in enumerate(mine)]
            fs.append(field([], "plain", t_path("u8")))
            gens = [("ty", "T")] if any(p == "pair-with-own-param" for _, _, p in mine) else []
            items.append({"kind": "struct", "attrs": attrs, "ident": names[i], "generics": gens, "fields": ("named", fs)})
    items.append({"kind": "struct", "attrs": list(ts), "ident": "Wrap", "generics": [("ty", "T")],
                  "fields": ("named", [field([], "inner", t_path("T"))])})
    items.append({"kind": "struct", "attrs": list(ts), "ident": "Pair", "generics": [("ty", "A"), ("ty", "B")],
                  "fields": ("named", [field([], "a", t_path("A")), field([], "b", t_path("B"))])})
    if const_alias:
        # a const whose declared type is a same-file alias (consts are emitted by TypeScript, Go and Python only)
        items.append({"kind": "alias", "attrs": list(ts), "ident": "NumAlias", "generics": [], "ty": t_path("u32")})
        items.append({"kind": "const", "attrs": list(ts), "ident": "LIMIT_X", "ty": t_path("NumAlias"), "expr_text": "7", "init": ("i", 7, "")})
    rng.shuffle(items)
    return {"attrs": [], "items": items, "kinds": kinds}, names


DEF_RX = {
    "typescript": r"^export (?:interface|type|enum) (\w+)",
    "python": r"^(?:class (\w+)\(|(\w+) = (?!TypeVar\())",      # a TypeVar declaration is a generic parameter, not a definition
    "kotlin": r"^(?:data class|sealed class|enum class|typealias|object|value class) (\w+)",
    "swift": r"^public (?:struct|enum|indirect enum|typealias) (\w+)",
    "go": r"^type (\w+)[ \[]",
}


def definition_order(lang, text):
    out = []
    for m in re.finditer(DEF_RX[lang], text, re.M):
        name = next(g for g in m.groups() if g)
        if name not in out:
            out.append(name)
    return out


def acyclic_edges(n, edges):
    g = [[] for _ in range(n)]
    for i, j, _ in edges:
        g[i].append(j)
    return acyclic(g)


def order_part(check):
    rng = check.rng
    ncases = 600 if check.thorough else 300
    mreqs, rreqs, meta = [], [], []
    for c in range(ncases):
        n = rng.randint(2, 8 if not check.thorough else 10)
        dag = rng.random() < 0.75
        order = list(range(n))
        rng.shuffle(order)
        rank = {v: k for k, v in enumerate(order)}
        edges = []
        for i in range(n):
            for j in range(n):
                if rng.random() < 0.3 and (not dag or rank[j] < rank[i]) and (i != j or not dag):
                    edges.append((i, j, rng.choice(POSITIONS)))
        if rng.random() < 0.4:
            # alias-heavy programs: about half of the referring items are aliases (one target each)
            for i in range(n):
                mine = [e for e in edges if e[0] == i]
                if mine and rng.random() < 0.5:
                    keep = rng.choice(mine)
                    edges = [e for e in edges if e[0] != i] + [(i, keep[1], rng.choice(["alias-target", "alias-vec", "alias-generic"]))]
        renamed = [i for i in range(n) if rng.random() < 0.1]
        const_alias = rng.random() < 0.3
        f, names = build_program(rng, n, edges, renamed, const_alias=const_alias)
        f["const_alias"] = const_alias
        g = Gen(rng)
        for lang in ORDER_LANGS:
            cfg = {"package": "proto" if lang == "go" else "com.example", "type_mappings": {}}
            mreq, rreq, texts = l2.requests(lang, cfg, [{"crate": "", "file_name": "o", "path": "src/lib.rs", "file": f}], g)
            mreqs.append(mreq)
            rreqs.append(rreq)
            meta.append((lang, n, edges, renamed, texts[0], l2.names_of(f), f["kinds"], names))
    allnames = set().union(*[m[5] for m in meta])
    mans = [l2.norm(a) for a in model(mreqs, names=allnames)]
    rans = [l2.norm(a) for a in runner(rreqs)]
    mismatch = None
    for (lang, n, edges, renamed, text, _, kinds, inames), ma, ra, rq in zip(meta, mans, rans, rreqs):
        check.saw(("order", lang, text), nontrivial=bool(edges))
        check.count("order-%s-%s" % (lang, "dag" if acyclic_edges(n, edges) else "cyclic"))
        if "ok" in ra:
            out = ra["ok"][""]
            order = definition_order(lang, out)
            pos = {nm: k for k, nm in enumerate(order)}

            def defname(i):
                # the name the item is defined under in this language (C09 matters aside: accept either)
                for cand in ("R%d" % i, inames[i]):
                    if cand in pos:
                        return cand
                return None
            problem = None
            if "LIMIT_X" in out and "NumAlias" in out:
                ca = re.search(r"^(?:export const LIMIT_X|const LimitX|LIMIT_X\b)", out, re.M) or re.search(r"LIMIT_X|LimitX", out)
                aa = re.search(r"^(?:export type NumAlias|type NumAlias|NumAlias =)", out, re.M)
                check.count("order-const-with-alias-type-" + lang)
                if ca and aa and ca.start() < aa.start():
                    check.violation("%s definition order: the const LIMIT_X (type NumAlias) precedes the alias NumAlias it refers to" % lang,
                                    case={"lang": lang, "source": text}, impl=out, model=ma.get("ok"), failing_input=True)
                    return
            missing = [i for i in range(n) if defname(i) is None]
            if missing:
                problem = ("definition missing", missing)
            elif acyclic_edges(n, edges):
                bad = [(i, j, p) for i, j, p in edges if pos[defname(j)] > pos[defname(i)]]
                if bad:
                    # a known finding only if every mis-ordered edge involves a serde-renamed type (reconcile has rewritten the
                    # reference to the new name, the sorter looks names up by the original one)
                    if all(j in renamed or i in renamed for i, j, p in bad):
                        if check.known("renamed-types-not-ordered", {"lang": lang, "source": text, "misordered": bad}):
                            bad = []
                    if bad:
                        problem = ("a definition precedes one it refers to", bad)
            if problem:
                check.violation("%s definition order: %s %s" % (lang, problem[0], problem[1]),
                                case={"lang": lang, "source": text, "edges": edges}, impl=out, model=ma.get("ok"), failing_input=True)
                return
        if ma != ra and mismatch is None:
            # keep looking: a later program may show the property itself failing (a concrete mis-ordered definition)
            mismatch = dict(what="%s generation differs from the model on a reference-graph program: %s" % (
                lang, l2.text_diff(ma["ok"][""], ra["ok"][""]) if "ok" in ma and "ok" in ra else (ma, ra)),
                case={"lang": lang, "source": text, "request": rq}, impl=ra, model=ma)
    if mismatch:
        check.violation(mismatch["what"], case=mismatch["case"], impl=mismatch["impl"], model=mismatch["model"], failing_input=False,
                        broken="correspondence L2 topsort/get_dependencies (theorems TsV.C11.*)")
        return
    # stored witness of the open finding: T0 (renamed) is used by T1; the sorter cannot see the edge
    wf, _ = build_program(random.Random(1), 2, [(1, 0, "field")], renamed=[0])
    wf["items"].sort(key=lambda it: it["ident"], reverse=True)     # source order T1, T0: only sorting could fix it
    a = runner([l2.requests("python", {"type_mappings": {}}, [{"crate": "", "file_name": "o", "path": "w.rs", "file": wf}], Gen(rng))[1]])[0]
    if "ok" in a:
        o = definition_order("python", a["ok"][""])
        if "T1" in o and "R0" in o and o.index("T1") < o.index("R0"):
            check.known("renamed-types-not-ordered", {"lang": "python", "witness": "struct T1 { f0: T0 } with #[serde(rename = \"R0\")] struct T0 is emitted before R0"})


# ----------------------------------------------------------------------------- the mix of variant kinds inside tagged enums

ALL_LANGS = ORDER_LANGS + ["scala"]           # Scala writes consts, aliases, structs, enums in parse order: only "exactly once" is demanded
DEF_RX_SCALA = r"^(?:case class|class|sealed trait|type) (\w+)\b"
VM_BEFORE, VM_MID, VM_AFTER = ["Aa", "Bb", "Cc"], ["Kk", "Mm", "Pp"], ["Xx", "Yy", "Zz"]
VM_VARIANT_WORDS = ["Idle", "Round", "Boxed", "Moved", "Closed", "Pressed", "Empty", "Filled", "Alpha", "Omega", "Left", "Right"]
VM_FIELD_WORDS = ["sides", "label", "inner", "items", "extra", "first", "second"]
VM_WRAPS = ["field"] * 4 + ["vec", "vec", "option", "option", "hashmap-value", "array", "slice", "box", "option-vec-map", "hashmap-key-nested"]
VM_PLAIN = [t_path("String"), t_path("u32"), t_path("bool"), t_path("Vec", [t_path("String")]), t_path("Option", [t_path("u8")])]
VM_LAYOUTS = ["unit-first", "unit-middle", "unit-last", "no-unit", "units-around", "free"]
VM_SKIPS = [m_list("typeshare", [m_path("skip")]), m_list("serde", [m_path("skip")])]
# name coincidences (no serde renames anywhere): what a variant / a field of a tagged enum is named like
VM_GENERIC_COINCIDENCE = True
VM_COINCIDENCES = ["variant-like-own-reference"] * 3 + ["variant-like-other-item", "variant-like-other-item", "variant-like-own-enum",
                                                        "field-like-own-type", "field-like-own-type", "field-like-other-item"]


def vm_how(wrap):
    return "directly" if wrap == "field" else "through " + wrap


class VariantMix:
    """one program: tagged (serde tag/content) enums whose variants are drawn kind by kind - unit, newtype, struct variant,
    payload variants without a reference, skipped variants of every kind - with a reference to another definition of the file
    hanging off each payload position; the things referred to are structs, unit enums, tagged enums and aliases whose names sort
    before or after the enum's; further items (aliases, alias chains, structs, tagged enums) refer to the enum and so pull it
    forward in the output.  `edges` lists every live reference (user, used, description); acyclic by construction unless
    `recursive` (one enum then also holds itself in a Box)."""

    def __init__(self, rng, thorough):
        self.rng, self.thorough = rng, thorough
        self.items, self.names, self.kinds, self.edges, self.layouts = [], [], [], [], []
        self.coincidences = []          # (kind of coincidence, kind of variant, the name, index of the enum)
        self.ts = [m_path("typeshare")]
        self.recursive = rng.random() < 0.08
        self.ghost_used = False
        focus = self.enum("mid", 0, layout=rng.choice(VM_LAYOUTS[:5]), recursive=self.recursive)
        self.focus = focus
        for _ in range(rng.choice([0, 1, 1, 1, 2])):
            self.puller(focus)
        rng.shuffle(self.items)

    # -- names: an item is `<prefix><running number>`; the prefix decides where it sorts among the items of its kind
    def name(self, where):
        pool = {"before": VM_BEFORE, "mid": VM_MID, "after": VM_AFTER, "any": VM_BEFORE + VM_MID + VM_AFTER}[where]
        n = "%s%d" % (self.rng.choice(pool), len(self.names))
        self.names.append(n)
        self.kinds.append(None)
        return len(self.names) - 1

    def add(self, i, kind, item):
        self.kinds[i] = kind
        self.items.append(item)
        return i

    def target(self, depth):
        """something to refer to: an earlier leaf of the program (diamonds) or a new definition"""
        rng = self.rng
        leaves = [i for i, k in enumerate(self.kinds) if k in ("struct-leaf", "unit-enum", "alias-leaf")]
        if leaves and (rng.random() < 0.25 or len(self.names) >= 14):
            return rng.choice(leaves)
        if len(self.names) >= 14:
            depth = 2
        where = rng.choice(["before", "after", "after", "any"])
        kind = rng.choice(["struct", "struct", "unit-enum", "tagged-enum", "alias-leaf", "alias"])
        if depth >= 2 and kind in ("tagged-enum", "alias"):
            kind = rng.choice(["struct", "unit-enum", "alias-leaf"])
        if kind == "tagged-enum":
            return self.enum(where, depth + 1, layout=rng.choice(VM_LAYOUTS))
        i = self.name(where)
        if kind == "unit-enum":
            vs = [{"attrs": [], "ident": w, "fields": ("unit",)} for w in rng.sample(VM_VARIANT_WORDS, rng.randint(1, 3))]
            if rng.random() < 0.25:
                like = rng.choice(self.names)              # a variant of a unit enum named like a definition of the file (or the enum)
                vs[rng.randrange(len(vs))]["ident"] = like
                self.coincidences.append(("variant-like-own-enum" if like == self.names[i] else "variant-like-other-item", "unit-enum variant", like, i))
            return self.add(i, "unit-enum", {"kind": "enum", "attrs": list(self.ts), "ident": self.names[i], "generics": [], "variants": vs})
        if kind == "alias-leaf":
            return self.add(i, "alias-leaf", {"kind": "alias", "attrs": list(self.ts), "ident": self.names[i], "generics": [], "ty": rng.choice(VM_PLAIN[:2])})
        if kind == "alias":
            j, w = self.target(depth + 1), rng.choice(["field", "vec", "option"])
            self.edges.append((i, j, "alias target (%s)" % vm_how(w)))
            return self.add(i, "alias", {"kind": "alias", "attrs": list(self.ts), "ident": self.names[i], "generics": [], "ty": ref_type(w, self.names[j])})
        fs = [field([], "plain", rng.choice(VM_PLAIN))]
        leaf = True
        if depth < 2 and rng.random() < 0.4:
            j, w = self.target(depth + 1), rng.choice(VM_WRAPS)
            self.edges.append((i, j, "struct field (%s)" % vm_how(w)))
            fname = "deeper"
            if rng.random() < 0.3:
                fname = self.names[j]                  # a struct field named exactly like the type it mentions
                self.coincidences.append(("struct-field-like-own-type", "struct", fname, i))
            fs.insert(rng.randint(0, 1), field([], fname, ref_type(w, self.names[j])))
            leaf = False
        return self.add(i, "struct-leaf" if leaf else "struct", {"kind": "struct", "attrs": list(self.ts), "ident": self.names[i], "generics": [], "fields": ("named", fs)})

    def skipped_type(self):
        """the payload of a skipped variant / field: anything - a definition of the file (no order is demanded), a type that
        exists nowhere, a type no back end supports"""
        rng = self.rng
        r = rng.random()
        if r < 0.4 and any(self.kinds):
            return t_path(rng.choice([n for n, k in zip(self.names, self.kinds) if k]))
        if r < 0.7:
            return t_path("Ghost", [t_path("u64")])
        return rng.choice(VM_PLAIN)

    def enum(self, where, depth, layout, must_refer=None, recursive=False):
        """a tagged enum; `layout` says where its unit variants stand; `must_refer`: a definition one of its payloads refers to"""
        rng = self.rng
        i = self.name(where)
        npay = rng.randint(1, 3 if not self.thorough else 4)
        pay = [rng.choice(["newtype", "newtype", "struct", "struct", "newtype-plain", "struct-plain"]) for _ in range(npay)]
        if not any(k in ("newtype", "struct") for k in pay):
            pay[rng.randrange(npay)] = rng.choice(["newtype", "struct"])
        u = lambda: ["unit"] * rng.randint(1, 2)
        if layout == "unit-first":
            kinds = u() + pay
        elif layout == "unit-last":
            kinds = pay + u()
        elif layout == "no-unit":
            kinds = pay
        elif layout == "units-around":
            kinds = u() + pay + u()
        elif layout == "unit-middle":
            if npay == 1:
                pay.append(rng.choice(["newtype", "struct"]))
            cut = rng.randint(1, len(pay) - 1)
            kinds = pay[:cut] + u() + pay[cut:]
        else:
            kinds = pay + ["unit"] * rng.randint(0, 2)
            rng.shuffle(kinds)
        # skipped variants (unit, newtype, several unnamed fields, struct) anywhere in between
        for _ in range(rng.choice([0, 0, 1, 1, 2])):
            kinds.insert(rng.randint(0, len(kinds)), rng.choice(["skipped-unit", "skipped-newtype", "skipped-tuple", "skipped-struct"]))
        words = rng.sample(VM_VARIANT_WORDS, len(kinds))
        variants, shape = [], []
        forced = must_refer
        slots = [k for k, kd in enumerate(kinds) if kd in ("newtype", "struct")]
        forced_at = rng.choice(slots) if forced is not None else None

        # name coincidences: in about half of the enums some variants / fields are named like definitions of the file
        coincide = rng.random() < 0.5
        taken = set()
        mine = []                       # (slot of the field or None, definition referred to) of the variant being built

        def reference(k, what, slot=None):
            nonlocal forced
            w = rng.choice(VM_WRAPS)
            if forced is not None and k == forced_at:
                j, forced = forced, None
            else:
                j = self.target(depth)
            mine.append((slot, j))
            self.edges.append((i, j, "%s of variant #%d `\0V%d` (%s; declared after %d unit, %d payload and %d skipped variant(s))"
                               % (what, k + 1, i, vm_how(w), shape.count("unit"),
                                  sum(s != "unit" and not s.startswith("skipped") for s in shape), sum(s.startswith("skipped") for s in shape))))
            return ref_type(w, self.names[j])
        for k, (kd, word) in enumerate(zip(kinds, words)):
            attrs = [rng.choice(VM_SKIPS)] if kd.startswith("skipped") else []
            del mine[:]
            first_edge = len(self.edges)
            if kd in ("unit", "skipped-unit"):
                fs = ("unit",)
            elif kd == "newtype":
                fs = ("unnamed", [field([], None, reference(k, "payload"))])
            elif kd == "newtype-plain":
                fs = ("unnamed", [field([], None, rng.choice(VM_PLAIN))])
            elif kd == "skipped-newtype":
                fs = ("unnamed", [field([], None, self.skipped_type())])
            elif kd == "skipped-tuple":
                fs = ("unnamed", [field([], None, self.skipped_type()), field([], None, t_path("u8"))])
            elif kd == "skipped-struct":
                fs = ("named", [field([], "ghost", self.skipped_type())])
            else:
                fnames = rng.sample(VM_FIELD_WORDS, rng.randint(1, 3))
                refs = set(rng.sample(range(len(fnames)), rng.randint(1, len(fnames)))) if kd == "struct" else set()
                fl = [field([], fn, reference(k, "field `\0F%d.%d`" % (i, x), slot=x) if x in refs else rng.choice(VM_PLAIN)) for x, fn in enumerate(fnames)]
                co = rng.choice(VM_COINCIDENCES) if coincide and rng.random() < 0.6 else None
                if co in ("field-like-own-type", "field-like-other-item"):
                    own = [(x, j) for x, j in mine if x is not None]
                    if co == "field-like-own-type" and own:
                        x, j = rng.choice(own)
                    else:
                        co, x, j = "field-like-other-item", rng.randrange(len(fl)), rng.randrange(len(self.names))
                    if self.names[j] not in fnames:
                        fnames[x] = fl[x]["ident"] = self.names[j]
                        self.coincidences.append((co, kd, self.names[j], i))
                for x, fn in enumerate(fnames):
                    for e in range(first_edge, len(self.edges)):
                        self.edges[e] = self.edges[e][:2] + (self.edges[e][2].replace("\0F%d.%d`" % (i, x), fn + "`"),)
                if rng.random() < 0.25:
                    fl.insert(rng.randint(0, len(fl)), field([rng.choice(VM_SKIPS)], "hidden", self.skipped_type()))
                fs = ("named", fl)
            co = rng.choice(VM_COINCIDENCES) if coincide and rng.random() < 0.6 else None
            if co and co.startswith("variant"):
                if co == "variant-like-own-reference" and mine:
                    like = self.names[rng.choice(mine)[1]]
                elif co == "variant-like-own-enum":
                    like = self.names[i]
                else:
                    co, like = "variant-like-other-item", rng.choice(self.names)
                    if like == self.names[i]:
                        co = "variant-like-own-enum"
                if like not in taken:
                    word = like
                    self.coincidences.append((co, kd, like, i))
            taken.add(word)
            for e in range(first_edge, len(self.edges)):
                self.edges[e] = self.edges[e][:2] + (self.edges[e][2].replace("\0V%d`" % i, word + "`"),)
            variants.append({"attrs": attrs, "ident": word, "fields": fs})
            shape.append(kd)
        if recursive:
            variants.insert(rng.randint(0, len(variants)), {"attrs": [], "ident": "Again", "fields": ("unnamed", [field([], None, t_path("Box", [t_path(self.names[i])]))])})
            shape.append("newtype-self")
        attrs = list(self.ts) + [m_list("serde", [m_nv("tag", lit_s("t")), m_nv("content", lit_s("c"))])]
        self.layouts.append((layout, tuple(shape)))
        generics = []
        leaves = [n for n, k in zip(self.names, self.kinds) if k in ("struct-leaf", "unit-enum", "alias-leaf")]
        if VM_GENERIC_COINCIDENCE and coincide and leaves and rng.random() < 0.12:
            # a generic parameter named like a definition of the file (one that refers to nothing): inside the enum the name means
            # the parameter, so no order is demanded between the two definitions
            like = rng.choice(leaves)
            generics = [("ty", like)]
            fs = ("unnamed", [field([], None, t_path(like))]) if rng.random() < 0.5 else ("named", [field([], "held", t_path("Vec", [t_path(like)]))])
            variants.insert(rng.randint(0, len(variants)), {"attrs": [], "ident": "Held", "fields": fs})
            self.coincidences.append(("generic-parameter-like-other-item", "enum", like, i))
        return self.add(i, "tagged-enum", {"kind": "enum", "attrs": attrs, "ident": self.names[i], "generics": generics, "variants": variants})

    def puller(self, e):
        """an item that refers to the enum `e` (and is therefore written after it, wherever its own kind and name would put it)"""
        rng = self.rng
        kind = rng.choice(["alias", "alias", "alias-chain", "struct", "tagged-enum"])
        where = rng.choice(["before", "after", "any"])
        if kind == "tagged-enum":
            return self.enum(where, 1, layout=rng.choice(VM_LAYOUTS), must_refer=e)
        i = self.name(where)
        w = rng.choice(["field", "vec", "vec", "option", "hashmap-value", "array"])
        self.edges.append((i, e, "%s (%s)" % ("struct field" if kind == "struct" else "alias target", vm_how(w))))
        if kind == "struct":
            fs = [field([], "plain", rng.choice(VM_PLAIN)), field([], "all", ref_type(w, self.names[e]))]
            rng.shuffle(fs)
            return self.add(i, "struct", {"kind": "struct", "attrs": list(self.ts), "ident": self.names[i], "generics": [], "fields": ("named", fs)})
        self.add(i, "alias", {"kind": "alias", "attrs": list(self.ts), "ident": self.names[i], "generics": [], "ty": ref_type(w, self.names[e])})
        if kind == "alias-chain":
            for _ in range(rng.randint(1, 2)):
                j, i = i, self.name(rng.choice(["before", "after"]))
                w = rng.choice(["field", "vec", "option"])
                self.edges.append((i, j, "alias target (%s)" % vm_how(w)))
                self.add(i, "alias", {"kind": "alias", "attrs": list(self.ts), "ident": self.names[i], "generics": [], "ty": ref_type(w, self.names[j])})
        return i

    def file(self):
        return {"attrs": [], "items": self.items}

    def describe(self, i):
        it = next(x for x in self.items if x["ident"] == self.names[i])
        if self.kinds[i] != "tagged-enum":
            return "%s `%s`" % (self.kinds[i].replace("-leaf", ""), self.names[i])
        vs = []
        for v in it["variants"]:
            f = v["fields"]
            body = "" if f[0] == "unit" else "(%s)" % ", ".join(render_type(x["ty"]) for x in f[1]) if f[0] == "unnamed" else \
                " { %s }" % ", ".join(("skipped " if x["attrs"] else "") + "%s: %s" % (x["ident"], render_type(x["ty"])) for x in f[1])
            vs.append(("skipped " if v["attrs"] else "") + v["ident"] + body)
        return "tagged enum `%s` { %s }" % (self.names[i], ", ".join(vs))


def definition_counts(lang, text):
    """name -> (how many times it is defined at top level, position of the first definition among the file's definitions)"""
    out = {}
    for k, m in enumerate(re.finditer(DEF_RX_SCALA if lang == "scala" else DEF_RX[lang], text, re.M)):
        name = next(g for g in m.groups() if g)
        n, first = out.get(name, (0, k))
        out[name] = (n + 1, first)
    return out


def variant_mix_part(check):
    """dimension: the order and mix of variant kinds inside tagged enums.  Every program is built around a tagged enum whose unit
    variants come first / in the middle / last / on both sides / not at all (further enums of the program: any order), whose
    payload variants are newtype or struct variants with or without references, with skipped variants (unit, newtype, several
    unnamed fields, struct) and skipped fields in between; a reference to another definition of the file hangs off every live
    payload position (directly, through Vec / Option / HashMap / array / slice / Box).  What is referred to: structs, unit
    enums, tagged enums (again with mixed variants) and aliases, two levels deep, with names that sort before and after the
    enum's; aliases, alias chains, structs and other tagged enums refer to the enum and pull it forward.  All six languages.
    Name coincidences (no serde renames involved): in about half of the enums, variants of every kind (unit, newtype, struct,
    skipped; also the variants of plain unit enums) are named like a definition one of their own fields / payloads mentions,
    like any other definition of the file or like the enum itself; fields of struct variants and of structs are named like the
    type they hold or like another definition; a generic parameter of the enum is named like a definition of the file that
    refers to nothing (inside the enum the name then means the parameter: no order is demanded for it).  The namesakes sort
    before and after the enum.  A name in the variant / field namespace changes nothing about what the types refer to: the
    demands below stay exactly the same.
    Demanded of the implementation's output: every definition of the program is written exactly once, and (TS / Python /
    Kotlin / Swift / Go, acyclic programs - all but the few where an enum boxes itself) after every definition it refers to
    through a live variant, field or alias target; skipped variants and fields demand nothing.  Byte-exact against the model."""
    rng = check.rng
    ncases = 1500 if check.thorough else 300
    g = Gen(rng)
    mreqs, rreqs, meta, names = [], [], [], set()
    for c in range(ncases):
        p = VariantMix(rng, check.thorough)
        f = p.file()
        names |= l2.names_of(f)
        for lay, shape in p.layouts:
            check.count("variant-mix-layout-" + lay)
            live = [s for s in shape if not s.startswith("skipped")]
            if "unit" in live and any(s in ("newtype", "struct") for s in live[live.index("unit"):]):
                check.count("variant-mix-reference-after-unit-variant")
            if any(s.startswith("skipped") for s in shape):
                check.count("variant-mix-enum-with-skipped-variant")
        for i, j, _ in p.edges:
            check.count("variant-mix-edge %s -> %s (%s name)" % (p.kinds[i].replace("-leaf", ""), p.kinds[j].replace("-leaf", ""),
                                                                 "later" if p.names[j] > p.names[i] else "earlier"))
        check.count("variant-mix-program-" + ("recursive" if p.recursive else "acyclic"))
        for co, kd, like, i in p.coincidences:
            check.count("variant-mix-coincidence %s (%s%s)" % (co, kd, "" if like == p.names[i] else
                                                                "; the namesake sorts %s the definition" % ("after" if like > p.names[i] else "before")))
        for lang in ALL_LANGS:
            cfg = {"package": "proto" if lang == "go" else "com.example", "type_mappings": {}}
            m, r, texts = l2.requests(lang, cfg, [{"crate": "", "file_name": "o", "path": "src/lib.rs", "file": f}], g)
            mreqs.append(m); rreqs.append(r); meta.append((lang, p, texts[0]))
    mans = [l2.norm(a) for a in model(mreqs, names=names)]
    rans = [l2.norm(a) for a in runner(rreqs)]
    mismatch = None
    for (lang, p, text), ma, ra, rq in zip(meta, mans, rans, rreqs):
        check.saw(("variant-mix", lang, text), nontrivial=True)
        if "ok" not in ra:
            check.count("variant-mix-%s-no-output" % lang)
        else:
            check.count("variant-mix-%s-generated" % lang)
            out = ra["ok"][""]
            defs = definition_counts(lang, out)
            case = {"lang": lang, "source": text, "references": [(p.names[i], p.names[j], d) for i, j, d in p.edges]}
            wrong = [(n, defs.get(n, (0, 0))[0]) for n in p.names if defs.get(n, (0, 0))[0] != 1]
            if wrong:
                check.violation("%s, tagged enums with mixed variant kinds: %s (every definition of the file must be written exactly once)"
                                % (lang, "; ".join("`%s` is defined %d time(s)" % w for w in wrong)),
                                case=case, impl=out, model=ma.get("ok"), failing_input=True)
                return
            if lang != "scala" and not p.recursive:
                bad = [(i, j, d) for i, j, d in p.edges if defs[p.names[j]][1] > defs[p.names[i]][1]]
                if bad:
                    i, j, d = bad[0]
                    check.violation("%s, tagged enums with mixed variant kinds: %s is written before %s, which it refers to in the %s"
                                    "%s" % (lang, p.describe(i), p.describe(j), d,
                                            "" if len(bad) == 1 else " (and %d more mis-ordered reference(s))" % (len(bad) - 1)),
                                    case=dict(case, misordered=[(p.names[i], p.names[j], d) for i, j, d in bad],
                                              written_order=[n for n, _ in sorted(defs.items(), key=lambda kv: kv[1][1]) if n in p.names]),
                                    impl=out, model=ma.get("ok"), failing_input=True)
                    return
        if ma != ra and mismatch is None:
            mismatch = dict(what="%s generation differs from the model on a program of tagged enums with mixed variant kinds: %s" % (
                lang, l2.text_diff(ma["ok"][""], ra["ok"][""]) if "ok" in ma and "ok" in ra else (ma, ra)),
                case={"lang": lang, "source": text, "request": rq}, impl=ra, model=ma)
    if mismatch:
        check.violation(mismatch["what"], case=mismatch["case"], impl=mismatch["impl"], model=mismatch["model"], failing_input=False,
                        broken="correspondence L2 topsort/get_dependencies on enum variants (theorems TsV.C11.*)")


_run_graphs = run


def run(check):
    _run_graphs(check)
    if not check.has_failing():
        order_part(check)
    if not check.has_failing():
        variant_mix_part(check)
    if not check.has_failing():
        multi_crate_part(check)
    check.rule += ("; end to end: programs of 2-8 (thorough 10) items whose reference graph (DAGs and cyclic) is placed at 13 kinds of "
                   "positions (field, Vec, Option, HashMap value, array, slice, generic argument, nested generic argument, Box, tuple "
                   "variant, struct-variant field, alias target), random source order, optional serde renames, through "
                   "parse->reconcile->generate for TS/Python/Kotlin/Swift/Go: definition order extracted from the real output must "
                   "be a permutation and, for DAGs, topological; byte-exact against the model; tagged enums with every order and mix "
                   "of variant kinds (unit variants first / in the middle / last / around / absent, newtype and struct variants with "
                   "and without references, skipped variants and fields in between), references from each payload position to "
                   "structs, unit enums, tagged enums and aliases named before and after the enum, pulled forward by aliases, alias "
                   "chains, structs and other enums, with variants / fields / generic parameters named like definitions of the file "
                   "(the one the variant's own fields mention, another one, the enum itself), six languages: each definition exactly "
                   "once and (all but Scala, acyclic programs) after what it refers to")
