import TsV.Lemmas.C06_Multi_Backends
import TsV.Lemmas.Outcome
/-!
# From source files to arrivals: walk order and the `HashSet::find` choice

* `parseAll_perm`: when every file parses, permuting the files permutes the arrivals;
* `parseAll_pick`: the choice `pick` made by `HashSet::find` in `reconcile_referenced_types` is irrelevant when,
  for every referenced non-local type name, at most one import carries that name (`PickOK`).
-/
namespace TsV.C06M
open TsV

def optList {α} : Option α → List α
  | some d => [d]
  | none => []

theorem parseAll_cons_ok (E : Ext) (ctx : ParseContext) (pick : List ImportedType → Option ImportedType)
    (f : Generate.SourceFile) (fs : List Generate.SourceFile) (a : List ParsedData) :
    Generate.parseAll E ctx pick (f :: fs) = .ok a ↔
      ∃ r rest, Visitor.parseFile E ctx pick f.crateName f.fileName f.path f.file = .ok r ∧
        Generate.parseAll E ctx pick fs = .ok rest ∧ a = optList r ++ rest := by
  have e : Generate.parseAll E ctx pick (f :: fs) =
      (Visitor.parseFile E ctx pick f.crateName f.fileName f.path f.file).bind fun r =>
      (Generate.parseAll E ctx pick fs).bind fun rest =>
        .ok (match r with | some d => d :: rest | none => rest) := rfl
  rw [e]
  cases h1 : Visitor.parseFile E ctx pick f.crateName f.fileName f.path f.file with
  | ok r =>
    cases h2 : Generate.parseAll E ctx pick fs with
    | ok rest =>
      cases r with
      | none => simp [Outcome.bind, optList, eq_comm]
      | some d => simp [Outcome.bind, optList, eq_comm]
    | err e => simp [Outcome.bind]
    | panic s => simp [Outcome.bind]
  | err e => simp [Outcome.bind]
  | panic s => simp [Outcome.bind]

theorem filterMap_congr' {α β} {f g : α → Option β} : ∀ {l : List α}, (∀ x ∈ l, f x = g x) →
    l.filterMap f = l.filterMap g
  | [], _ => rfl
  | x :: t, h => by
    simp only [List.filterMap_cons, h x (by simp)]
    rw [filterMap_congr' (l := t) (fun y hy => h y (by simp [hy]))]

/-- **walk order**: if every file parses, another order of the files yields a permutation of the arrivals -/
theorem parseAll_perm (E : Ext) (ctx : ParseContext) (pick : List ImportedType → Option ImportedType)
    {files files' : List Generate.SourceFile} (hp : files.Perm files') :
    ∀ a, Generate.parseAll E ctx pick files = .ok a →
      ∃ b, Generate.parseAll E ctx pick files' = .ok b ∧ a.Perm b := by
  induction hp with
  | nil => intro a h; exact ⟨a, h, .refl _⟩
  | cons x _ ih =>
    intro a h
    obtain ⟨r, rest, h1, h2, rfl⟩ := (parseAll_cons_ok E ctx pick x _ a).1 h
    obtain ⟨b, hb, hab⟩ := ih rest h2
    exact ⟨optList r ++ b, (parseAll_cons_ok E ctx pick x _ _).2 ⟨r, b, h1, hb, rfl⟩, hab.append_left _⟩
  | swap x y l =>
    intro a h
    obtain ⟨ry, rest, h1, h2, rfl⟩ := (parseAll_cons_ok E ctx pick y _ a).1 h
    obtain ⟨rx, rest', h3, h4, rfl⟩ := (parseAll_cons_ok E ctx pick x _ rest).1 h2
    refine ⟨optList rx ++ (optList ry ++ rest'), ?_, ?_⟩
    · exact (parseAll_cons_ok E ctx pick x _ _).2 ⟨rx, _, h3,
        (parseAll_cons_ok E ctx pick y _ _).2 ⟨ry, rest', h1, h4, rfl⟩, rfl⟩
    · rw [← List.append_assoc, ← List.append_assoc]
      exact List.perm_append_comm.append_right _
  | trans _ _ ih1 ih2 =>
    intro a h
    obtain ⟨b, hb, hab⟩ := ih1 a h
    obtain ⟨c, hc, hbc⟩ := ih2 b hb
    exact ⟨c, hc, hab.trans hbc⟩

/-- `HashSet::find`: some matching element if there is one, `None` otherwise -/
def ValidPick (pick : List ImportedType → Option ImportedType) : Prop :=
  ∀ l, match pick l with
    | none => l = []
    | some x => x ∈ l

theorem validPick_unique {p p' : List ImportedType → Option ImportedType} (h : ValidPick p) (h' : ValidPick p') :
    ∀ l : List ImportedType, l.length ≤ 1 → p l = p' l
  | [], _ => by
    have h1 := h []; have h2 := h' []
    cases hp : p [] with
    | some x => rw [hp] at h1; simp at h1
    | none =>
      cases hp' : p' [] with
      | some x => rw [hp'] at h2; simp at h2
      | none => rfl
  | [x], _ => by
    have h1 := h [x]; have h2 := h' [x]
    cases hp : p [x] with
    | none => rw [hp] at h1; simp at h1
    | some y =>
      cases hp' : p' [x] with
      | none => rw [hp'] at h2; simp at h2
      | some z =>
        rw [hp] at h1; rw [hp'] at h2
        simp only [List.mem_singleton] at h1 h2
        rw [h1, h2]
  | _ :: _ :: _, hl => by simp at hl

/-- for every referenced type that is not defined in the file, at most one import has that name: `find` has
no choice -/
def PickOK (U : UnicodeOps) (d : ParsedData) : Bool :=
  (((Visitor.allReferences U d).eraseDups).filter fun r => !d.typeNames.contains r).all fun name =>
    decide ((d.importTypes.filter (·.typeName == name)).length ≤ 1)

theorem reconcileReferencedTypes_pick (U : UnicodeOps) {p p' : List ImportedType → Option ImportedType}
    (h : ValidPick p) (h' : ValidPick p') (d : ParsedData) (hok : PickOK U d = true) :
    Visitor.reconcileReferencedTypes U p d = Visitor.reconcileReferencedTypes U p' d := by
  unfold Visitor.reconcileReferencedTypes
  have : ((((Visitor.allReferences U d).eraseDups).filter fun r => !d.typeNames.contains r).filterMap fun name =>
        p (d.importTypes.filter (·.typeName == name))) =
      ((((Visitor.allReferences U d).eraseDups).filter fun r => !d.typeNames.contains r).filterMap fun name =>
        p' (d.importTypes.filter (·.typeName == name))) := by
    apply filterMap_congr'
    intro name hn
    have := List.all_eq_true.1 hok name hn
    exact validPick_unique h h' _ (by simpa using this)
  simp only [this]

theorem parseFile_pick (E : Ext) (ctx : ParseContext) {p p' : List ImportedType → Option ImportedType}
    (h : ValidPick p) (h' : ValidPick p') (c fn path : Str) (f : Syn.File)
    (hok : ∀ d, Visitor.visitFile E ctx c fn path f = .ok d → PickOK E.U d = true) :
    Visitor.parseFile E ctx p c fn path f = Visitor.parseFile E ctx p' c fn path f := by
  unfold Visitor.parseFile
  by_cases hm : f.marker = true
  · simp only [hm, Bool.not_true, Bool.false_eq_true, if_false]
    cases hv : Visitor.visitFile E ctx c fn path f with
    | ok d =>
      simp only [Outcome.bind]
      rw [reconcileReferencedTypes_pick E.U h h' d (hok d hv)]
    | err e => rfl
    | panic s => rfl
  · simp [hm]

/-- in no file does `HashSet::find` have a choice -/
def FilesPickOK (E : Ext) (ctx : ParseContext) (files : List Generate.SourceFile) : Prop :=
  ∀ f ∈ files, ∀ d, Visitor.visitFile E ctx f.crateName f.fileName f.path f.file = .ok d → PickOK E.U d = true

/-- **hash order in `reconcile_referenced_types`**: the arrivals do not depend on the `find` choice -/
theorem parseAll_pick (E : Ext) (ctx : ParseContext) {p p' : List ImportedType → Option ImportedType}
    (h : ValidPick p) (h' : ValidPick p') : ∀ (files : List Generate.SourceFile), FilesPickOK E ctx files →
    Generate.parseAll E ctx p files = Generate.parseAll E ctx p' files
  | [], _ => rfl
  | f :: fs, hok => by
    rw [Generate.parseAll, Generate.parseAll, parseFile_pick E ctx h h' _ _ _ _ (hok f (by simp)),
      parseAll_pick E ctx h h' fs (fun g hg => hok g (by simp [hg]))]

/-- `FilesPickOK` as a computation -/
def filesPickOKb (E : Ext) (ctx : ParseContext) (files : List Generate.SourceFile) : Bool :=
  files.all fun f =>
    match Visitor.visitFile E ctx f.crateName f.fileName f.path f.file with
    | .ok d => PickOK E.U d
    | _ => true

theorem filesPickOK_of_b (E : Ext) (ctx : ParseContext) (files : List Generate.SourceFile)
    (h : filesPickOKb E ctx files = true) : FilesPickOK E ctx files := by
  intro f hf d hd
  have := List.all_eq_true.1 h f hf
  rw [hd] at this
  exact this

theorem validPick_head : ValidPick fun l => l.head? := by
  intro l; cases l <;> simp

theorem validPick_getLast : ValidPick fun l => l.getLast? := by
  intro l
  show match l.getLast? with | none => l = [] | some x => x ∈ l
  cases h : l.getLast? with
  | none => simpa using h
  | some x => exact List.mem_of_getLast? h

/-- the value of a successful outcome -/
def getOk {α} [Inhabited α] : Outcome α → α
  | .ok a => a
  | _ => default

theorem eq_ok_getOk {α} [Inhabited α] {o : Outcome α} (h : o.isOk = true) : o = .ok (getOk o) := by
  cases o <;> simp_all [Outcome.isOk, getOk]

end TsV.C06M
